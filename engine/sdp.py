"""R-SDP: optimisation-problem skeleton extraction (cvxpy and picos styles).

For a function that builds a problem we extract
  variables   : target (name or dict name), constructor, declared cone attributes, shape term, loop nest
  constraints : relation (>> << == <= >=), lhs / rhs terms, loop nest, container they were put in
  problems    : objective sense + expression, the constraint container(s) handed over
  solve calls : and what is returned
and answer table-driven questions about them.  Nothing is solved.
"""

from __future__ import annotations

import ast
from dataclasses import dataclass, field

from .dataflow import origins
from .model import FunctionInfo, calls_in, unparse, walk_no_nested
from .norm import Normalizer, mentions_name, show, subterms

REL = {ast.RShift: ">>", ast.LShift: "<<"}
CMP = {ast.Eq: "==", ast.LtE: "<=", ast.GtE: ">=", ast.Lt: "<", ast.Gt: ">"}

VAR_CTORS = {"cvxpy.Variable": "cvxpy", "picos.HermitianVariable": "picos-herm", "picos.SymmetricVariable": "picos-sym",
             "picos.RealVariable": "picos-real", "picos.ComplexVariable": "picos-complex",
             "picos.expressions.variables.HermitianVariable": "picos-herm"}


@dataclass
class Var:
    name: str  # local name or dict name
    ctor: str
    attrs: dict
    shape: tuple | None
    loops: list
    node: ast.AST
    indexed: bool = False  # stored as dict[name][...] / list element


@dataclass
class Con:
    rel: str
    lhs: tuple
    rhs: tuple
    loops: list  # [(target names, iter term)]
    container: str | None  # name of the list it was appended to / '<problem>' for add_constraint
    node: ast.AST
    lhs_node: ast.AST = None
    rhs_node: ast.AST = None
    cond: list = field(default_factory=list)
    consumed_by: list = field(default_factory=list)  # indices of problems that took this constraint at construction time

    def sides(self):
        return (self.lhs, self.rhs)


@dataclass
class Prob:
    sense: str | None  # 'max' | 'min'
    objective: tuple | None
    containers: list
    node: ast.AST
    name: str | None = None
    objective_node: ast.AST = None


def _exclusive(conds_a, conds_b):
    """Two path conditions that contain the same test with opposite polarity cannot both hold."""
    for ta, pa in conds_a:
        for tb, pb in conds_b:
            if ta is tb and pa != pb:
                return True
    return False


class Skeleton:
    def __init__(self, model, f: FunctionInfo):
        self.model = model
        self.f = f
        self.N = Normalizer(model, f, inline=False)
        self.Ni = Normalizer(model, f, inline=True)
        self.vars: list[Var] = []
        self.cons: list[Con] = []
        self.probs: list[Prob] = []
        self.solves: list[ast.AST] = []
        self.returned: list[str] = []
        self.og = origins(f)
        self._walk(f.node.body, [], [])
        self._link()

    # -----------------------------------------------------------------------------------------
    def _lib(self, call):
        cal = self.model.resolve_call(self.f, call)
        return cal.key if cal.kind == "lib" else None

    def _loops_of(self, stack):
        out = []
        for st in stack:
            if isinstance(st, (ast.For, ast.comprehension)):
                names = tuple(x.id for x in ast.walk(st.target) if isinstance(x, ast.Name))
                out.append((names, self.N(st.iter), st))
        return out

    def _walk(self, body, stack, conds):
        for st in body:
            self._stmt(st, stack, conds)

    def _stmt(self, st, stack, conds):  # noqa: C901
        if isinstance(st, (ast.FunctionDef, ast.AsyncFunctionDef, ast.ClassDef)):
            return
        if isinstance(st, (ast.For, ast.While)):
            self._scan_expr(getattr(st, "iter", None) or st.test, st, stack, conds)
            self._walk(st.body, stack + [st], conds)
            self._walk(st.orelse, stack, conds)
            return
        if isinstance(st, ast.If):
            self._scan_expr(st.test, st, stack, conds)
            self._walk(st.body, stack, conds + [(st.test, True)])
            self._walk(st.orelse, stack, conds + [(st.test, False)])
            return
        if isinstance(st, (ast.With,)):
            self._walk(st.body, stack, conds)
            return
        if isinstance(st, ast.Try):
            self._walk(st.body, stack, conds)
            for h in st.handlers:
                self._walk(h.body, stack, conds)
            self._walk(st.orelse, stack, conds)
            self._walk(st.finalbody, stack, conds)
            return
        if isinstance(st, ast.Assign):
            self._assign(st, st.targets[0], st.value, stack, conds)
            return
        if isinstance(st, ast.AugAssign):
            # constraints += [ ... ]
            if isinstance(st.target, ast.Name) and isinstance(st.op, ast.Add):
                self._collect_into(st.target.id, st.value, st, stack, conds)
            self._scan_expr(st.value, st, stack, conds)
            return
        if isinstance(st, ast.Expr):
            self._scan_expr(st.value, st, stack, conds)
            return
        if isinstance(st, ast.Return) and st.value is not None:
            if isinstance(st.value, ast.Name):
                self.returned.append(st.value.id)
            self._scan_expr(st.value, st, stack, conds)

    def _ctor_alias(self, call):
        """`ctor = A if cond else B` ... `ctor(name, shape)`: the variable class is chosen at run time.  Returns the weakest candidate
        (a real / symmetric class if any branch can pick one) and the selecting condition, or None."""
        by_attr = {"HermitianVariable": "picos.HermitianVariable", "SymmetricVariable": "picos.SymmetricVariable",
                   "RealVariable": "picos.RealVariable", "ComplexVariable": "picos.ComplexVariable"}
        cands, cond = [], None
        if isinstance(call.func, ast.IfExp):
            # the conditional written in place: (A if cond else B)(name, shape)
            srcs = [ast.Assign(targets=[ast.Name(id="_", ctx=ast.Store())], value=call.func)]
            want = "_"
        elif isinstance(call.func, ast.Name):
            srcs = list(ast.walk(self.f.node))
            want = call.func.id
        else:
            return None
        for n in srcs:
            if isinstance(n, ast.Assign) and len(n.targets) == 1 and isinstance(n.targets[0], ast.Name) and n.targets[0].id == want:
                vals = [n.value.body, n.value.orelse] if isinstance(n.value, ast.IfExp) else [n.value]
                if isinstance(n.value, ast.IfExp):
                    cond = unparse(n.value.test)
                for v in vals:
                    nm = v.attr if isinstance(v, ast.Attribute) else v.id if isinstance(v, ast.Name) else None
                    if nm in by_attr:
                        cands.append(by_attr[nm])
                    else:
                        return None
        if not cands:
            return None
        weak = [c for c in cands if c in ("picos.SymmetricVariable", "picos.RealVariable")]
        return (weak[0] if weak else cands[0]), cond, sorted(set(cands))

    def _var_from_call(self, call):
        lib = self._lib(call)
        alias = None
        if lib not in VAR_CTORS:
            alias = self._ctor_alias(call)
            if alias is not None:
                lib = alias[0]
        if lib in VAR_CTORS:
            attrs = {}
            for kw in call.keywords:
                if kw.arg:
                    attrs[kw.arg] = self.N(kw.value)
            shape = None
            if VAR_CTORS[lib] == "cvxpy":
                if call.args:
                    shape = self.Ni(call.args[0])
                elif "shape" in attrs:
                    shape = attrs["shape"]
            else:
                if len(call.args) > 1:
                    shape = self.Ni(call.args[1])
                if VAR_CTORS[lib] == "picos-herm":
                    attrs["hermitian"] = ("c", True)
                if VAR_CTORS[lib] == "picos-sym":
                    attrs["symmetric"] = ("c", True)
            if alias is not None and len(alias[2]) > 1:
                attrs["chosen_by"] = ("c", f"{' / '.join(x.split('.')[-1] for x in alias[2])} chosen by `{alias[1]}`")
            return lib, attrs, shape
        return None

    def _assign(self, st, target, value, stack, conds):
        # variable declarations
        found = None
        if isinstance(value, ast.Call):
            found = self._var_from_call(value)
        if found is None and isinstance(value, (ast.ListComp, ast.DictComp)):
            elt = value.elt if isinstance(value, ast.ListComp) else value.value
            if isinstance(elt, ast.Call):
                found = self._var_from_call(elt)
                if found is not None:
                    stack = stack + list(value.generators)
                    name = target.id if isinstance(target, ast.Name) else unparse(target)
                    self.vars.append(Var(name, found[0], found[1], found[2], self._loops_of(stack), st, True))
                    return
        if found is not None:
            if isinstance(target, ast.Name):
                self.vars.append(Var(target.id, found[0], found[1], found[2], self._loops_of(stack), st, False))
            elif isinstance(target, ast.Subscript) and isinstance(target.value, ast.Name):
                self.vars.append(Var(target.value.id, found[0], found[1], found[2], self._loops_of(stack), st, True))
            elif isinstance(target, ast.Attribute):
                self.vars.append(Var(unparse(target), found[0], found[1], found[2], self._loops_of(stack), st, False))
            return
        # constraint lists: name = [c1, c2, ...]
        if isinstance(target, ast.Name) and isinstance(value, (ast.List, ast.ListComp, ast.BinOp)):
            # re-binding a container name drops what was collected under it so far (unless the new value
            # mentions the old one: constraints = constraints + [...])
            if not any(isinstance(x, ast.Name) and x.id == target.id for x in ast.walk(value)):
                for c in self.cons:
                    if c.container == target.id and not _exclusive(c.cond, conds):
                        c.container = f"{target.id}#rebound@{getattr(st, 'lineno', 0)}"
            self._collect_into(target.id, value, st, stack, conds)
        # problems
        if isinstance(value, ast.Call):
            self._scan_expr(value, st, stack, conds, assigned=target)
        else:
            self._scan_expr(value, st, stack, conds)

    def _collect_into(self, container, value, st, stack, conds):
        if isinstance(value, ast.List):
            for e in value.elts:
                self._constraint(e, container, st, stack, conds)
        elif isinstance(value, ast.ListComp):
            self._constraint(value.elt, container, st, stack + list(value.generators), conds)
        elif isinstance(value, ast.BinOp) and isinstance(value.op, ast.Add):
            self._collect_into(container, value.left, st, stack, conds)
            self._collect_into(container, value.right, st, stack, conds)
        elif isinstance(value, ast.Name):
            # alias / concatenation of another container
            self.cons.append(Con("alias", ("n", value.id), ("c", None), self._loops_of(stack), container, st))

    def _constraint(self, e, container, st, stack, conds):
        rel = None
        if isinstance(e, ast.BinOp) and type(e.op) in REL:
            rel = REL[type(e.op)]
            l, r = e.left, e.right
        elif isinstance(e, ast.Compare) and len(e.ops) == 1 and type(e.ops[0]) in CMP:
            rel = CMP[type(e.ops[0])]
            l, r = e.left, e.comparators[0]
        if rel is None:
            if isinstance(e, ast.Name):
                self.cons.append(Con("alias", ("n", e.id), ("c", None), self._loops_of(stack), container, st))
            elif isinstance(e, ast.Starred) and isinstance(e.value, ast.Name):
                self.cons.append(Con("alias", ("n", e.value.id), ("c", None), self._loops_of(stack), container, st))
            elif isinstance(e, ast.ListComp):
                self._constraint(e.elt, container, st, stack + list(e.generators), conds)
            return False
        self.cons.append(Con(rel, self.N(l), self.N(r), self._loops_of(stack), container, e, l, r, list(conds)))
        return True

    def _scan_expr(self, e, st, stack, conds, assigned=None):
        if e is None:
            return
        for c in ast.walk(e):
            if not isinstance(c, ast.Call):
                continue
            lib = self._lib(c)
            fn = c.func
            if isinstance(fn, ast.Attribute) and fn.attr in ("append", "extend", "add_constraint", "add_list_of_constraints",
                                                              "insert") and isinstance(fn.value, ast.Name) and c.args:
                cont = fn.value.id
                arg = c.args[-1] if fn.attr == "insert" else c.args[0]
                if fn.attr == "append" and isinstance(arg, ast.Call) and self._var_from_call(arg) is not None:
                    found = self._var_from_call(arg)
                    self.vars.append(Var(cont, found[0], found[1], found[2], self._loops_of(stack), st, True))
                    continue
                if fn.attr in ("add_constraint",):
                    self._constraint(arg, "<problem:%s>" % cont, st, stack, conds)
                elif fn.attr in ("extend", "add_list_of_constraints"):
                    c2 = "<problem:%s>" % cont if fn.attr == "add_list_of_constraints" else cont
                    if isinstance(arg, (ast.List, ast.ListComp, ast.BinOp, ast.Name)):
                        self._collect_into(c2, arg, st, stack, conds)
                    elif isinstance(arg, ast.GeneratorExp):
                        self._constraint(arg.elt, c2, st, stack + list(arg.generators), conds)
                else:
                    self._constraint(arg, cont, st, stack, conds)
            if lib == "cvxpy.Problem":
                sense = None
                objt = None
                objn = None
                if c.args:
                    o = c.args[0]
                    on = o
                    alts = []
                    if isinstance(o, ast.Name):
                        # objective = cvxpy.Maximize(...)   (possibly one assignment per branch)
                        for n in walk_no_nested(self.f.node):
                            if isinstance(n, ast.Assign) and isinstance(n.targets[0], ast.Name) and n.targets[0].id == o.id and \
                                    n.lineno <= c.lineno:
                                on = n.value
                                alts.append(n.value)
                    if isinstance(on, ast.Call):
                        l2 = self._lib(on)
                        if l2 == "cvxpy.Maximize":
                            sense = "max"
                        elif l2 == "cvxpy.Minimize":
                            sense = "min"
                        if on.args:
                            objt = self.N(on.args[0])
                            objn = on.args[0]
                conts = []
                carg = c.args[1] if len(c.args) > 1 else next((k.value for k in c.keywords if k.arg == "constraints"), None)
                if carg is not None:
                    if isinstance(carg, ast.Name):
                        conts.append(carg.id)
                    else:
                        cname = f"<inline:{c.lineno}>"
                        self._collect_into(cname, carg, st, stack, conds)
                        conts.append(cname)
                        for nm in ast.walk(carg):
                            if isinstance(nm, ast.Name):
                                conts.append(nm.id)
                name = assigned.id if isinstance(assigned, ast.Name) else None
                # the constraints collected so far under these container names belong to this problem, whatever
                # happens to the names afterwards
                pidx = len(self.probs)
                cnames = set(conts)
                grew = True
                while grew:
                    grew = False
                    for cc in self.cons:
                        if cc.rel == "alias" and cc.container in cnames and cc.lhs[1] not in cnames:
                            cnames.add(cc.lhs[1])
                            grew = True
                for cc in self.cons:
                    if cc.container in cnames:
                        cc.consumed_by.append(pidx)
                senses = set()
                for a in alts:
                    if isinstance(a, ast.Call):
                        l3 = self._lib(a)
                        senses.add("max" if l3 == "cvxpy.Maximize" else "min" if l3 == "cvxpy.Minimize" else "?")
                if len(senses) > 1:
                    sense = "mixed"
                self.probs.append(Prob(sense, objt, conts, c, name, objn))
            elif lib in ("picos.Problem",):
                name = assigned.id if isinstance(assigned, ast.Name) else None
                self.probs.append(Prob(None, None, ["<problem:%s>" % name], c, name))
            if isinstance(fn, ast.Attribute) and fn.attr == "set_objective" and isinstance(fn.value, ast.Name):
                for p in self.probs:
                    if p.name == fn.value.id and c.args:
                        s = c.args[0]
                        if isinstance(s, ast.Constant):
                            p.sense = "max" if str(s.value).startswith("max") else "min" if str(s.value).startswith("min") else None
                        if len(c.args) > 1:
                            p.objective = self.N(c.args[1])
                            p.objective_node = c.args[1]
            if isinstance(fn, ast.Attribute) and fn.attr == "solve":
                self.solves.append(c)

    def _link(self):
        pass

    # ---- queries ------------------------------------------------------------------------------
    def reaching(self, prob: Prob | None = None):
        """Constraints that reach a problem (through containers and aliases)."""
        probs = [prob] if prob else self.probs
        names = set()
        for p in probs:
            names.update(p.containers)
        if not prob:
            # a constraint list that is the function's result reaches the caller's problem
            names.update(self.returned)
        changed = True
        while changed:
            changed = False
            for c in self.cons:
                if c.rel == "alias" and c.container in names and c.lhs[1] not in names:
                    names.add(c.lhs[1])
                    changed = True
        if prob is not None:
            pi = self.probs.index(prob)
            return [c for c in self.cons if c.rel != "alias" and (pi in c.consumed_by or c.container in names)], names
        return [c for c in self.cons if c.rel != "alias" and (c.consumed_by or c.container in names)], names

    def dangling(self):
        """Constraint objects constructed but never handed to any problem."""
        reach, names = self.reaching()
        ids = {id(c) for c in reach}
        return [c for c in self.cons if c.rel != "alias" and id(c) not in ids]

    def var_names(self):
        return sorted({v.name for v in self.vars})

    def cons_mentioning(self, name, rel=None, reaching_only=True):
        pool = self.reaching()[0] if reaching_only else [c for c in self.cons if c.rel != "alias"]
        out = []
        for c in pool:
            if rel is not None and c.rel != rel:
                continue
            if self._mentions(c.lhs, name) or self._mentions(c.rhs, name):
                out.append(c)
        return out

    def _mentions(self, t, name, deep=True):
        if mentions_name(t, name):
            return True
        if deep:
            names = {s[1] for s in subterms(t) if isinstance(s, tuple) and len(s) == 2 and s[0] == "n"}
            return name in self.og.of_names(names)
        return False

    def loop_vars_cover(self, con: Con, var: Var):
        """Does the constraint's loop nest range over (at least) the iteration spaces of the variable's declaration?"""
        want = {repr(it) for _, it, _ in var.loops}
        have = {repr(it) for _, it, _ in con.loops}
        return want <= have

    def is_zero(self, t):
        return t == ("c", 0) or (t[0] == "call" and isinstance(t[1], str) and t[1].split(".")[-1] in ("zeros", "zeros_like"))


def psd_ok(sk: Skeleton, group: str, every_index=True):
    """Is every member of variable group `group` PSD-constrained (declared PSD or `>> 0` reaching the problem
    for each index)?  Returns (ok, detail, node)."""
    vs = [v for v in sk.vars if v.name == group]
    if not vs:
        return None, f"variable group `{group}` not found", None
    v = vs[0]
    if v.attrs.get("PSD") == ("c", True) or v.attrs.get("psd") == ("c", True):
        return True, f"`{group}` declared PSD", v.node
    cs = []
    for c in sk.cons_mentioning(group, reaching_only=True):
        if c.rel == ">>" and sk.is_zero(c.rhs) and mentions_name(c.lhs, group) and c.lhs[0] in ("n", "sub"):
            cs.append(c)
        elif c.rel == "<<" and sk.is_zero(c.lhs) and mentions_name(c.rhs, group) and c.rhs[0] in ("n", "sub"):
            cs.append(c)
    if not cs:
        dang = [c for c in sk.dangling() if c.rel in (">>", "<<") and (mentions_name(c.lhs, group) or mentions_name(c.rhs, group))]
        if dang:
            return False, f"`{group} >> 0` is constructed but never reaches the problem", dang[0].node
        return False, f"no `{group} >> 0` constraint reaches the problem and `{group}` is not declared PSD", v.node
    if every_index and v.indexed:
        ok = any(sk.loop_vars_cover(c, v) for c in cs)
        if not ok:
            return False, f"`{group}[...] >> 0` does not range over every index the family is declared for", cs[0].node
    return True, f"`{group}` is PSD-constrained for every index", cs[0].node


def sum_constraints(sk: Skeleton, group: str):
    """Equality constraints of the form  (sum over some loops of group[...]) == other.
    Returns list of dict(con, acc, summed (set of iter reprs), free (set of iter reprs), other (term), reaching)."""
    f = sk.f
    out = []
    reach_ids = {id(c) for c in sk.reaching()[0]}
    # accumulators: name += group[...]
    accs = {}
    def rec(body, stack):
        for st in body:
            if isinstance(st, (ast.For, ast.While)):
                rec(st.body, stack + [st])
            elif isinstance(st, ast.If):
                rec(st.body, stack)
                rec(st.orelse, stack)
            elif isinstance(st, ast.AugAssign) and isinstance(st.target, ast.Name) and isinstance(st.op, ast.Add):
                t = sk.N(st.value)
                if mentions_name(t, group):
                    accs.setdefault(st.target.id, []).append((st, sk._loops_of(stack), t))
    rec(f.node.body, [])
    for c in sk.cons:
        if c.rel not in ("==", "<=", ">=", "<<", ">>"):
            continue
        for side, other in ((c.lhs, c.rhs), (c.rhs, c.lhs)):
            if side[0] == "n" and side[1] in accs:
                st, loops, term = accs[side[1]][0]
                acc_iters = [repr(it) for _, it, _ in loops]
                con_iters = [repr(it) for _, it, _ in c.loops]
                summed = [x for x in acc_iters if x not in con_iters]
                out.append({"con": c, "acc": side[1], "summed": summed, "free": con_iters, "other": other,
                            "reaching": id(c) in reach_ids, "term": term, "rel": c.rel})
            elif side[0] == "call" and side[1] in ("builtins.sum", "cvxpy.sum", "numpy.sum") and mentions_name(side, group):
                con_iters = [repr(it) for _, it, _ in c.loops]
                summed = []
                for s in subterms(side):
                    if isinstance(s, tuple) and s and s[0] == "comp":
                        summed += [repr(g[1]) for g in s[3]]
                out.append({"con": c, "acc": None, "summed": summed, "free": con_iters, "other": other,
                            "reaching": id(c) in reach_ids, "term": side, "rel": c.rel})
    return out


def shape_roles(model, f: FunctionInfo, attr="pred_mat", roles=("A_out", "B_out", "A_in", "B_in")):
    """Names unpacked from self.<attr>.shape -> role by tuple position."""
    out = {}
    for n in walk_no_nested(f.node):
        if isinstance(n, ast.Assign) and isinstance(n.targets[0], ast.Tuple) and isinstance(n.value, ast.Attribute) and n.value.attr == "shape":
            v = n.value.value
            if isinstance(v, ast.Attribute) and v.attr == attr and isinstance(v.value, ast.Name) and v.value.id == "self":
                for pos, e in enumerate(n.targets[0].elts):
                    if isinstance(e, ast.Name) and e.id != "_" and pos < len(roles):
                        out[e.id] = roles[pos]
    return out


def range_role(iter_repr: str, roles: dict):
    """repr of ('call','builtins.range',(('n', name),),()) -> role of name."""
    for name, r in roles.items():
        if iter_repr == repr(("call", "builtins.range", (("n", name),), ())):
            return r
    return None


def r_hermitian_vars(ctx, f, sk: Skeleton, rule="R-DTYPE", allow_real=()):
    """Every square matrix variable of a programme whose data are (possibly complex) quantum states is declared Hermitian
    (picos.HermitianVariable / cvxpy hermitian=True / complex PSD), never real symmetric: a real-symmetric multiplier or
    measurement operator restricts the feasible set for complex data and the optimum moves."""
    n = 0
    for v in sk.vars:
        sh = v.shape
        is_matrix = sh is not None and ((sh[0] == "tuple" and len(sh) == 3) or (sh[0] == "attr" and sh[-1] == "shape"))
        if not is_matrix or v.name in allow_real:
            continue
        n += 1
        herm = v.attrs.get("hermitian") == ("c", True) or v.attrs.get("complex") == ("c", True) or v.ctor.endswith("ComplexVariable")
        # complex= / hermitian= computed at run time from the data (np.iscomplexobj(x)): sound only if the test covers EVERY operand of the
        # programme; a flag computed from one of several array arguments gives a real variable whenever that one happens to be real
        flag = next((v.attrs[k] for k in ("complex", "hermitian") if k in v.attrs and v.attrs[k][0] != "c"), None)
        if not herm and flag is not None:
            from .rules import _array_params
            from .norm import mentions_name as _mn, show as _show
            import ast as _ast
            arrs = [p_ for p_ in _array_params(f)]
            # methods: the object's array attributes (self.pred_mat, self.prob_mat) are operands too; a flag that is a local name is expanded once
            selfattrs = sorted({x.attr for x in _ast.walk(f.node) if isinstance(x, _ast.Attribute) and isinstance(x.value, _ast.Name) and x.value.id == "self" and x.attr.endswith("_mat")})
            ftxt = repr(flag)
            for x in _ast.walk(f.node):
                if isinstance(x, _ast.Assign) and len(x.targets) == 1 and isinstance(x.targets[0], _ast.Name) and _mn(flag, x.targets[0].id):
                    ftxt += " " + _ast.dump(x.value)
            arrs = arrs + [f"self.{a}" for a in selfattrs]
            seen = [p_ for p_ in arrs if (_mn(flag, p_) if not p_.startswith("self.") else (f"'{p_[5:]}'" in ftxt))]
            if len(arrs) >= 2 and len(seen) < len(arrs) and seen:
                ctx.ob(rule, f, f"matrix variable `{v.name}` is Hermitian (complex), not real symmetric", False,
                       f"`{v.name}` is complex only when `{_show(flag)[:60]}` holds: the flag looks at {', '.join(seen)} but not at {', '.join(a for a in arrs if a not in seen)} -- with a real "
                       f"{seen[0]} and a complex {[a for a in arrs if a not in seen][0]} the variable is real, the feasible set shrinks and the value is no longer symmetric in the two arguments", v.node)
                continue
            herm = None
        if not herm and "chosen_by" in v.attrs:
            import re as _re
            # a run-time choice between a complex and a real class is sound only if the test covers the whole data; a test of one
            # element (`vectors[0]`) is a violation, a quantified test (all / any over the data) is left undecided
            single = _re.search(r"\b\w+\[\s*-?\d+\s*\]", v.attrs["chosen_by"][1]) is not None
            herm = False if single else None
        ctx.ob(rule, f, f"matrix variable `{v.name}` is Hermitian (complex), not real symmetric", herm if herm is None else bool(herm),
               f"{v.ctor.split('.')[-1]}{' hermitian=True' if 'cvxpy' in v.ctor else ''}" if herm else
               f"`{v.name}` is declared {v.ctor.split('.')[-1]} {sorted(k for k in v.attrs if k in ('symmetric', 'PSD', 'psd'))}: real symmetric -- for complex states the "
               "feasible set shrinks and primal/dual no longer agree" + (f" ({v.attrs['chosen_by'][1]}: the test looks at part of the data only, so an ensemble "
                                                                      "whose tested part is real and whose rest is complex gets real variables)" if "chosen_by" in v.attrs else ""), v.node)
    return n


def r_full_range_families(ctx, f, sk: Skeleton, rule="R-ENUM"):
    """Indexed variable families (dict / list of cvxpy / picos variables declared in loops) are declared for EVERY index: each
    declaring loop runs over range(n) or range(0, n); a loop that starts at 1 (or carries a filter) leaves members undeclared --
    with a defaultdict(cvxpy.Variable) container the missing members silently become fresh scalar variables."""
    n = 0
    for v in sk.vars:
        if not v.indexed or not v.loops:
            continue
        bad = None
        for lp in v.loops:
            it = lp[1]
            ifs = getattr(lp[2], "ifs", []) if len(lp) > 2 else []
            if it[0] == "call" and it[1] == "builtins.range":
                if len(it[2]) >= 2 and it[2][0] != ("c", 0):
                    bad = (it, "starts at " + show(it[2][0]))
                if len(it[2]) == 3 and it[2][2] != ("c", 1):
                    bad = (it, "has a step")
            if ifs:
                bad = (it, "is filtered")
        n += 1
        ctx.ob(rule, f, f"variable family `{v.name}` is declared for every index", bad is None,
               "declaring loops run over full ranges" if bad is None else
               f"the declaring loop `{show(bad[0])[:50]}` {bad[1]}: some members of `{v.name}` are never declared (a defaultdict container then fabricates unconstrained scalar variables for them)", v.node)
    return n
