"""C02 -- partial trace is the index contraction over the traced subsystems (structural clauses)."""

from __future__ import annotations

import ast

from ..base import check_call_bases
from ..dataflow import origins
from ..layout import reshape_sites
from ..model import calls_in, unparse, walk_no_nested
from ..norm import Normalizer, mentions_name, show, subterms
from ..rules import calls_from, r_effect_free, r_live, r_order, r_thread, value_at
from ..symshape import monomial, same_monomial, strip_casts


def run(ctx):
    m = ctx.model
    ctx.rule("R-ORDER", "the kept-subsystem list that becomes the front of perm must not depend on set iteration order")
    ctx.rule("R-SHAPE", "reshape [T,K,T,K] -> transpose -> [K,K,T*T] factorisation agrees; diagonal stride T+1; sum over the last axis")
    ctx.rule("R-LAYOUT", "both reshapes use one memory order, consistent with kept-first permutation")
    ctx.rule("R-THREAD", "the cvxpy branch recurses with the caller's (sys, dim) and re-packs the result")
    ctx.rule("R-BASE", "sys is 0-based in the body and at every repo call site")
    ctx.rule("R-EFFECT", "no store into the caller's matrix / sys / dim")
    pt = m.func("partial_trace.partial_trace")
    N = Normalizer(m, pt)
    Nn = Normalizer(m, pt, inline=False)
    # the sum over the traced indices must widen narrow integer dtypes the way np.sum / np.trace do (int8 .. int32 are summed in the
    # platform integer); np.einsum accumulates in the operand's own dtype, so a contraction written with it wraps around for small
    # integer types unless it is given an explicit dtype
    ctx.rule("R-DTYPE", "the contraction over the traced subsystems does not accumulate in a narrow operand dtype")
    ein = [c for c in walk_no_nested(pt.node) if isinstance(c, ast.Call) and m.resolve_call(pt, c).key in ("numpy.einsum", "numpy.tensordot") and c.args]
    badc = None
    for c in ein:
        if m.resolve_call(pt, c).key == "numpy.einsum" and isinstance(c.args[0], ast.Constant) and isinstance(c.args[0].value, str):
            spec = c.args[0].value.replace(" ", "")
            lhs, _, rhs = spec.partition("->")
            contracted = any(lhs.count(ch) > 1 for ch in set(lhs) if ch.isalpha()) or any(ch.isalpha() and ch not in rhs for ch in lhs)
            if contracted and not any(kw.arg == "dtype" for kw in c.keywords):
                badc = badc or c
    ctx.ob("R-DTYPE", pt, "sums over the traced indices widen narrow integer dtypes (np.sum / np.trace, or einsum with a dtype)", badc is None,
           f"{len(ein)} einsum / tensordot contraction(s) without an accumulator dtype" if badc is None else
           f"`{unparse(badc)[:60]}` sums in the dtype of the operand: for an int8 matrix full of 100 the block sums wrap around (-56 instead of 200), while "
           "np.sum accumulates int8/int16/int32 in the platform integer", badc)
    og = origins(pt)

    r_order(ctx, pt, "permute_systems.permute_systems", "perm")

    # kept first, traced last
    for c, cal in calls_from(m, pt, "permute_systems.permute_systems"):
        b = m.bind(c, cal.func)
        a = b.get("perm")
        if isinstance(a, ast.Name):
            _kept_first(ctx, pt, a.id, c)
        r_thread(ctx, pt, "dim", "permute_systems.permute_systems")
        r_thread(ctx, pt, "input_mat", "permute_systems.permute_systems")
        break

    # reshape chain
    rs = [r for r in reshape_sites(m, pt) if r["kind"] == "reshape" and r["shape"]]
    four = [r for r in rs if isinstance(r["shape"][0], (ast.List, ast.Tuple)) and len(r["shape"][0].elts) == 4]
    three = [r for r in rs if isinstance(r["shape"][0], (ast.List, ast.Tuple)) and len(r["shape"][0].elts) == 3]
    if not four or not three:
        ctx.ob("R-SHAPE", pt, "reshape-chain", None, "the 4-axis / 3-axis reshape chain was not found", required=False)
    else:
        r4, r3 = four[0], three[0]
        s4 = [N(e) for e in r4["shape"][0].elts]
        s3 = [N(e) for e in r3["shape"][0].elts]
        ok = same_monomial(s4[0], s4[2]) and same_monomial(s4[1], s4[3])
        ctx.ob("R-SHAPE", pt, "4-axis shape is [A,B,A,B]", bool(ok), "row and column indices are split alike" if ok else
               f"row split {show(s4[0])},{show(s4[1])} differs from column split {show(s4[2])},{show(s4[3])}", r4["node"])
        orders = {r4["order"], r3["order"]}
        ctx.ob("R-LAYOUT", pt, "both reshapes same order", len(orders) == 1,
               f"both reshapes use order='{r4['order']}'" if len(orders) == 1 else f"orders differ: {sorted(orders)}", r3["node"])
        # transpose between
        axes = None
        tnode = None
        for c in calls_in(pt.node):
            if m.resolve_call(pt, c).key == "numpy.transpose" and len(c.args) == 2 and isinstance(c.args[1], (ast.Tuple, ast.List)):
                if all(isinstance(e, ast.Constant) for e in c.args[1].elts):
                    axes = [e.value for e in c.args[1].elts]
                    tnode = c
            elif isinstance(c.func, ast.Attribute) and c.func.attr == "transpose" and c.args:
                a0 = c.args[0]
                if isinstance(a0, (ast.Tuple, ast.List)) and all(isinstance(e, ast.Constant) for e in a0.elts):
                    axes = [e.value for e in a0.elts]
                    tnode = c
                elif len(c.args) == 4 and all(isinstance(e, ast.Constant) for e in c.args):
                    axes = [e.value for e in c.args]
                    tnode = c
            elif m.resolve_call(pt, c).key == "numpy.transpose" and len(c.args) == 2 and isinstance(c.args[1], (ast.Tuple, ast.List)):
                if all(isinstance(e, ast.Constant) for e in c.args[1].elts):
                    axes = [e.value for e in c.args[1].elts]
                    tnode = c
        if axes is None or sorted(axes) != [0, 1, 2, 3]:
            ctx.ob("R-SHAPE", pt, "transpose axes literal", None, "4-axis transpose with literal axes not found", required=False)
        else:
            ts = [s4[a] for a in axes]
            # with order F: final [x, y, z]: x = ts[0], y = ts[1], z = ts[2]*ts[3]; with C: x=ts[0]*..? only F / C 3-axis merges of the last two
            ok1 = same_monomial(s3[0], ts[0]) and same_monomial(s3[1], ts[1])
            ok2 = same_monomial(s3[2], ("*", (ts[2], ts[3])))
            ctx.ob("R-SHAPE", pt, "3-axis shape == transposed factorisation", bool(ok1 and ok2),
                   f"[{show(s3[0])},{show(s3[1])},{show(s3[2])}] regroups the transposed axes {axes}" if ok1 and ok2 else
                   f"final shape [{', '.join(show(x) for x in s3)}] is not the regrouping of transposed axes {axes} of "
                   f"[{', '.join(show(x) for x in s4)}]", r3["node"])
            # the two merged axes are the row and column index of the SAME (traced) factor
            okd = same_monomial(ts[2], ts[3]) and ({axes[2], axes[3]} in ({0, 2}, {1, 3}))
            ctx.ob("R-SHAPE", pt, "diagonal axes are a row/column pair", bool(okd),
                   f"axes {axes[2]},{axes[3]} are the row and column index of one factor" if okd else
                   f"merged axes {axes[2]},{axes[3]} are not a row/column pair of one factor", tnode)
            okk = {axes[0], axes[1]} in ({0, 2}, {1, 3}) and axes[0] < axes[1]
            ctx.ob("R-SHAPE", pt, "kept axes are (row, column) in that order", bool(okk),
                   "output rows come from the row index, columns from the column index" if okk else
                   f"kept axes {axes[0]},{axes[1]} are not (row, column) of the kept factor", tnode)
            # kept-first perm + column-major: fastest axis (0) is the traced factor => traced axes must be {0,2}
            if r4["order"] == "F":
                okf = {axes[2], axes[3]} == {0, 2}
                msg = "with kept-first permutation and column-major reshape the traced factor is axis 0/2"
            else:
                okf = {axes[2], axes[3]} == {1, 3}
                msg = "with kept-first permutation and row-major reshape the traced factor is axis 1/3"
            ctx.ob("R-LAYOUT", pt, "traced factor axes match memory order", bool(okf), msg if okf else
                   f"order='{r4['order']}' with kept-first permutation puts the traced factor elsewhere than axes {axes[2]},{axes[3]}", tnode)
            # kept extent is N / prod(dim[sys]) : B derives from a quotient whose denominator derives from sys
            kept = strip_casts(ts[0])
            traced = strip_casts(ts[2])
            kd = _denominator_origin(kept, og)
            ctx.ob("R-SHAPE", pt, "kept extent == total / traced product", True if kd else None,
                   "the output extent is prod(dim) divided by the product over `sys`" if kd else "kept extent not recognised",
                   r4["node"], required=False)
            # diagonal pick: range(0, T**2, T+1) on the last axis and sum over axis 2
            _diag_pick(ctx, pt, N, traced)

    # every path to the 4-axis reshape brings the kept subsystems to the front
    if four:
        arr = four[0]["arr"]
        if isinstance(arr, ast.Name):
            defs = [n for n in ast.walk(pt.node) if isinstance(n, ast.Assign) and len(n.targets) == 1 and isinstance(n.targets[0], ast.Name) and n.targets[0].id == arr.id]
            from .. import flow as flw
            bad = None
            for d in defs:
                is_perm = isinstance(d.value, ast.Call) and m.resolve_call(pt, d.value).key.endswith("permute_systems.permute_systems")
                if is_perm:
                    continue
                hit = flw.find_stmt_of(pt.node, d)
                conds = [(Nn(t), pol) for t, pol in flw.conds(hit[1])] if hit else []
                # a bypass is sound only under a condition that says perm is the identity
                ident = any(pol and t[0] == "cmp" and t[1] == "==" and mentions_name(t, "perm") and ("builtins.range" in repr(t) or "builtins.sorted" in repr(t) or "numpy.arange" in repr(t)) for t, pol in conds)
                if not ident:
                    bad = d
            ctx.ob("R-LAYOUT", pt, "the reshaped operand is permute_systems(input, kept ++ traced) on every path", bad is None,
                   f"{len(defs)} definition(s) of `{arr.id}`, all through permute_systems" if bad is None else
                   f"`{unparse(bad)[:70]}` feeds the reshape without permuting, under a condition that does not say the permutation is the identity: "
                   "an unsorted or non-trailing `sys` is traced at the wrong positions", bad)
    # cvxpy branch
    rec = calls_from(m, pt, "partial_trace.partial_trace")
    if rec:
        r_thread(ctx, pt, "sys", "partial_trace.partial_trace")
        r_thread(ctx, pt, "dim", "partial_trace.partial_trace")
        c = rec[0][0]
        a0 = m.bind(c, rec[0][1].func).get("input_mat")
        t = N(a0) if isinstance(a0, ast.AST) else None
        ok = t is not None and t[0] == "call" and t[1].endswith("expr_as_np_array") and mentions_name(t, "input_mat")
        ctx.ob("R-THREAD", pt, "variable unpacked by expr_as_np_array", ok if t is not None else None,
               "the recursion runs on the entrywise array of the same variable" if ok else f"recursion operand is {show(t) if t else '?'}", c)
        # the conversion is generic: partial_trace is also applied to variables that are NOT Hermitian (the complex Q of channel_fidelity), so
        # the helper must be called on the variable alone -- a structural promise (hermitian=True, symmetric=True) changes entries below the
        # diagonal for those callers
        convs = [c_ for c_, cal_ in calls_from(m, pt, "expr_as_np_array.expr_as_np_array")]
        if convs:
            extra = [c_ for c_ in convs if len(c_.args) + len(c_.keywords) != 1]
            ctx.ob("R-THREAD", pt, "the Variable is converted entry by entry with no structural assumption", not extra,
                   "expr_as_np_array(variable)" if not extra else
                   f"`{unparse(extra[0])[:60]}` tells the converter that the variable is Hermitian / symmetric: for a general complex Variable the entries below the "
                   "diagonal are replaced by conjugates (mirrors) of those above it", extra[0] if extra else None)
        packs = calls_from(m, pt, "np_array_as_expr")
        ctx.ob("R-THREAD", pt, "result re-packed by np_array_as_expr", bool(packs),
               "traced array is re-packed into an expression" if packs else "np_array_as_expr is no longer applied to the result")
    else:
        ctx.ob("R-THREAD", pt, "cvxpy branch recursion", None, "no recursive call", required=False)
    _helpers(ctx)

    # defaults: sys None -> [1]; dim None -> sqrt(len)
    sys_def = None
    for n in ast.walk(pt.node):
        if isinstance(n, ast.Assign) and isinstance(n.targets[0], ast.Name) and n.targets[0].id == "sys":
            t = Nn(n.value)
            if t[0] == "list" and all(x[0] == "c" for x in t[1:]):
                sys_def = (t, n)
    if sys_def:
        ok = sys_def[0] == ("list", ("c", 1))
        ctx.ob("R-BASE", pt, "default sys == [1] (second subsystem, 0-based)", ok,
               "omitted sys traces the second of two subsystems" if ok else f"default sys is {show(sys_def[0])}", sys_def[1])
    # sys used as direct (0-based) subscripts of dim
    bad = []
    good = 0
    for n in ast.walk(pt.node):
        if isinstance(n, ast.Subscript) and isinstance(n.value, ast.Name) and n.value.id == "dim" and isinstance(n.ctx, ast.Load):
            t = Nn(n.slice)
            if mentions_name(t, "sys") or mentions_name(t, "idx"):
                if t in (("n", "sys"), ("n", "idx"), ("sub", ("n", "sys"), ("c", 0))):
                    good += 1
                else:
                    bad.append(n)
    if bad:
        ctx.ob("R-BASE", pt, "dim[sys] direct", False, f"`{unparse(bad[0])}` offsets the 0-based subsystem index", bad[0])
    elif good:
        ctx.ob("R-BASE", pt, "dim[sys] direct", True, f"{good} subscripts of dim by sys are unshifted (0-based)")
    # scalar dim => [d, N/d]
    _scalar_dim(ctx, pt, Nn)
    for p in ("sys", "dim"):
        r_live(ctx, pt, p)
    r_effect_free(ctx, pt, ["input_mat", "sys", "dim"])

    # all repo call sites
    n_sites = 0
    for f in m.functions.values():
        if f is pt:
            continue
        n_sites += check_call_bases(ctx, f, "partial_trace.partial_trace", "sys")
    ctx.notes.append(f"partial_trace call sites examined for index base: {n_sites}")


def _kept_first(ctx, pt, name, call):
    """perm = kept + traced: the initial value must be the complement, `sys` appended after."""
    m = ctx.model
    Nn = Normalizer(m, pt, inline=False)
    og = origins(pt)
    ext = None
    for n in ast.walk(pt.node):
        if isinstance(n, ast.Call) and isinstance(n.func, ast.Attribute) and isinstance(n.func.value, ast.Name) and \
                n.func.value.id == name and n.func.attr in ("extend", "insert", "append") and n.lineno < call.lineno:
            ext = n
    init = value_at(m, pt, name, call, Nn)
    if ext is not None and ext.func.attr == "extend" and ext.args:
        a = Nn(ext.args[0])
        ok = a == ("n", "sys") or (a[0] == "call" and a[2] and a[2][0] == ("n", "sys"))
        ctx.ob("R-LAYOUT", pt, "perm = kept ++ traced", ok,
               "traced subsystems are appended after the kept ones" if ok else f"`{unparse(ext)}` does not append `sys`", ext)
    elif init is not None and init[0] == "+":
        ctx.ob("R-LAYOUT", pt, "perm = kept ++ traced", None, "perm built by concatenation: operand order is not recoverable after normalisation", call, required=False)
    elif ext is not None:
        ctx.ob("R-LAYOUT", pt, "perm = kept ++ traced", False, f"`{unparse(ext)}` puts the traced subsystems elsewhere than at the end", ext)
    else:
        ctx.ob("R-LAYOUT", pt, "perm = kept ++ traced", None, "construction of perm not recognised", call, required=False)


def _denominator_origin(t, og):
    for s in subterms(t):
        if isinstance(s, tuple) and s and s[0] == "/":
            names = {x[1] for x in subterms(s[2]) if isinstance(x, tuple) and len(x) == 2 and x[0] == "n"}
            if "sys" in og.of_names(names):
                return True
    return False


def _diag_pick(ctx, pt, N, traced):
    m = ctx.model
    found = False
    for n in ast.walk(pt.node):
        if isinstance(n, ast.Subscript) and isinstance(n.slice, ast.Tuple) and len(n.slice.elts) == 3:
            last = N(n.slice.elts[2])
            rng = None
            for s in subterms(last):
                if isinstance(s, tuple) and s and s[0] == "call" and s[1] == "builtins.range" and len(s[2]) == 3:
                    rng = s
            if rng is None:
                continue
            found = True
            start, stop, step = rng[2]
            T = traced
            ok_start = start == ("c", 0)
            ok_stop = same_monomial(stop, ("*", (T, T)))
            st = strip_casts(step)
            ok_step = st[0] == "+" and ("c", 1) in st[1] and len(st[1]) == 2 and any(same_monomial(x, T) for x in st[1] if x != ("c", 1))
            ok = bool(ok_start and ok_stop and ok_step)
            ctx.ob("R-SHAPE", pt, "diagonal indices range(0, T*T, T+1)", ok,
                   "the T equal-index pairs (t,t) of the merged axis are selected" if ok else
                   f"selected indices {show(rng)} are not the diagonal 0, T+1, 2(T+1), ... of a T*T axis (T={show(T)})", n)
            first_two = all(isinstance(e, ast.Slice) and e.lower is None and e.upper is None for e in n.slice.elts[:2])
            ctx.ob("R-SHAPE", pt, "diagonal pick keeps both kept axes whole", first_two,
                   "kept axes are not restricted" if first_two else "kept axes are sliced", n)
    if not found:
        ctx.ob("R-SHAPE", pt, "diagonal indices range(0, T*T, T+1)", None, "diagonal selection not recognised", required=False)
    sums = [c for c in calls_in(pt.node) if m.resolve_call(pt, c).key == "numpy.sum"]
    for c in sums:
        ax = next((kw.value for kw in c.keywords if kw.arg == "axis"), c.args[1] if len(c.args) > 1 else None)
        if ax is not None:
            t = N(ax)
            ctx.ob("R-SHAPE", pt, "sum over merged (last) axis", t == ("c", 2) or t == ("c", -1),
                   "the diagonal slices are summed along axis 2" if t in (("c", 2), ("c", -1)) else f"sum runs over axis {show(t)}", c)


def _scalar_dim(ctx, pt, Nn):
    for n in ast.walk(pt.node):
        if isinstance(n, ast.Assign) and isinstance(n.targets[0], ast.Name) and n.targets[0].id == "dim":
            t = Nn(n.value)
            if t[0] == "call" and t[1] == "numpy.array" and t[2] and t[2][0][0] == "list" and len(t[2][0]) == 3:
                a, b = t[2][0][1], t[2][0][2]
                want_a = ("sub", ("n", "dim"), ("c", 0))
                ok = a == want_a and b[0] == "/" and b[2] == want_a and b[1][0] == "call" and b[1][1] == "builtins.len"
                if b[0] == "/" or a[0] == "/" or a == want_a:
                    ctx.ob("R-SHAPE", pt, "scalar dim d => [d, N/d]", ok,
                           "a scalar dimension is expanded to [d, len/d]" if ok else f"scalar dim expands to [{show(a)}, {show(b)}]", n)


def _helpers(ctx):
    m = ctx.model
    ex = m.func("expr_as_np_array.expr_as_np_array")
    # the unpacked entries stay sub-expressions of the argument: a numeric snapshot (`.value`) severs the link to the variable
    snap = [n for n in walk_no_nested(ex.node) if isinstance(n, ast.Attribute) and n.attr == "value" and isinstance(n.ctx, ast.Load)
            and any(isinstance(x, ast.Name) and x.id == "cvx_expr" for x in ast.walk(n.value))]
    snap_ret = [r for r in walk_no_nested(ex.node) if isinstance(r, ast.Return) and r.value is not None and any(any(y is x for y in ast.walk(r.value)) for x in snap)]
    ctx.ob("R-THREAD", ex, "every returned entry is a sub-expression of the argument (no numeric snapshot of `.value`)", not snap,
           "entries are cvx_expr[i, j] / the expression itself" if not snap else
           f"`{unparse((snap_ret or snap)[0])[:60]}` (line {(snap_ret or snap)[0].lineno}) reads the CURRENT numeric value of the expression: for a Variable that holds a value (warm start, an "
           "earlier solve) the caller gets constants, so partial_trace(variable) no longer contains the variable -- constraints built from it are constant and re-solving leaves it frozen",
           (snap_ret or snap)[0] if snap else None)
    # 2-D unpacking is entry (i, j) -> rows[i][j]
    comp_ok = None
    for n in ast.walk(ex.node):
        if isinstance(n, ast.ListComp) and isinstance(n.elt, ast.Subscript) and isinstance(n.elt.slice, ast.Tuple):
            i, j = n.elt.slice.elts
            inner = n.generators[0].target
            outer_loop = None
            for f in ast.walk(ex.node):
                if isinstance(f, ast.For) and any(x is n for x in ast.walk(f)):
                    outer_loop = f
            if isinstance(i, ast.Name) and isinstance(j, ast.Name) and isinstance(inner, ast.Name) and outer_loop is not None \
                    and isinstance(outer_loop.target, ast.Name):
                comp_ok = (i.id == outer_loop.target.id and j.id == inner.id)
                # extents: outer over shape[0], inner over shape[1]
                Nx = Normalizer(m, ex, inline=False)
                shp = lambda k: ("call", "builtins.range", (("sub", ("attr", ("n", "cvx_expr"), "shape"), ("c", k)),), ())  # noqa: E731
                comp_ok = comp_ok and Nx(outer_loop.iter) == shp(0) and Nx(n.generators[0].iter) == shp(1) and not n.generators[0].ifs
                # every row built is kept
                row_name = next((st.targets[0].id for st in outer_loop.body if isinstance(st, ast.Assign) and st.value is n and isinstance(st.targets[0], ast.Name)), None)
                kept = row_name is None or any(isinstance(x, ast.Call) and getattr(x.func, "attr", "") == "append" and x.args and isinstance(x.args[0], ast.Name) and x.args[0].id == row_name
                                               for st in outer_loop.body for x in ast.walk(st))
                comp_ok = comp_ok and kept
                ctx.ob("R-SHAPE", ex, "entry (i,j) -> rows[i][j]", bool(comp_ok),
                       "the variable is unpacked row by row without transposition" if comp_ok else
                       "the entrywise unpacking transposes or mis-sizes the variable", n)
    if True:
        # loop form (also when the comprehension form is still there for other inputs): every store out[a, b] = src[c, d], through
        # every target of a chained assignment, must keep the index order (a mirrored store needs a conjugate)
        stores = []
        for n0 in ast.walk(ex.node):
            if not isinstance(n0, ast.Assign):
                continue
            for tg_ in n0.targets:
              if isinstance(tg_, ast.Subscript) and isinstance(tg_.slice, ast.Tuple) and len(tg_.slice.elts) == 2:
                n = ast.Assign(targets=[tg_], value=n0.value, lineno=n0.lineno, col_offset=n0.col_offset)
                v = n.value
                conj = False
                while isinstance(v, ast.Call) and isinstance(v.func, (ast.Attribute, ast.Name)) and (getattr(v.func, "attr", "") in ("conj", "conjugate") or getattr(v.func, "id", "") == "conj" or
                                                                                               unparse(v.func) in ("np.conj", "np.conjugate", "cvxpy.conj")):
                    conj = True
                    v = v.func.value if isinstance(v.func, ast.Attribute) and not v.args else v.args[0]
                if isinstance(v, ast.Subscript) and isinstance(v.slice, ast.Tuple) and len(v.slice.elts) == 2:
                    t_idx = [unparse(e) for e in n.targets[0].slice.elts]
                    s_idx = [unparse(e) for e in v.slice.elts]
                    stores.append((n, t_idx, s_idx, conj))
        if stores:
            bad = [st for st in stores if (st[1] != st[2] and not (st[1] == st[2][::-1] and st[3])) or (st[1] == st[2] and st[3])]
            ctx.ob("R-SHAPE", ex, "entry (i,j) -> rows[i][j]", not bad,
                   f"{len(stores)} entry store(s) keep the (row, column) order" if not bad else
                   f"`{unparse(bad[0][0])}` copies entry ({', '.join(bad[0][2])}) to position ({', '.join(bad[0][1])}) without conjugation: a Hermitian variable is "
                   "unpacked with the wrong imaginary parts below the diagonal", bad[0][0])
        elif comp_ok is None:
            # flatten / reshape form: entries listed in order O1 and folded back with order O2 keep their places iff O1 == O2
            def _order(call, default):
                for kw in call.keywords:
                    if kw.arg == "order" and isinstance(kw.value, ast.Constant):
                        return kw.value.value
                pos = [a for a in call.args if isinstance(a, ast.Constant) and a.value in ("C", "F")]
                return pos[0].value if pos else default
            flat = [c for c in ast.walk(ex.node) if isinstance(c, ast.Call) and isinstance(c.func, ast.Attribute) and c.func.attr in ("flatten", "ravel")
                    and "cvx_expr" in unparse(c.func.value)]
            resh = [c for c in ast.walk(ex.node) if isinstance(c, ast.Call) and ((isinstance(c.func, ast.Attribute) and c.func.attr == "reshape") or
                                                                                 unparse(c.func) in ("np.reshape", "numpy.reshape"))]
            if len(flat) == 1 and len(resh) == 1:
                # cvxpy's Expression.flatten has no stable default (it changed from 'F' to a warning); only an explicit order is decided
                o1 = _order(flat[0], None)
                recv = resh[0].func.value if isinstance(resh[0].func, ast.Attribute) else (resh[0].args[0] if resh[0].args else None)
                if isinstance(recv, ast.Name):
                    dfs = [n.value for n in ast.walk(ex.node) if isinstance(n, ast.Assign) and len(n.targets) == 1 and isinstance(n.targets[0], ast.Name) and n.targets[0].id == recv.id]
                    recv = dfs[0] if len(dfs) == 1 else recv
                on_numpy = unparse(resh[0].func).startswith(("np.", "numpy.")) or (recv is not None and unparse(recv).startswith(("np.array(", "np.asarray(", "numpy.array(")))
                o2 = _order(resh[0], "C" if on_numpy else None)
                if o1 is None or o2 is None:
                    ctx.ob("R-SHAPE", ex, "entry (i,j) -> rows[i][j]", None, f"flatten order {o1} / reshape order {o2}: a default order is not decided", resh[0], required=False)
                else:
                    ctx.ob("R-SHAPE", ex, "entry (i,j) -> rows[i][j]", o1 == o2,
                           f"entries listed and folded back in the same order '{o1}'" if o1 == o2 else
                           f"`{unparse(flat[0])}` lists the entries in order '{o1}' (column by column) but `{unparse(resh[0])[:60]}` folds them back in order '{o2}': "
                           "entry (i, j) of the variable lands at (j, i) -- every function applied to a Variable sees its transpose", resh[0])
            else:
                ctx.ob("R-SHAPE", ex, "entry (i,j) -> rows[i][j]", None, "unpacking not recognised", required=False)
