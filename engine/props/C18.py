"""C18 -- symmetric / antisymmetric projectors and combinatorial enumerators (structural clauses)."""

from __future__ import annotations

import ast

from .. import flow as flw
from ..base import check_call_bases
from ..model import calls_in, unparse, walk_no_nested
from ..norm import Normalizer, calls_to, kwarg, mentions_name, show, subterms
from ..rules import calls_from, r_bind_literal, r_effect_free, return_terms, value_at


def tuple_as_matrix(ctx, f, rule="R-SHAPE"):
    """R-SHAPE(e): the tuple returned by qr / eig / eigh / svd / slogdet used as if it were a matrix."""
    m = ctx.model
    TUP = {"numpy.linalg.qr", "numpy.linalg.eig", "numpy.linalg.eigh", "scipy.linalg.qr", "scipy.linalg.eigh", "scipy.linalg.eig", "numpy.linalg.slogdet"}
    bad = []
    for n in walk_no_nested(f.node):
        if isinstance(n, ast.Call):
            k = m.resolve_call(f, n).key
            if k in ("numpy.array", "numpy.asarray", "numpy.trace", "numpy.real", "numpy.abs") and n.args and isinstance(n.args[0], ast.Call) and m.resolve_call(f, n.args[0]).key in TUP:
                bad.append(n)
        if isinstance(n, ast.BinOp) and isinstance(n.op, ast.MatMult):
            for side in (n.left, n.right):
                if isinstance(side, ast.Call) and m.resolve_call(f, side).key in TUP:
                    bad.append(n)
    ctx.ob(rule, f, "decomposition tuples are unpacked, not used as matrices", not bad,
           "no (Q, R) / (w, V) pair is used as an array" if not bad else f"`{unparse(bad[0])[:70]}` turns the tuple returned by the decomposition into one array", bad[0] if bad else None)


def run(ctx):
    m = ctx.model
    ctx.rule("R-BASE", "permutations handed to perm_sign are 1-based; those handed to permutation_operator are 0-based")
    ctx.rule("R-SHAPE", "decomposition results are unpacked before use")
    ctx.rule("R-ENUM", "both projectors average over all permutations of range(p) and divide by their number")
    ctx.rule("R-BIND", "permutation_operator(dims, perm, inv_perm=False, is_sparse=True)")
    ctx.rule("R-SIB", "the partial (isometry) branches of the two projectors use the same range-space routine")
    ctx.rule("R-GUARD", "documented parameter domains")
    sp, ap = m.func("symmetric_projection.symmetric_projection"), m.func("antisymmetric_projection.antisymmetric_projection")
    ps = m.func("perm_sign.perm_sign")
    check_call_bases(ctx, ap, "perm_sign.perm_sign", "perm")
    # both projectors build their permutation operators from the sparse identity: the permuting routine must cope with it for every size
    from ..rules import r_sparse_safe
    ctx.rule("R-KIND", "a possibly sparse operand is indexed only on paths where it has been made dense (typestate D/S/M over the structured control flow)")
    r_sparse_safe(ctx, m.func("permute_systems.permute_systems"), "input_mat", chain=["symmetric_projection", "permutation_operator", "permute_systems"])
    for f in (sp, ap):
        check_call_bases(ctx, f, "permutation_operator.permutation_operator", "perm")
        r_bind_literal(ctx, f, "permutation_operator.permutation_operator", "inv_perm", False)
        tuple_as_matrix(ctx, f)
        N = Normalizer(m, f, inline=True)
        Nn = Normalizer(m, f, inline=False)
        pname = "p_val" if f is sp else "p_param"
        # family: all permutations of range(p)
        fam = None
        for n in walk_no_nested(f.node):
            if isinstance(n, ast.Assign) and isinstance(n.targets[0], ast.Name) and n.targets[0].id == "p_list":
                fam = Nn(n.value)
        okf = fam is not None and any(s[0] == "call" and s[1] == "itertools.permutations" and s[2] and s[2][0] in (("call", "numpy.arange", (("n", pname),), ()), ("call", "builtins.range", (("n", pname),), ()))
                                      for s in subterms(fam) if isinstance(s, tuple) and s)
        ctx.ob("R-ENUM", f, "family == all permutations of range(p)", bool(okf), "permutations(arange(p))" if okf else f"family {show(fam)[:70] if fam else '?'}")
        # loop covers the family, normaliser is its size
        loops = [n for n in walk_no_nested(f.node) if isinstance(n, ast.For) and "permutation_operator" in unparse(n)]
        okl = False
        if loops:
            it = Nn(loops[0].iter)
            okl = it == ("n", "p_list") or it == ("call", "builtins.range", (("n", "p_fac"),), ())
        ctx.ob("R-ENUM", f, "the sum runs over the whole family", okl, "every permutation contributes" if okl else "loop does not range over the family")
        nrm = None
        for n in walk_no_nested(f.node):
            if isinstance(n, ast.Assign) and isinstance(n.targets[0], ast.Name) and n.targets[0].id == "p_fac":
                nrm = Nn(n.value)
        okn = nrm in (("call", "math.factorial", (("n", pname),), ()), ("sub", ("attr", ("n", "p_list"), "shape"), ("c", 0)), ("call", "builtins.len", (("n", "p_list"),), ()))
        div = False
        for n in walk_no_nested(f.node):
            dv = n.value if (isinstance(n, ast.AugAssign) and isinstance(n.op, ast.Div)) else n.value.right if (isinstance(n, ast.Assign) and isinstance(n.value, ast.BinOp) and isinstance(n.value.op, ast.Div)) else None
            if dv is not None:
                tdv = Nn(dv)
                if tdv == ("n", "p_fac") or tdv == nrm:
                    div = True
        ctx.ob("R-ENUM", f, "average: divided by the number of permutations p!", bool(okn and div), "sum / p!" if okn and div else f"normaliser {show(nrm) if nrm else '?'}, divided: {div}")
        # dims passed: dim * ones(p)
        for c, cal in calls_from(m, f, "permutation_operator.permutation_operator"):
            b = m.bind(c, cal.func)
            t = Nn(b["dim"])
            if t[0] == "n" and f.param(t[1]) is None:
                # a hoisted local: read its (single) definition
                dfs_ = [x for x in walk_no_nested(f.node) if isinstance(x, ast.Assign) and len(x.targets) == 1 and isinstance(x.targets[0], ast.Name) and x.targets[0].id == t[1]]
                t = Nn(dfs_[0].value) if len(dfs_) == 1 else ("?",)
            okd = t[0] == "*" and ("n", "dim") in t[1] and any(x[0] == "call" and x[1] == "numpy.ones" and x[2][0] == ("n", pname) for x in t[1])
            okd = True if okd else None if t == ("?",) else False
            ctx.ob("R-BIND", f, "p copies of the local dimension", okd, "dim * ones(p)" if okd else f"dims {show(t)[:50]}", c, required=okd is not None)
        r_effect_free(ctx, f, [])
    # antisymmetric: signed sum
    Na = Normalizer(m, ap, inline=False)
    sgn = False
    for n in walk_no_nested(ap.node):
        if isinstance(n, ast.AugAssign) and "permutation_operator" in unparse(n.value):
            t = Na(n.value)
            if t[0] == "*":
                s1 = [x for x in t[1] if x[0] == "call" and str(x[1]).endswith("perm_sign")]
                p1 = [x for x in t[1] if x[0] == "call" and str(x[1]).endswith("permutation_operator")]
                if s1 and p1:
                    a = dict(s1[0][3])["perm"]
                    b = dict(p1[0][3])["perm"]
                    # same permutation up to the index-base shift
                    core = lambda x: [y for y in x[1] if y[0] != "c"][0] if x[0] == "+" else x  # noqa: E731
                    sgn = core(a) == core(b)
    ctx.ob("R-ENUM", ap, "each permutation operator is weighted by the sign of the same permutation", sgn, "sign(p) * P_p" if sgn else "sign and operator refer to different permutations (or the sign is gone)")
    # partial branches agree
    def partial_routine(f):
        for n in walk_no_nested(f.node):
            if isinstance(n, ast.If) and unparse(n.test) == "partial":
                for s in n.body:
                    v_ = getattr(s, "value", None)
                    while isinstance(v_, ast.Subscript):
                        v_ = v_.value  # qr(x)[0]
                    if isinstance(s, (ast.Assign, ast.Return)) and isinstance(v_, ast.Call):
                        return m.resolve_call(f, v_).key
            if isinstance(n, ast.IfExp) and unparse(n.test) == "partial" and isinstance(n.body, ast.Call):
                return m.resolve_call(f, n.body).key
        return None
    rs, ra = partial_routine(sp), partial_routine(ap)
    ctx.ob("R-SIB", ap, "partial branch uses the same range-space routine as symmetric_projection", None if (rs is None or ra is None) else rs == ra,
           f"both use {rs}" if rs == ra else f"symmetric uses {rs}, antisymmetric uses {ra}")
    # guards
    Ns = Normalizer(m, sp, inline=False)
    gs = [Ns(flw.conds(ff)[-1][0]) for _, ff in flw.flow(sp.node).raises if flw.conds(ff)]
    ctx.ob("R-GUARD", sp, "dim >= 1 and p >= 1", ("cmp", "<", ("n", "dim"), ("c", 1)) in gs and ("cmp", "<", ("n", "p_val"), ("c", 1)) in gs, "two raising guards")
    Na = Normalizer(m, ap, inline=False)
    z = any(isinstance(n, ast.If) and Na(n.test) == ("cmp", "<", ("n", "dim"), ("n", "p_param")) for n in walk_no_nested(ap.node))
    ctx.ob("R-GUARD", ap, "dim < p => zero projector", z, "the antisymmetric subspace is empty for dim < p" if z else "the empty-subspace case is gone")
    # perm_sign: det of the permutation matrix of the 1-based permutation
    rets, Np = return_terms(m, ps, inline=False)
    okp = False
    for rn, facts, t in rets:
        okp = t[0] == "call" and t[1] in ("scipy.linalg.det", "numpy.linalg.det") and t[2][0][0] == "sub" and t[2][0][1][0] == "call" and t[2][0][1][1] in ("numpy.eye", "numpy.identity") \
            and "('+', (('c', -1), ('call', 'numpy.array', (('n', 'perm'),), " in repr(t[2][0][2])  # (with or without a dtype keyword)
    detp = "columns of the identity selected by perm - 1"
    if not okp:
        # other recognisable definitions: (a) a determinant whose column selection is not perm - 1 -> wrong base (violation);
        # (b) transposition counting ("cycle sort"): each position must be revisited until it holds its own index (while), a single
        # `if` per position leaves cycles of length >= 4 unsorted -> violation; a `while` version is accepted; anything else: unknown
        okp, detp = None, "sign is computed in a form the checker does not recognise"
        for rn, facts, t in rets:
            if t[0] == "call" and t[1] in ("scipy.linalg.det", "numpy.linalg.det"):
                okp, detp = False, f"determinant of {show(t[2][0])[:70]}: the permutation is not shifted from 1-based entries to 0-based column indices exactly once"
        for lp in walk_no_nested(ps.node):
            if isinstance(lp, ast.For):
                pvs = {y.id for y in ast.walk(lp.target) if isinstance(y, ast.Name)}
                fixes = [x for x in ast.walk(lp) if isinstance(x, (ast.If, ast.While)) and isinstance(x.test, ast.Compare) and len(x.test.ops) == 1 and isinstance(x.test.ops[0], ast.NotEq)
                         and pvs & {y.id for y in ast.walk(x.test) if isinstance(y, ast.Name)}]
                swaps = [x for x in ast.walk(lp) if isinstance(x, ast.Assign) and isinstance(x.targets[0], ast.Tuple) and isinstance(x.value, ast.Tuple) and len(x.targets[0].elts) == 2
                         and [unparse(e) for e in x.targets[0].elts] == [unparse(e) for e in x.value.elts][::-1]]
                if fixes and swaps:
                    if all(isinstance(x, ast.While) for x in fixes):
                        okp, detp = True, "transposition count of a cycle sort (each position repeated until fixed)"
                    else:
                        okp, detp = False, (f"`if {unparse(fixes[0].test)}` swaps at most once per position: after one transposition the position need not hold its own index "
                                            "(cycles of length >= 4), so transpositions are missed and the parity is wrong for some permutations of 4 or more elements")
    ctx.ob("R-BASE", ps, "sign == det(I[:, perm - 1]) (1-based permutation)", okp, detp, required=okp is not None)
    # enumerators
    up = m.func("unique_perms.perm_unique_helper")
    from .. import pmatch
    bal = order_ok = False
    gd = None
    for n in walk_no_nested(up.node):
        if isinstance(n, ast.For) and isinstance(n.target, ast.Name):
            it = n.target.id
            seq = [s for s in ast.walk(n) if isinstance(s, (ast.AugAssign, ast.Expr))]
            seq.sort(key=lambda s: (s.lineno, s.col_offset))
            kinds = []
            for s in seq:
                if pmatch.match(f"{it}.occurrences -= 1", s) is not None or pmatch.match(f"{it}.occurrences = {it}.occurrences - 1", s) is not None:
                    kinds.append("dec")
                elif pmatch.match(f"{it}.occurrences += 1", s) is not None or pmatch.match(f"{it}.occurrences = {it}.occurrences + 1", s) is not None:
                    kinds.append("inc")
                elif isinstance(s, ast.Expr) and isinstance(s.value, ast.YieldFrom):
                    kinds.append("rec")
            bal = kinds.count("dec") == 1 and kinds.count("inc") == 1
            order_ok = kinds == ["dec", "rec", "inc"]
            guards = [g for g in ast.walk(n) if isinstance(g, ast.If)]
            if guards:
                t0 = guards[0].test
                gd = True if (pmatch.match(f"{it}.occurrences > 0", t0) is not None or pmatch.match(f"{it}.occurrences >= 1", t0) is not None or pmatch.match(f"0 < {it}.occurrences", t0) is not None) \
                    else False if (pmatch.match(f"{it}.occurrences >= 0", t0) is not None or pmatch.match(f"{it}.occurrences", t0) is None and "occurrences" in unparse(t0)) else None
                if pmatch.match(f"{it}.occurrences", t0) is not None:
                    gd = True  # truthiness of a non-negative counter
                # guard-clause form: `if it.occurrences <= 0: continue`
                if len(guards[0].body) == 1 and isinstance(guards[0].body[0], ast.Continue) and not guards[0].orelse:
                    neg = any(pmatch.match(pat, t0) is not None for pat in (f"{it}.occurrences <= 0", f"{it}.occurrences < 1", f"{it}.occurrences == 0", f"not {it}.occurrences",
                                                                            f"0 >= {it}.occurrences", f"1 > {it}.occurrences", f"0 == {it}.occurrences"))
                    gd = True if neg else None
            else:
                gd = False
    ctx.ob("R-ENUM", up, "occurrence counter decremented before and restored after the recursive descent", bal and order_ok, "acquire / recurse / release" if bal and order_ok else "counter pairing broken: rearrangements are repeated or lost")
    Nup = Normalizer(m, up, inline=False)
    base = [n for n in walk_no_nested(up.node) if isinstance(n, ast.If) and any(isinstance(x, ast.Yield) for x in ast.walk(ast.Module(body=n.body, type_ignores=[])))]
    okbase = bool(base) and Nup(base[0].test) == ("cmp", "<", ("n", "elem_d"), ("c", 0))
    ctx.ob("R-ENUM", up, "a rearrangement is emitted exactly when every position (down to 0) has been filled", okbase,
           "yield when elem_d < 0" if okbase else f"base case `{unparse(base[0].test) if base else '?'}`: position 0 is never filled (or an extra level is descended)")
    place = [n for n in walk_no_nested(up.node) if isinstance(n, ast.Assign) and isinstance(n.targets[0], ast.Subscript) and isinstance(n.targets[0].value, ast.Name)
             and n.targets[0].value.id == "result_list" and isinstance(n.targets[0].slice, ast.Name) and n.targets[0].slice.id == "elem_d"]
    okplace = bool(place) and isinstance(place[0].value, ast.Attribute) and place[0].value.attr == "value"
    rec_ok = any(isinstance(x, ast.Call) and isinstance(x.func, ast.Name) and x.func.id == "perm_unique_helper" and len(x.args) == 3 and Nup(x.args[2]) == ("+", (("c", -1), ("n", "elem_d")))
                 for x in walk_no_nested(up.node))
    ctx.ob("R-ENUM", up, "the chosen value is written at the current position and the recursion moves to the next position", okplace and rec_ok,
           "result_list[elem_d] = value; recurse on elem_d - 1" if okplace and rec_ok else "the value is not placed at `elem_d` or the recursion does not descend by one position")
    ctx.ob("R-ENUM", up, "only values with remaining occurrences are placed", gd, "occurrences > 0" if gd else "guard missing or weakened" if gd is False else "guard not recognised", required=gd is not None)
    from ..rules import r_index_array_dtype, r_recursion_empty_base
    r_index_array_dtype(ctx, ps, "perm", rule="R-KIND")
    _k = ("R-KIND", ps.short, "the index array made from the list `perm` has an integer dtype (an empty list included)")
    if not any(o.key == _k for o in ctx.obs):
        ctx.ob("R-KIND", ps, _k[2], True, "`perm` is never used as an index array (its entries are read one by one)")
    pm = m.func("perfect_matchings.perfect_matchings")
    r_recursion_empty_base(ctx, pm)
    # the objects to be matched may be any distinct labels (the docstring allows a list or array of them): a result buffer with a fixed
    # integer dtype that receives them by item assignment truncates non-integer labels (vstack / hstack promote instead)
    from ..rules import r_dtype_default_buffer
    r_dtype_default_buffer(ctx, pm, "num")
    Nm = Normalizer(m, pm, inline=False)
    lp = [n for n in walk_no_nested(pm.node) if isinstance(n, ast.For)]
    okm = bool(lp) and Nm(lp[0].iter) == ("call", "builtins.range", (("c", 1), ("n", "len_num")), ())
    ctx.ob("R-ENUM", pm, "first object paired with each of the others in turn", okm, "j in range(1, len_num)" if okm else "pairing loop changed")
    rec = [c for c, cal in calls_from(m, pm, "perfect_matchings.perfect_matchings")]
    okr = bool(rec) and bool(rec[0].args) and Nm(rec[0].args[0]) == ("sub", ("n", "num"), ("slice", ("c", 2), ("c", None), ("c", None)))
    ctx.ob("R-ENUM", pm, "recursion on the remaining n-2 objects", okr, "perfect_matchings(num[2:])" if okr else "recursion operand changed")
    jv = lp[0].target.id if lp and isinstance(lp[0].target, ast.Name) else "j"
    fr = pmatch.find(pm.node, [f"_T[_T == num[{jv}]] = num[1]", f"_T[num[{jv}] == _T] = num[1]"])
    anyrep = pmatch.find(pm.node, ["_T[_T == _A] = _B", "_T[_A == _T] = _B"])
    mask_store = any(isinstance(n, ast.Assign) and isinstance(n.targets[0], ast.Subscript) and isinstance(n.targets[0].slice, ast.Compare) for n in walk_no_nested(pm.node)) or \
        any(isinstance(n, ast.Call) and getattr(n.func, "attr", "") in ("where", "place", "putmask", "copyto") for n in walk_no_nested(pm.node))
    rep = True if fr else False if (anyrep or not mask_store) else None
    ctx.ob("R-ENUM", pm, "the partner j is replaced by object 1 in the sub-matchings", rep, "relabelling keeps each object exactly once" if rep else "relabelling changed")
