"""C12 -- PPT / symmetric-extension discrimination (structural clauses)."""

from __future__ import annotations

import ast

from .. import flow as flw
from ..dataflow import origins
from ..model import calls_in, unparse, walk_no_nested
from ..norm import Normalizer, calls_to, kwarg, mentions_name, show, subterms
from ..rules import calls_from, r_effect_free, r_guard_pred, r_live, r_thread, return_terms
from ..sdp import Skeleton, psd_ok
from .disc_common import _objective_pairing, dual_readback_transposed, expand1, real_objective, returns_optimum


def run(ctx):  # noqa: C901
    m = ctx.model
    from .disc_common import states_unscaled
    states_unscaled(ctx, "/ppt_distinguishability.py")
    states_unscaled(ctx, "/symmetric_extension_hierarchy.py")
    ctx.rule("R-EFFECT", "the caller's list of states is not written")
    ctx.rule("R-SDP", "PPT constraint on every measurement with the caller's subsystems/dimensions; dual pairs Y - p_i rho_i >= T(Q_i), Q_i >= 0; hierarchy families for every state")
    ctx.rule("R-THREAD", "level reaches the dimension list, the traced copies, the symmetric projector and the PPT loop; dispatch and option threading")
    ctx.rule("R-BASE", "extension copies are subsystems 2.. of [X, Y, Y, ...]; PPT on subsystem 0 and on every extension copy")
    pd = m.func("ppt_distinguishability.ppt_distinguishability")
    r_guard_pred(ctx, pd, "has_same_dimension", "vectors")
    r_effect_free(ctx, pd, ["vectors", "probs", "subsystems", "dimensions"])
    N = Normalizer(m, pd, inline=False)
    for h in ("_min_error_primal", "_min_error_dual"):
        sites = calls_from(m, pd, f"ppt_distinguishability.{h}")
        if not sites:
            # selected through a local alias (`f = A if primal else B; f(..)`) or a dispatch table: the helper's name is still read -- not decided here
            named = any(isinstance(x, ast.Name) and x.id == h and isinstance(x.ctx, ast.Load) for x in walk_no_nested(pd.node))
            ctx.ob("R-THREAD", pd, f"{h} called", None if named else False, "selected through an alias: the call is not followed" if named else "helper never called", required=not named)
            continue
        c, cal = sites[0]
        b = m.bind(c, cal.func)
        for p in ("vectors", "subsystems", "dimensions", "probs", "solver", "strategy"):
            a = b.get(p)
            ok = isinstance(a, ast.Name) and a.id == p
            det_ = "forwarded" if ok else f"`{p}` not forwarded to {h}"
            if ok and p in ("vectors", "subsystems", "dimensions") and pd.param(p) is not None:
                rb = [x for x in walk_no_nested(pd.node) if isinstance(x, (ast.Assign, ast.AugAssign, ast.AnnAssign)) and getattr(x, "lineno", 0) < c.lineno and
                      any(isinstance(y, ast.Name) and y.id == p and isinstance(y.ctx, ast.Store) for tg_ in (x.targets if isinstance(x, ast.Assign) else [x.target]) for y in ast.walk(tg_))]
                if rb:
                    ok = False
                    det_ = (f"`{unparse(rb[0])[:80]}` re-binds `{p}` before it is handed to {h}: the programme is solved for transformed data "
                            "(np.linalg.norm of a density matrix is its Frobenius norm, so mixed states are rescaled)")
            ctx.ob("R-THREAD", pd, f"{p}->{h}.{p}", ok, det_, c)
        hit = flw.find_stmt_of(pd.node, c)
        conds = [(N(t), pol) for t, pol in flw.conds(hit[1])] if hit else []
        pe = ("cmp", "==", *sorted([("c", "primal"), ("n", "primal_dual")], key=repr))
        got = next((pol for t, pol in conds if t == pe), None)
        want = h == "_min_error_primal"
        ctx.ob("R-THREAD", pd, f"primal_dual selects {h}", (got is True) == want and got is not None, "dispatch ok" if (got is True) == want and got is not None else f"{h} selected when primal_dual=='primal' is {got}", c)
    # default prior
    okd = any(isinstance(n, ast.Assign) and unparse(n) == "probs = [1 / n] * n if probs is None else probs" for n in walk_no_nested(pd.node)) and \
        any(isinstance(n, ast.Assign) and unparse(n) == "n = len(vectors)" for n in walk_no_nested(pd.node))
    if not okd:
        Ni = Normalizer(m, pd, inline=True)
        for n in walk_no_nested(pd.node):
            if isinstance(n, ast.Assign) and isinstance(n.targets[0], ast.Name) and n.targets[0].id == "probs" and isinstance(n.value, ast.IfExp):
                t = Ni(n.value)
                L = ("call", "builtins.len", (("n", "vectors"),), ())
                uni = ("*", tuple(sorted([L, ("list", ("/", ("c", 1), L))], key=repr)))
                okd = (t[1] == ("cmp", "is", ("n", "probs"), ("c", None)) and t[2] == uni and t[3] == ("n", "probs")) or \
                      (t[1] == ("cmp", "isnot", ("n", "probs"), ("c", None)) and t[3] == uni and t[2] == ("n", "probs"))
    ctx.ob("R-THREAD", pd, "default prior is uniform 1/n over the given states", okd, "[1/n]*n" if okd else "default prior is not uniform over len(vectors)")

    # ---- primal ---------------------------------------------------------------------------------
    pp = m.func("ppt_distinguishability._min_error_primal")
    sk = Skeleton(m, pp)
    from ..sdp import r_hermitian_vars
    r_hermitian_vars(ctx, pp, sk)
    if sk.probs:
        p = sk.probs[0]
        ctx.ob("R-SDP", pp, "objective sense == max", p.sense == "max", p.sense or "?", p.node)
        reach = sk.reaching()[0]
        psd = [c for c in reach if c.rel == ">>" and c.rhs == ("c", 0) and c.loops and c.loops[0][1] == ("n", "measurements") and c.lhs == ("n", c.loops[0][0][0])]
        ctx.ob("R-SDP", pp, "every measurement operator PSD", bool(psd), "[M >> 0 for M in measurements]" if psd else "missing")
        comp = [c for c in reach if c.rel == "==" and ("call", "picos.sum", (("n", "measurements"),), ()) in (c.lhs, c.rhs) and any(x[0] == "call" and x[1] == "picos.I" for x in (c.lhs, c.rhs))]
        if not comp:
            # the constraint object bound to a local first: `completeness = picos.sum(M) == picos.I(d); problem.add_constraint(completeness)`
            Npp_ = Normalizer(m, pp, inline=False)
            for a_ in walk_no_nested(pp.node):
                if isinstance(a_, ast.Assign) and len(a_.targets) == 1 and isinstance(a_.targets[0], ast.Name) and isinstance(a_.value, ast.Compare) and len(a_.value.ops) == 1 and isinstance(a_.value.ops[0], ast.Eq):
                    l_, r_ = Npp_(a_.value.left), Npp_(a_.value.comparators[0])
                    if ("call", "picos.sum", (("n", "measurements"),), ()) in (l_, r_) and any(x[0] == "call" and x[1] == "picos.I" for x in (l_, r_)):
                        nm_ = a_.targets[0].id
                        if any(isinstance(c_, ast.Call) and getattr(c_.func, "attr", "") == "add_constraint" and c_.args and isinstance(c_.args[0], ast.Name) and c_.args[0].id == nm_ for c_ in walk_no_nested(pp.node)):
                            comp = [a_]
        ctx.ob("R-SDP", pp, "measurement operators sum to the identity", bool(comp), "sum(M) == I(d)" if comp else "completeness missing or weakened")
        ppt = [c for c in reach if c.rel == ">>" and c.rhs == ("c", 0) and c.lhs[0] == "call" and c.lhs[1] == "picos.partial_transpose"]
        okp = False
        det = "no PPT constraint `partial_transpose(M) >> 0` reaches the problem"
        if ppt:
            c = ppt[0]
            d = dict(c.lhs[3])
            op = c.lhs[2][0] if c.lhs[2] else d.get("argument")
            every = c.loops and c.loops[0][1] == ("n", "measurements") and op == ("n", c.loops[0][0][0]) and not getattr(c.loops[0][2], "ifs", [])
            thr = d.get("subsystems") == ("n", "subsystems") and d.get("dimensions") == ("n", "dimensions")
            okp = bool(every and thr)
            if every and not thr and "**" in d:
                okp = None  # keyword arguments handed over as a dict (**kwargs): not followed
            det = "PT(M) >> 0 for every M with the caller's subsystems and dimensions" if okp else \
                ("the PPT constraint is not imposed on every measurement operator" if not every else "the PPT constraint ignores the caller's subsystems / dimensions")
        ctx.ob("R-SDP", pp, "PPT constraint on every measurement operator with the caller's bipartition", okp, det, ppt[0].node if ppt else None, required=okp is not None)
        d = sk.dangling()
        ctx.ob("R-SDP", pp, "S1 every constraint reaches the problem", not d, "ok" if not d else f"`{unparse(d[0].node)[:50]}` dropped")
        _objective_pairing(ctx, pp, p, ("probs", "dms", "measurements"))
        real_objective(ctx, pp, p)
        okdm = any(isinstance(n, ast.Assign) and isinstance(n.targets[0], ast.Name) and n.targets[0].id == "dms" and isinstance(n.value, ast.ListComp)
                   and unparse(n.value.generators[0].iter) == "vectors" and not n.value.generators[0].ifs for n in walk_no_nested(pp.node))
        ctx.ob("R-ENUM", pp, "rho_i = to_density_matrix(vectors[i]) for every i", okdm, "in order, unfiltered" if okdm else "density matrices not built one per state")
        oks = any(any(kw.arg == "solver" and unparse(kw.value) == "solver" for kw in c.keywords) for c in sk.solves)
        ctx.ob("R-THREAD", pp, "solver->solve(solver=)", oks, "used" if oks else "solver ignored")
        returns_optimum(ctx, pp, sk)
    # ---- dual -------------------------------------------------------------------------------------
    dd = m.func("ppt_distinguishability._min_error_dual")
    sd = Skeleton(m, dd)
    r_hermitian_vars(ctx, dd, sd)
    if sd.probs:
        p = sd.probs[0]
        ctx.ob("R-SDP", dd, "objective sense == min", p.sense == "min", p.sense or "?", p.node)
        ctx.ob("R-SDP", dd, "objective == Tr Y", p.objective == ("call", "picos.trace", (("n", "y_var"),), ()), "trace(Y)")
        reach = sd.reaching()[0]
        fam = [c for c in reach if c.rel in (">>", "<<") and mentions_name(c.lhs, "y_var") or (c.rel in (">>", "<<") and mentions_name(c.rhs, "y_var"))]
        okf = False
        det = "the per-state dual inequalities do not reach the problem"
        if fam:
            c = fam[0]
            lhs, rhs, rel = (c.lhs, c.rhs, c.rel) if mentions_name(c.lhs, "y_var") else (c.rhs, c.lhs, "<<" if c.rel == ">>" else ">>")
            it_ok = c.loops and c.loops[0][1] == ("call", "builtins.enumerate", (("n", "q_vars"),), ()) and len(c.loops[0][0]) == 2 and not getattr(c.loops[0][2], "ifs", [])
            if it_ok:
                i, q = c.loops[0][0]
                P = ("sub", ("n", "probs"), ("n", i))
                shape_ok = lhs[0] == "+" and ("n", "y_var") in lhs[1] and any(x[0] == "neg" and x[1][0] == "*" and P in x[1][1] and
                                                                               any(y[0] == "call" and str(y[1]).endswith("to_density_matrix") and dict(y[3]).get("input_array") == ("sub", ("n", "vectors"), ("n", i)) for y in x[1][1])
                                                                               for x in lhs[1])
                dq = dict(rhs[3]) if rhs[0] == "call" else {}
                pt_ok = rhs[0] == "call" and rhs[1] == "picos.partial_transpose" and (rhs[2][0] if rhs[2] else None) == ("n", q) and \
                    dq.get("subsystems") == ("n", "subsystems") and dq.get("dimensions") == ("n", "dimensions")
                okf = bool(rel == ">>" and shape_ok and pt_ok)
                if rel == ">>" and shape_ok and not pt_ok and rhs[0] == "call" and not str(rhs[1]).startswith("picos."):
                    okf = None  # the partial transpose is taken by a helper of the module: not followed here
                det = "Y - p_i rho_i >> PT(Q_i), same i, caller's bipartition" if okf else \
                    (f"inequality direction is {rel}" if rel != ">>" else "left side is not Y - probs[i]*rho(vectors[i])" if not shape_ok else "right side is not PT(Q_i) with the caller's subsystems/dimensions")
            else:
                det = "the dual inequalities do not range over every (i, Q_i)"
        ctx.ob("R-SDP", dd, "Y - p_i rho_i >= T(Q_i) for every state", okf, det, fam[0].node if fam else None, required=okf is not None)
        qpsd = [c for c in reach if c.rel == ">>" and c.rhs == ("c", 0) and c.loops and c.loops[0][1] == ("n", "q_vars") and c.lhs == ("n", c.loops[0][0][0])]
        ctx.ob("R-SDP", dd, "Q_i >= 0 for every state", bool(qpsd), "[Q >> 0 for Q in q_vars]" if qpsd else "missing")
        qv = next((v for v in sd.vars if v.name == "q_vars"), None)
        LV_ = ("call", "builtins.len", (("n", "vectors"),), ())
        okq = qv is not None and qv.loops and qv.loops[0][1] == ("call", "builtins.range", (LV_,), ())
        if not okq and qv is not None and qv.loops and qv.loops[0][1][0] == "call" and qv.loops[0][1][1] == "builtins.range" and len(qv.loops[0][1][2]) == 1 and qv.loops[0][1][2][0][0] == "n":
            # range(n) with n = len(vectors) bound once
            nm_ = qv.loops[0][1][2][0][1]
            dn_ = [x for x in walk_no_nested(dd.node) if isinstance(x, ast.Assign) and len(x.targets) == 1 and isinstance(x.targets[0], ast.Name) and x.targets[0].id == nm_]
            okq = len(dn_) == 1 and Normalizer(m, dd, inline=False)(dn_[0].value) == LV_
        ctx.ob("R-SDP", dd, "one Q_i per state", bool(okq), "len(vectors) Hermitian variables" if okq else "Q family does not have one member per state")
        dng = sd.dangling()
        ctx.ob("R-SDP", dd, "S1 every constraint reaches the problem", not dng, "ok" if not dng else f"`{unparse(dng[0].node)[:50]}` dropped")
        rb = [n for n in walk_no_nested(dd.node) if isinstance(n, ast.ListComp) and "get_constraint" in unparse(n.elt)]
        if rb and fam:
            adds = sorted([c for c in calls_in(dd.node) if isinstance(c.func, ast.Attribute) and c.func.attr in ("add_constraint", "add_list_of_constraints")], key=lambda c: c.lineno)
            first = bool(adds) and any(x is fam[0].node for x in ast.walk(adds[0]))
            if not first and adds and adds[0].args and isinstance(adds[0].args[0], ast.Name):
                # the family collected in a list first: L = []; L.append(<family member>) ...; problem.add_list_of_constraints(L)
                ln_ = adds[0].args[0].id
                apps = [c_ for c_ in walk_no_nested(dd.node) if isinstance(c_, ast.Call) and getattr(c_.func, "attr", "") == "append" and isinstance(c_.func.value, ast.Name) and c_.func.value.id == ln_]
                if apps and any(any(x is fam[0].node for x in ast.walk(a_)) for a_ in apps):
                    first = True
                elif apps:
                    first = None
            ctx.ob("R-SDP", dd, "S7 duals are read from the per-state constraints (added first)", first, "get_constraint(k), k < n, is the state-k inequality" if first else "another family is added first: the recovered measurement operators are wrong", rb[0])
        oks = any(any(kw.arg == "solver" and unparse(kw.value) == "solver" for kw in c.keywords) for c in sd.solves)
        ctx.ob("R-THREAD", dd, "solver->solve(solver=)", oks, "used" if oks else "solver ignored")
        returns_optimum(ctx, dd, sd)
        dual_readback_transposed(ctx, dd)

    # ---- symmetric extension hierarchy -----------------------------------------------------------------
    sh = m.func("symmetric_extension_hierarchy.symmetric_extension_hierarchy")
    # the extension variables go through toqito's partial_trace / partial_transpose Variable branch: the two conversion helpers
    from .C02 import _helpers
    _helpers(ctx)
    r_effect_free(ctx, sh, ["states", "probs", "dim"])
    from ..rules import r_parallel_families
    r_parallel_families(ctx, sh, ["states", "probs"])
    for fn_ in ("ppt_distinguishability.ppt_distinguishability", "ppt_distinguishability._min_error_primal", "ppt_distinguishability._min_error_dual"):
        try:
            r_parallel_families(ctx, m.func(fn_), ["vectors", "probs"])
            if "._" in fn_:
                r_effect_free(ctx, m.func(fn_), ["vectors", "probs"])
        except KeyError:
            pass
    og = origins(sh)
    Ns = Normalizer(m, sh, inline=False)
    sk = Skeleton(m, sh)
    r_hermitian_vars(ctx, sh, sk)
    for nm, what in (("dim_list", "dimension list [X, Y*level]"), ("sys_list", "traced extension copies"), ("sym", "symmetric projector")):
        dep = "level" in og.deps.get(nm, set())
        ctx.ob("R-THREAD", sh, f"level->{nm}", dep, f"{what} depends on level" if dep else f"`{nm}` does not depend on `level`: the constraint set is level independent")
    for c, cal in calls_from(m, sh, "symmetric_projection.symmetric_projection"):
        b = m.bind(c, cal.func)
        ok = isinstance(b.get("dim"), ast.Name) and b["dim"].id == "dim_y" and isinstance(b.get("p_val"), ast.Name) and b["p_val"].id == "level"
        ctx.ob("R-THREAD", sh, "symmetric_projection(dim_y, level)", ok, "projector on `level` copies of Y" if ok else f"symmetric_projection({', '.join(unparse(a) for a in c.args)})", c)
    # sys_list = range(2, 2 + level - 1)
    for n in walk_no_nested(sh.node):
        if isinstance(n, ast.Assign) and isinstance(n.targets[0], ast.Name) and n.targets[0].id == "sys_list":
            t = Ns(n.value)
            rng = [s for s in subterms(t) if isinstance(s, tuple) and s and s[0] == "call" and s[1] == "builtins.range"]
            ok = bool(rng) and len(rng[0][2]) == 2 and rng[0][2][0] == ("c", 2) and rng[0][2][1] == ("+", (("c", 1), ("n", "level")))
            ctx.ob("R-BASE", sh, "traced copies are subsystems 2 .. level of [X, Y, Y, ...]", ok, "range(2, level + 1)" if ok else f"sys_list = {show(t)[:60]}", n)
        if isinstance(n, ast.Assign) and isinstance(n.targets[0], ast.Name) and n.targets[0].id == "dim_list" and isinstance(n.value, ast.BinOp):
            t = Ns(n.value)
            ok = t[0] == "+" and ("list", ("n", "dim_x")) in t[1] and any(x[0] == "*" and ("list", ("n", "dim_y")) in x[1] and ("n", "level") in x[1] for x in t[1])
            ctx.ob("R-SHAPE", sh, "dim_list == [dim_x] + [dim_y] * level", ok, "X followed by level copies of Y" if ok else f"dim_list = {show(t)[:60]}", n)
    if sk.probs:
        p = sk.probs[0]
        ctx.ob("R-SDP", sh, "objective sense == max", p.sense == "max", p.sense or "?", p.node)
        reach = sk.reaching()[0]
        dng = sk.dangling()
        ctx.ob("R-SDP", sh, "S1 every constraint reaches the problem", not dng, "ok" if not dng else f"`{unparse(dng[0].node)[:50]}` dropped")
        def in_state_loop(c):
            return bool(c.loops) and c.loops[0][1] == ("call", "builtins.enumerate", (("n", "states"),), ())
        XK = ("sub", ("n", "x_var"), ("n", "k"))
        MK = ("sub", ("n", "meas"), ("n", "k"))
        fams = {
            "marginal Tr_ext X_k == M_k": [c for c in reach if c.rel == "==" and in_state_loop(c) and MK in (c.lhs, c.rhs) and any(x[0] == "call" and str(x[1]).endswith("partial_trace") and dict(x[3]).get("input_mat") == XK
                                          and dict(x[3]).get("sys") == ("n", "sys_list") and dict(x[3]).get("dim") == ("n", "dim_list") for x in (c.lhs, c.rhs))],
            "X_k >= 0": [c for c in reach if c.rel == ">>" and c.lhs == XK and c.rhs == ("c", 0) and in_state_loop(c)],
            "M_k >= 0": [c for c in reach if c.rel == ">>" and c.lhs == MK and c.rhs == ("c", 0) and in_state_loop(c)],
            "X_k supported on the symmetric subspace of the copies": [c for c in reach if c.rel == "==" and in_state_loop(c) and XK in (c.lhs, c.rhs) and
                                                                      any(x[0] == "@" and len(x[1]) == 3 and x[1][1] == XK and x[1][0] == x[1][2] and mentions_name(x[1][0], "sym") for x in (c.lhs, c.rhs))],
            "PPT on subsystem 0": [c for c in reach if c.rel == ">>" and c.rhs == ("c", 0) and in_state_loop(c) and len(c.loops) == 1 and c.lhs[0] == "call" and str(c.lhs[1]).endswith("partial_transpose")
                                   and dict(c.lhs[3]).get("rho") == XK and dict(c.lhs[3]).get("sys") == ("list", ("c", 0)) and dict(c.lhs[3]).get("dim") == ("n", "dim_list")],
            "PPT on every extension copy": [c for c in reach if c.rel == ">>" and c.rhs == ("c", 0) and in_state_loop(c) and len(c.loops) == 2 and c.lhs[0] == "call" and str(c.lhs[1]).endswith("partial_transpose")
                                            and dict(c.lhs[3]).get("rho") == XK and dict(c.lhs[3]).get("dim") == ("n", "dim_list")],
        }
        # a family that is missing while its siblings are recognised is a dropped constraint; when NONE of the six is recognised the state loop itself
        # was rewritten (another iteration form, other names) and nothing is decided
        none_found = not any(fams.values())
        for k, cs in fams.items():
            ctx.ob("R-SDP", sh, f"for every state: {k}", None if none_found else bool(cs), "present inside the loop over states" if cs else
                   "the loop over the states is not in the recognised form" if none_found else f"the family `{k}` does not reach the problem for every state", required=not none_found)
        ext = fams["PPT on every extension copy"]
        if ext:
            c = ext[0]
            it = c.loops[1][1]
            sv = c.loops[1][0][0]
            ok = it == ("call", "builtins.range", (("+", (("c", -1), ("n", "level"))),), ()) and dict(c.lhs[3]).get("sys") == ("list", ("+", (("c", 2), ("n", sv))))
            ctx.ob("R-BASE", sh, "extension-copy PPT ranges over subsystems 2 .. level", ok, "[sys + 2] for sys in range(level - 1)" if ok else
                   f"PPT loop {show(it)} with subsystem {show(dict(c.lhs[3]).get('sys'))}", c.node)
        tot = [c for c in reach if c.rel == "==" and not c.loops and any(x == ("call", "builtins.sum", (("n", "meas"),), ()) for x in (c.lhs, c.rhs))
               and any(x[0] == "call" and x[1] in ("numpy.identity", "numpy.eye") for x in (c.lhs, c.rhs))]
        ctx.ob("R-SDP", sh, "measurement operators sum to the identity", bool(tot), "sum(meas) == I" if tot else "completeness missing or weakened")
        # objective terms: probs[k] * trace(Dagger(rho_k) @ meas[k])
        for n in walk_no_nested(sh.node):
            if isinstance(n, ast.Call) and isinstance(n.func, ast.Attribute) and n.func.attr == "append" and isinstance(n.func.value, ast.Name) and n.func.value.id == "obj_func":
                t = Ns(n.args[0])
                ok = t[0] == "*" and ("sub", ("n", "probs"), ("n", "k")) in t[1] and any(x[0] == "call" and x[1] == "cvxpy.trace" and x[2][0][0] == "@" and x[2][0][1][0] == ("dag", ("n", "item")) and x[2][0][1][1] == MK for x in t[1])
                if not ok:
                    # M_k bound to a local in the loop body (`meas_k = meas[k]`): resolve it once
                    alias_ = [d_.targets[0].id for d_ in walk_no_nested(sh.node) if isinstance(d_, ast.Assign) and len(d_.targets) == 1 and isinstance(d_.targets[0], ast.Name) and Ns(d_.value) == MK]
                    # ... or created in the loop body and appended to the list there: `meas_k = Variable(..); meas.append(meas_k)` makes meas_k == meas[k]
                    alias_ += [c_.args[0].id for c_ in walk_no_nested(sh.node) if isinstance(c_, ast.Call) and getattr(c_.func, "attr", "") == "append" and isinstance(c_.func.value, ast.Name)
                               and c_.func.value.id == "meas" and c_.args and isinstance(c_.args[0], ast.Name)]
                    for an_ in alias_:
                        if True:
                            from ..rules import _subst
                            t2 = _subst(t, an_, MK)
                            ok = t2[0] == "*" and ("sub", ("n", "probs"), ("n", "k")) in t2[1] and any(x[0] == "call" and x[1] == "cvxpy.trace" and x[2][0][0] == "@" and x[2][0][1][0] == ("dag", ("n", "item")) and x[2][0][1][1] == MK for x in t2[1])
                            if ok:
                                break
                ctx.ob("R-ENUM", sh, "objective term k == p_k Tr(Dagger(rho_k) M_k)", ok, "same k for prior, state and operator" if ok else f"objective term {show(t)[:80]}", n)
        rets, _ = return_terms(m, sh, inline=True)
        ctx.ob("R-SDP", sh, "S3 returns the optimum", all("solve" in repr(t) for _, _, t in rets), "problem.solve()")
    # guards
    N0 = Normalizer(m, sh, inline=False)
    res = flw.flow(sh.node)
    for nm, arg in (("__is_states_valid", "states"), ("__is_probs_valid", "probs")):
        ok = all(any(x[0] == "stmt" and isinstance(x[1], ast.Expr) and isinstance(x[1].value, ast.Call) and unparse(x[1].value) == f"{nm}({arg})" for x in facts) for _, facts in res.returns)
        ctx.ob("R-GUARD", sh, f"{nm}({arg}) executed before the program is built", ok, "validated" if ok else f"`{nm}({arg})` no longer dominates the return")
    from .. import pmatch
    fd = pmatch.find(sh.node, ["probs = [1 / len(states)] * len(states)", "probs = len(states) * [1 / len(states)]", "probs = [1 / _N] * _N", "probs = _N * [1 / _N]",
                               "probs = np.ones(len(states)) / len(states)", "probs = np.full(len(states), 1 / len(states))"])
    okd = pmatch.tri(fd, any(isinstance(n, ast.Assign) and isinstance(n.targets[0], ast.Name) and n.targets[0].id == "probs" for n in walk_no_nested(sh.node)))
    ctx.ob("R-THREAD", sh, "default prior uniform", okd, "[1/n]*n" if okd else "no assignment of a default prior is left" if okd is False else "default prior assigned in an unrecognised form", required=okd is not None)
    r_live(ctx, sh, "dim")
    r_live(ctx, sh, "level")
