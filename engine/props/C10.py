"""C10 -- state discrimination values are certified optima (structural clauses)."""

from __future__ import annotations

import ast

from ..model import unparse, walk_no_nested
from ..norm import Normalizer, calls_to, mentions_name, show, subterms
from ..rules import calls_from, r_thread, return_terms
from ..sdp import Skeleton, psd_ok, r_hermitian_vars
from .disc_common import dispatcher, min_error_dual, min_error_primal, returns_optimum, solve_threading


def run(ctx):
    m = ctx.model
    from .disc_common import states_unscaled
    states_unscaled(ctx, "/state_distinguishability.py")
    from ..rules import r_parallel_families
    for q_, f_ in sorted(m.functions.items()):
        if f_.file.endswith("/state_distinguishability.py") and f_.parent is None and f_.param("vectors") is not None and f_.param("probs") is not None:
            r_parallel_families(ctx, f_, ["vectors", "probs"])
            if f_.name.startswith("_"):
                from ..rules import r_effect_free as _ref
                _ref(ctx, f_, ["vectors", "probs"])
    ctx.rule("R-SDP", "S1-S7 on the four programs: POVM cone and completeness, dual feasibility for every state, senses, read-back order, returned optimum")
    ctx.rule("R-ENUM", "p_i paired with rho_i and M_i of the same index over all states")
    ctx.rule("R-THREAD", "solver / **kwargs / probs / dim reach all four programs; dispatch by (strategy, primal_dual); default prior uniform")
    ctx.rule("R-GUARD", "has_same_dimension dominates")
    ctx.rule("R-DTYPE", "variables paired with complex-capable data are Hermitian, not real symmetric")
    ctx.rule("R-SHAPE", "variable shapes follow the number of states / the state dimension")
    ctx.rule("R-COV", "outer products conjugate the second factor; Gram matrix is Dagger(S) @ S")
    mod = "state_distinguishability"
    sd = m.func(f"{mod}.state_distinguishability")
    dispatcher(ctx, sd, mod, {(True, True): "_min_error_primal", (True, False): "_min_error_dual",
                              (False, True): "_unambiguous_primal", (False, False): "_unambiguous_dual"},
               pass_dim={"_min_error_primal", "_min_error_dual"})
    min_error_primal(ctx, m.func(f"{mod}._min_error_primal"), "max")
    min_error_dual(ctx, m.func(f"{mod}._min_error_dual"), ">>", "min")

    # unambiguous primal: Gram - diag(s) >= 0, s >= 0, max p.s
    up = m.func(f"{mod}._unambiguous_primal")
    sk = Skeleton(m, up)
    if sk.probs:
        p = sk.probs[0]
        ctx.ob("R-SDP", up, "objective sense == max", p.sense == "max", p.sense or "?", p.node)
        v = next((x for x in sk.vars if x.name == "success_probabilities"), None)
        okl = v is not None and v.attrs.get("lower") == ("c", 0)
        ctx.ob("R-SDP", up, "success probabilities are non-negative", okl, "RealVariable(..., lower=0)" if okl else "lower bound 0 on the success probabilities is gone", v.node if v else None)
        okn = v is not None and v.shape == ("call", "builtins.len", (("n", "vectors"),), ())
        ctx.ob("R-SDP", up, "one success probability per state", okn, "n = len(vectors)" if okn else f"shape {show(v.shape) if v and v.shape else '?'}", v.node if v else None)
        Ni = Normalizer(m, up, inline=True)
        blk = [c for c in sk.reaching()[0] if c.rel == ">>" and c.rhs == ("c", 0)]
        okb = False
        if blk:
            t = Ni(blk[0].lhs_node)
            okb = t[0] == "+" and any(x[0] == "call" and str(x[1]).endswith("vectors_to_gram_matrix") for x in t[1]) and \
                any(x[0] == "neg" and x[1][0] == "call" and x[1][1] == "picos.diag" for x in t[1])
        ctx.ob("R-SDP", up, "Gram - diag(s) >= 0", okb, "Gram(vectors) - diag(s) >> 0" if okb else "the PSD constraint relating Gram matrix and success probabilities is missing or altered")
        ot = p.objective
        oko = ot is not None and ot[0] == "|" and any(x == ("n", "success_probabilities") for x in ot[1]) and any(mentions_name(x, "probs") for x in ot[1])
        ctx.ob("R-SDP", up, "objective == <probs, s>", bool(oko), "probs | s" if oko else f"objective {show(ot)[:60] if ot else '?'}")
        d = sk.dangling()
        ctx.ob("R-SDP", up, "S1 every constraint reaches the problem", not d, "ok" if not d else "constraint dropped")
        solve_threading(ctx, up, sk)
        returns_optimum(ctx, up, sk)
    ud = m.func(f"{mod}._unambiguous_dual")
    sk2 = Skeleton(m, ud)
    if sk2.probs:
        p = sk2.probs[0]
        ctx.ob("R-SDP", ud, "objective sense == min", p.sense == "min", p.sense or "?", p.node)
        ok, det, nd = psd_ok(sk2, "lagrangian_variable_big_z")
        ctx.ob("R-SDP", ud, "Z >= 0", ok, det, nd)
        dg = [c for c in sk2.reaching()[0] if c.rel in (">=", "<=") and "lagrangian_variable_big_z" in repr(c.sides())]
        okd = False
        if dg:
            c = dg[0]
            z, pr = (c.lhs, c.rhs) if c.rel == ">=" else (c.rhs, c.lhs)
            if z[0] == "real":  # the diagonal of a Hermitian variable is real: .real is the identity on it
                z = z[1]
            i = c.loops[0][0][0] if c.loops else None
            Ni = Normalizer(m, ud, inline=True)
            it = Ni(c.loops[0][2].iter) if c.loops else None
            okd = i is not None and z == ("sub", ("n", "lagrangian_variable_big_z"), ("tuple", ("n", i), ("n", i))) and pr == ("sub", ("n", "probs"), ("n", i)) \
                and it == ("call", "builtins.range", (("call", "builtins.len", (("n", "vectors"),), ()),), ())
        ctx.ob("R-SDP", ud, "Z_ii >= p_i for every state", okd, "diagonal dominates the prior, all i" if okd else "the diagonal constraints Z_ii >= p_i are missing, reversed or mis-indexed")
        Ni = Normalizer(m, ud, inline=True)
        ot = Ni(p.objective_node) if p.objective_node is not None else None
        if ot is not None and ot[0] == "real":  # Tr(G Z) of Hermitian G, Z is real
            ot = ot[1]
        vz = next((x for x in sk2.vars if x.name == "lagrangian_variable_big_z"), None)
        r_hermitian_vars(ctx, ud, sk2)
        oksq = vz is not None and vz.shape == ("tuple", ("call", "builtins.len", (("n", "vectors"),), ()), ("call", "builtins.len", (("n", "vectors"),), ()))
        ctx.ob("R-SHAPE", ud, "Z is n x n with n = len(vectors)", oksq, "(n, n)" if oksq else f"shape {show(vz.shape) if vz and vz.shape else '?'}", vz.node if vz else None)
        oko = ot is not None and ot[0] == "call" and ot[1] == "picos.trace" and ot[2][0][0] == "*" and any(str(x[1]).endswith("vectors_to_gram_matrix") for x in ot[2][0][1] if x[0] == "call")
        ctx.ob("R-SDP", ud, "objective == Tr(Gram Z)", bool(oko), "trace(gram * Z)" if oko else f"objective {show(ot)[:60] if ot else '?'}")
        d = sk2.dangling()
        ctx.ob("R-SDP", ud, "S1 every constraint reaches the problem", not d, "ok" if not d else "constraint dropped")
        solve_threading(ctx, ud, sk2)
        returns_optimum(ctx, ud, sk2)
    # S5 primal/dual senses
    # is_distinguishable
    isd = m.func("is_distinguishable.is_distinguishable")
    r_thread(ctx, isd, "probs", "state_distinguishability.state_distinguishability")
    r_thread(ctx, isd, "states", "state_distinguishability.state_distinguishability", formal="vectors")
    from ..rules import calls_from as _cf
    for c_, cal_ in _cf(m, isd, "state_distinguishability.state_distinguishability"):
        b_ = m.bind(c_, cal_.func)
        st_ = b_.get("strategy")
        oks = not isinstance(st_, ast.AST) or (isinstance(st_, ast.Constant) and st_.value == "min_error")
        ctx.ob("R-BIND", isd, "delegates to the minimum-error programme (strategy left at / set to 'min_error')", oks,
               "strategy = 'min_error'" if oks else
               f"`{unparse(c_)[:70]}` binds strategy = {unparse(st_)}: anything but 'min_error' selects the unambiguous programme, whose value reaches 1 on different ensembles "
               "(zero-prior states, density matrices)", c_)
        pd_ = b_.get("primal_dual")
        okp = not isinstance(pd_, ast.AST) or (isinstance(pd_, ast.Constant) and pd_.value in ("dual", "primal"))
        ctx.ob("R-BIND", isd, "primal_dual is one of the two formulations", okp, "ok" if okp else f"primal_dual = {unparse(pd_)}", c_)
    rets, N = return_terms(m, isd, inline=True)
    good = [t[0] == "call" and t[1] == "numpy.isclose" and ("c", 1) in t[2] and "state_distinguishability" in repr(t) for rn, facts, t in rets]
    ok = bool(good) and all(good)
    ctx.ob("R-PRED", isd, "perfectly distinguishable iff optimum is 1", ok, "every return is isclose(optimum, 1)" if ok else "a return path decides distinguishability by something other than `optimum == 1`")
    # to_density_matrix, gram
    td = m.func("to_density_matrix.to_density_matrix")
    Nt = Normalizer(m, td, inline=False)
    outs = [Nt(n) for n in walk_no_nested(td.node) if isinstance(n, ast.Call) and m.resolve_call(td, n).key == "numpy.outer"]
    # numpy.outer(a, b) normalises to a @ b.T, so outer(v, conj(v)) is v @ Dagger(v)
    okc = bool(outs) and all(t[0] == "@" and len(t[1]) == 2 and t[1][1] == ("dag", t[1][0]) for t in outs)
    ctx.ob("R-COV", td, "|v><v| == outer(v, conj(v))", okc, f"{len(outs)} outer products conjugate the second factor" if okc else "an outer product does not conjugate its second factor (or conjugates the first)")
    # every vector branch builds |v><v| = A @ Dagger(A) with A a COLUMN form of the input that carries no conjugation: the input itself
    # (1-D or (n,1)), its flattening, or its transpose (row vector).  Dagger(x) @ x for a row vector x is conj(|v><v|).
    Nti = Normalizer(m, td, inline=True)
    projs = [n for n in walk_no_nested(td.node) if isinstance(n, ast.Assign) and isinstance(n.targets[0], ast.Name) and n.targets[0].id == "density_matrix"]
    badp = None
    nproj = 0
    for n in projs:
        t = Nti(n.value)
        if t == ("n", "input_array"):
            continue
        nproj += 1
        okp = False
        if t[0] == "@" and len(t[1]) == 2:
            a_, b_ = t[1]
            core, par = a_, 0
            while True:
                if core[0] in ("conj", "dag"):
                    par ^= 1
                    core = core[1]
                elif core[0] == "T":
                    core = core[1]
                elif core[0] == "call" and isinstance(core[1], tuple) and core[1][0] == "attr" and core[1][2] in ("flatten", "ravel", "reshape", "squeeze"):
                    core = core[1][1]
                else:
                    break
            okp = core == ("n", "input_array") and par == 0 and b_ == Nti._dag(a_) if hasattr(Nti, "_dag") else False
        if not okp:
            badp = badp or n
    ctx.ob("R-COV", td, "every vector branch returns A @ Dagger(A) with A an unconjugated column form of the input", badp is None and nproj > 0,
           f"{nproj} projector construction(s)" if badp is None else
           f"`{unparse(badp)[:70]}` (line {badp.lineno}): the ket factor is conjugated (or the bra is not its dagger): for a complex row vector this is the "
           "conjugate of |v><v|, still a valid density matrix, so every validity check passes while all downstream values belong to the conjugated ensemble", badp)
    passthrough = any(isinstance(n, ast.Assign) and unparse(n.value) == "input_array" for n in walk_no_nested(td.node))
    ctx.ob("R-PRED", td, "square input is returned unchanged", passthrough, "density matrices pass through" if passthrough else "square inputs are transformed")
    gm = m.func("vectors_to_gram_matrix.vectors_to_gram_matrix")
    rets, Ng = return_terms(m, gm, inline=True)
    okg = False
    for rn, facts, t in rets:
        okg = t[0] == "@" and len(t[1]) == 2 and t[1][0] == ("dag", t[1][1]) and t[1][1][0] == "call" and t[1][1][1] == "numpy.column_stack"
    ctx.ob("R-COV", gm, "Gram == Dagger(S) @ S with the vectors as columns of S", okg, "G_ij = <v_i, v_j>" if okg else "Gram matrix is not S^+ S of the column-stacked vectors")
