"""C11 -- state exclusion values are certified optima and decide antidistinguishability (structural clauses)."""

from __future__ import annotations

import ast

from ..model import unparse, walk_no_nested
from ..norm import Normalizer, calls_to, mentions_name, show, subterms
from ..rules import calls_from, return_terms
from ..sdp import Skeleton, psd_ok, r_hermitian_vars
from .disc_common import dispatcher, expand1, min_error_dual, min_error_primal, returns_optimum, solve_threading


def run(ctx):
    m = ctx.model
    from .disc_common import states_unscaled
    states_unscaled(ctx, "/state_exclusion.py")
    from ..rules import r_parallel_families
    for q_, f_ in sorted(m.functions.items()):
        if f_.file.endswith("/state_exclusion.py") and f_.parent is None and f_.param("vectors") is not None and f_.param("probs") is not None:
            r_parallel_families(ctx, f_, ["vectors", "probs"])
            if f_.name.startswith("_"):
                from ..rules import r_effect_free as _ref
                _ref(ctx, f_, ["vectors", "probs"])
    ctx.rule("R-SIB", "mirror of the discrimination programs: same constraints, opposite sense; `<<` in the dual")
    ctx.rule("R-SDP", "S1-S7 on the four exclusion programs")
    ctx.rule("R-ENUM", "p_i paired with rho_i and M_i of the same index over all states")
    ctx.rule("R-THREAD", "solver / **kwargs / probs / dim reach all four programs; antidistinguishability delegates with unit weights")
    from .families import check_pbr, check_trine
    ctx.rule("R-ENUM", "state families: trine = three vectors 120 degrees apart; PBR = every bit string, every position contributes psi[b] once, in order")
    check_trine(ctx)
    check_pbr(ctx)
    mod = "state_exclusion"
    se = m.func(f"{mod}.state_exclusion")
    allh = {"_min_error_primal", "_min_error_dual", "_unambiguous_primal", "_unambiguous_dual"}
    dispatcher(ctx, se, mod, {(True, True): "_min_error_primal", (True, False): "_min_error_dual",
                              (False, True): "_unambiguous_primal", (False, False): "_unambiguous_dual"}, pass_dim=allh)
    skp = min_error_primal(ctx, m.func(f"{mod}._min_error_primal"), "min")
    skd = min_error_dual(ctx, m.func(f"{mod}._min_error_dual"), "<<", "max")
    # mirror with discrimination: constraint signatures equal
    try:
        dp = Skeleton(m, m.func("state_distinguishability._min_error_primal"))
        sig = lambda sk: sorted((c.rel, repr(c.lhs), repr(c.rhs)) for c in sk.reaching()[0])  # noqa: E731
        same = sig(dp) == sig(skp)
        ctx.ob("R-SIB", m.func(f"{mod}._min_error_primal"), "same feasible set as the discrimination primal", same,
               "identical POVM constraints" if same else f"constraints differ from state_distinguishability._min_error_primal: {sig(skp)} vs {sig(dp)}")
        if dp.probs and skp.probs:
            ctx.ob("R-SIB", m.func(f"{mod}._min_error_primal"), "opposite sense to the discrimination primal", {dp.probs[0].sense, skp.probs[0].sense} == {"max", "min"},
                   f"{dp.probs[0].sense} / {skp.probs[0].sense}")
    except Exception as exc:  # noqa: BLE001
        ctx.ob("R-SIB", se, "mirror with discrimination", None, f"sibling not analysable: {exc}", required=False)

    # unambiguous primal
    up = m.func(f"{mod}._unambiguous_primal")
    sk = Skeleton(m, up)
    r_hermitian_vars(ctx, up, sk)
    Ni = Normalizer(m, up, inline=True)
    if sk.probs:
        p = sk.probs[0]
        ctx.ob("R-SDP", up, "objective sense == min", p.sense == "min", p.sense or "?", p.node)
        psd = [c for c in sk.reaching()[0] if c.rel == ">>" and c.rhs == ("c", 0) and c.loops and c.loops[0][1] == ("n", "measurements")]
        ctx.ob("R-SDP", up, "every conclusive operator PSD", bool(psd), "[M >> 0 for M in measurements]" if psd else "missing")
        inc = [c for c in sk.reaching()[0] if c.rel == ">>" and c.rhs == ("c", 0) and not c.loops]
        oki = False
        if inc:
            t = expand1(m, up, inc[0].lhs)
            oki = t[0] == "+" and ("call", "picos.I", (("n", "dim"),), ()) in t[1] and ("neg", ("call", "picos.sum", (("n", "measurements"),), ())) in t[1]
        ctx.ob("R-SDP", up, "inconclusive operator I - sum(M) is PSD", oki, "I - sum(M) >> 0" if oki else "the inconclusive element is not constrained PSD (or is not I - sum M)")
        zero = [c for c in sk.reaching()[0] if c.rel == "==" and ("c", 0) in (c.lhs, c.rhs) and c.loops]
        okz = False
        if zero:
            c = zero[0]
            it = c.loops[0][1]
            okz = it[0] == "call" and it[1] == "builtins.zip" and it[2][0] == ("n", "measurements") and len(c.loops[0][0]) == 2
            lhs = c.lhs if c.rhs == ("c", 0) else c.rhs
            okz = okz and lhs[0] == "|" and {x[1] for x in lhs[1] if x[0] == "n"} == set(c.loops[0][0])
            # the second zipped list is p_i * rho_i for all i
            second = Ni(c.loops[0][2].iter.args[1]) if isinstance(c.loops[0][2].iter, ast.Call) and len(c.loops[0][2].iter.args) == 2 else None
            okz = okz and second is not None and second[0] == "comp" and second[3][0][1][0] == "call" and second[3][0][1][1] == "builtins.zip" and not second[3][0][2]
        ctx.ob("R-SDP", up, "zero-overlap <M_i, p_i rho_i> == 0 for every i", okz, "M_i excludes state i with certainty, all i" if okz else "zero-overlap equalities missing, mis-paired or filtered")
        d = sk.dangling()
        ctx.ob("R-SDP", up, "S1 every constraint reaches the problem", not d, "ok" if not d else "constraint dropped")
        solve_threading(ctx, up, sk)
        returns_optimum(ctx, up, sk)
        from .disc_common import real_objective
        real_objective(ctx, up, p)
    ud = m.func(f"{mod}._unambiguous_dual")
    sk2 = Skeleton(m, ud)
    r_hermitian_vars(ctx, ud, sk2)
    if sk2.probs:
        p = sk2.probs[0]
        ctx.ob("R-SDP", ud, "objective sense == max", p.sense == "max", p.sense or "?", p.node)
        ok, det, nd = psd_ok(sk2, "lagrangian_variable_big_n")
        ctx.ob("R-SDP", ud, "N >= 0", ok, det, nd)
        fam = [c for c in sk2.reaching()[0] if c.rel in (">>", "<<") and c.loops]
        okf = False
        if fam:
            c = fam[0]
            Ni2 = Normalizer(m, ud, inline=True)
            it = Ni2(c.loops[0][2].iter)
            i = c.loops[0][0][0]
            lhs = c.lhs
            okf = c.rel == ">>" and it == ("call", "builtins.range", (("call", "builtins.len", (("n", "vectors"),), ()),), ()) and \
                lhs[0] == "+" and ("n", "lagrangian_variable_big_n") in lhs[1] and \
                any(x[0] == "*" and ("sub", ("n", "lagrangian_variables_a"), ("n", i)) in x[1] and ("sub", ("n", "unnormalized_dms"), ("n", i)) in x[1] for x in lhs[1]) \
                and c.rhs == ("n", "sum_of_unnormalized_dms")
        ctx.ob("R-SDP", ud, "N + a_i p_i rho_i >= sum_j p_j rho_j for every i", okf, "all i, same index on a and rho" if okf else "the per-state dual inequalities are missing, reversed or mis-indexed")
        d = sk2.dangling()
        ctx.ob("R-SDP", ud, "S1 every constraint reaches the problem", not d, "ok" if not d else "constraint dropped")
        solve_threading(ctx, ud, sk2)
        returns_optimum(ctx, ud, sk2)

    for nm in ("is_antidistinguishable", "common_quantum_overlap"):
        f = m.func(f"{nm}.{nm}")
        N = Normalizer(m, f, inline=True)
        for c, cal in calls_from(m, f, "state_exclusion.state_exclusion"):
            b = m.bind(c, cal.func)
            okv = isinstance(b.get("vectors"), ast.Name) and b["vectors"].id == "states"
            pt = N(b["probs"]) if isinstance(b.get("probs"), ast.AST) else None
            okp = pt is not None and pt[0] == "*" and ("list", ("c", 1)) in pt[1] and ("call", "builtins.len", (("n", "states"),), ()) in pt[1]
            okd = isinstance(b.get("primal_dual"), ast.Constant) and b["primal_dual"].value in ("dual", "primal")
            ctx.ob("R-THREAD", f, "delegates to state_exclusion on the given states", okv, "vectors=states" if okv else "other states are passed", c)
            ctx.ob("R-THREAD", f, "unit (unnormalised) weights [1]*n", okp, "probs=[1]*len(states)" if okp else f"weights {show(pt) if pt else '?'}", c)
    f = m.func("is_antidistinguishable.is_antidistinguishable")
    rets, N = return_terms(m, f, inline=True)
    good = [t[0] == "call" and t[1] == "numpy.isclose" and ("c", 0) in t[2] and "state_exclusion" in repr(t) for _, _, t in rets]
    ok = bool(good) and all(good)
    badret = next((rn for (rn, _, t), g in zip(rets, good) if not g), None)
    ctx.ob("R-PRED", f, "antidistinguishable iff the exclusion value is 0", ok, "every return is isclose(exclusion value, 0)" if ok else
           f"`{unparse(badret)[:60] if badret is not None else '?'}` returns a verdict that is not `exclusion value == 0`: a shortcut decides antidistinguishability without the optimum", badret)
