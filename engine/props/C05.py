"""C05 -- dual and complementary maps satisfy their defining identities (structural clauses)."""

from __future__ import annotations

import ast

from .. import flow as flw
from ..model import calls_in, unparse, walk_no_nested
from ..norm import Normalizer, calls_to, kwarg, mentions_name, show, subterms
from ..rules import calls_from, r_effect_free, r_live, r_thread, return_terms
from .C04 import _channel_dim_roles


def run(ctx):
    m = ctx.model
    ctx.rule("R-COV", "every returned Kraus operator of the dual is Dagger of the input operator; the Choi form is entrywise conjugate + swap")
    ctx.rule("R-BIND", "swap dims are [[in_r, out_r], [in_c, out_c]] by role of channel_dim's results")
    ctx.rule("R-GUARD", "complementary_channel validates non-empty / square / equal size / completeness (with Dagger) before constructing")
    ctx.rule("R-ENUM", "the complementary construction reads every Kraus operator and every row")
    dc = m.func("dual_channel.dual_channel")
    rets, N = return_terms(m, dc)
    n_kraus = 0
    for rn, facts, t in rets:
        if t[0] != "comp":
            continue
        n_kraus += 1
        # flat: comp(list, (elt,), ((target, iter, ifs),)) ; nested: elt is itself a comp
        elt = t[2][0]
        gens = t[3]
        # a couple may be built as list(...) / tuple(...) of a generator
        container = "list"
        if elt[0] == "call" and elt[1] in ("builtins.tuple", "builtins.list") and elt[2] and elt[2][0][0] == "comp":
            container = elt[1].split(".")[-1]
            elt = elt[2][0]
        elif elt[0] == "comp" and elt[1] != "list":
            container = elt[1]
        nested = elt[0] == "comp"
        if nested:
            # the dual of a paired map must itself be in the paired form that dual_channel / apply_channel classify by
            # isinstance(phi_op[0], list): couples returned as tuples (or generators) are not recognised on the way back in
            ctx.ob("R-SIB", dc, "paired form: the couples of the result are lists (the form the input classifier recognises)", container == "list",
                   "[[A^+, B^+], ...]" if container == "list" else
                   f"each couple is returned as a {container}: `isinstance(phi_op[0], list)` is False for the result, so dual_channel(dual_channel(pairs)) is rejected "
                   "(the dual of the dual no longer acts as the map)", rn)
        form = "pair" if nested else "flat"
        filt = any(g[2] for g in gens)
        inner = elt
        if nested:
            filt = filt or any(g[2] for g in elt[3])
            inner_gens = elt[3]
            inner = elt[2][0]
            src_ok = inner_gens[0][1] == gens[0][0]  # iterates the outer element
        else:
            src_ok = True
        it_ok = gens[0][1] == ("n", "phi_op")
        is_dag = inner[0] == "dag" and inner[1][0] == "b"
        ctx.ob("R-COV", dc, f"dual Kraus element is Dagger ({form} form)", is_dag,
               f"elements are {show(inner)}" if is_dag else
               f"elements are {show(inner)}: the dual needs the conjugate transpose of every operator", rn)
        ctx.ob("R-ENUM", dc, f"dual maps every operator ({form} form)", bool(it_ok and src_ok and not filt),
               "all operators of the family are mapped, none filtered" if it_ok and src_ok and not filt else "the comprehension skips or re-sources operators", rn)
    ctx.ob("R-COV", dc, "both Kraus forms handled", n_kraus >= 2 or None, f"{n_kraus} Kraus-form returns", required=False)
    # a nested list is flattened (treated as a completely positive family) only when the shared classifier says it is flat:
    # a single pair [[A, B]] (len 1 x 2) is a general map X -> A X B^+, not the CP family {A, B}
    from .C04 import canonical_classifier, classifier_table
    from ..rules import rename_term
    flat_tab = classifier_table(canonical_classifier())
    for n in walk_no_nested(dc.node):
        if isinstance(n, ast.If):
            t = rename_term(N(n.test), {"phi_op": "PHI"})
            tab = classifier_table(t)
            if tab is None or "builtins.len" not in repr(t):
                continue
            # which arm keeps the pairs (returns / builds a nested comprehension)?
            def keeps_pairs(blk):
                return any(isinstance(x, ast.ListComp) and isinstance(x.elt, ast.ListComp) for st in blk for x in ast.walk(st))
            if keeps_pairs(n.body):
                flatten_tab = tuple(not v for v in tab)
            elif keeps_pairs(n.orelse):
                flatten_tab = tab
            else:
                continue
            okf = all((not fl) or cf for fl, cf in zip(flatten_tab, flat_tab))
            ctx.ob("R-SIB", dc, "nested lists are flattened only where the shared classifier calls them flat", okf,
                   "flattening condition implies the classifier" if okf else
                   f"`{unparse(n.test)}`: some nested list that is NOT a flat CP family under the shared classifier (e.g. a single pair [[A, B]]) is flattened, so the dual of "
                   "X -> A X B^+ is returned as the CP family {A^+, B^+}", n)

    # Choi branch
    sw = calls_from(m, dc, "swap.swap")
    if not sw:
        ctx.ob("R-COV", dc, "Choi form: swap(conj(J))", None, "no swap call", required=False)
    for c, cal in sw:
        b = m.bind(c, cal.func)
        rho = N(b["rho"])
        ok = rho == ("conj", ("n", "phi_op"))
        ctx.ob("R-COV", dc, "Choi form operand is the entrywise conjugate", ok,
               "conj(J) (no transpose)" if ok else f"operand is {show(rho)}; the dual Choi matrix is swap(conj(J))", c)
        role = _channel_dim_roles(ctx, dc)
        d = b.get("dim")
        okd = None
        if isinstance(d, ast.List) and len(d.elts) == 2 and all(isinstance(r, ast.List) and len(r.elts) == 2 for r in d.elts):
            pat = []
            for r in d.elts:
                row = []
                for e in r.elts:
                    nm = [x.id for x in ast.walk(e) if isinstance(x, ast.Name)]
                    ix = [x.slice.value for x in ast.walk(e) if isinstance(x, ast.Subscript) and isinstance(x.slice, ast.Constant)]
                    row.append((role.get(nm[0]) if nm else None, ix[0] if ix else None))
                pat.append(row)
            okd = pat == [[("in", 0), ("out", 0)], [("in", 1), ("out", 1)]]
            ctx.ob("R-BIND", dc, "swap dims == [[in_r, out_r], [in_c, out_c]]", okd,
                   "the two tensor factors (input, output) are exchanged with their own extents" if okd else f"swap dims have roles {pat}", c)
        else:
            ctx.ob("R-BIND", dc, "swap dims == [[in_r, out_r], [in_c, out_c]]", None, "dims literal not recognised", c, required=False)
        sysv = b.get("sys")
        ro = b.get("row_only")
        from ..model import DEFAULT
        oks = sysv is DEFAULT or (isinstance(sysv, ast.AST) and N(sysv) in (("list", ("c", 1), ("c", 2)), ("c", None)))
        okr = ro is DEFAULT or (isinstance(ro, ast.AST) and N(ro) == ("c", False))
        ctx.ob("R-BIND", dc, "swap of the two factors, rows and columns", bool(oks and okr),
               "sys=[1,2], row_only=False" if oks and okr else "swap does not exchange both factors on rows and columns", c)
    r_thread(ctx, dc, "dims", "channel_dim.channel_dim", formal="dim")
    r_thread(ctx, dc, "phi_op", "channel_dim.channel_dim", formal="phi")
    r_effect_free(ctx, dc, ["phi_op"])

    # ---- complementary channel -----------------------------------------------------------------
    cc = m.func("complementary_channel.complementary_channel")
    from ..rules import r_family_preserved
    r_family_preserved(ctx, cc, "kraus_ops", what="Kraus operator")
    r_family_preserved(ctx, m.func("dual_channel.dual_channel"), "phi_op", what="Kraus operator")
    Nc = Normalizer(m, cc)
    Nn = Normalizer(m, cc, inline=False)
    res = flw.flow(cc.node)
    guards = {"nonempty": False, "square": False, "equal": False, "complete": False}
    complete_node = None
    for rz, facts in res.raises:
        cs = flw.conds(facts)
        if not cs:
            continue
        t = Nc(cs[-1][0])
        pol = cs[-1][1]
        r = repr(t)
        if "builtins.len" in r and "('c', 0)" in r and t[0] == "cmp":
            guards["nonempty"] = True
        if t[0] == "call" and t[1] == "builtins.any" and "shape" in r:
            # k.shape[0] != k.shape[1]  vs  k.shape[0] != op_dim
            inner = t[2][0]
            if inner[0] == "comp":
                cmpx = inner[2][0]
                if cmpx[0] == "cmp" and cmpx[1] == "!=":
                    a, b = cmpx[2], cmpx[3]
                    if a[0] == "sub" and b[0] == "sub" and a[1] == b[1]:
                        # the two extents compared must be the row and the column count of the same operator
                        guards["square"] = {a[2], b[2]} == {("c", 0), ("c", 1)}
                    else:
                        guards["equal"] = True
        if "numpy.allclose" in r:
            complete_node = cs[-1][0]
            al = calls_to(t, "numpy.allclose")[0]
            neg = (t[0] == "not") == pol
            args = list(al[2])
            summ = [a for a in args if "builtins.sum" in repr(a)]
            iden = [a for a in args if "numpy.eye" in repr(a) or "numpy.identity" in repr(a)]
            ok = bool(summ and iden and neg)
            if ok:
                s = calls_to(summ[0], "builtins.sum")[0]
                body = s[2][0]
                elt = body[2][0] if body[0] == "comp" else None
                okd = elt is not None and elt[0] == "@" and len(elt[1]) == 2 and elt[1][0] == ("dag", elt[1][1])
                it_ok = body[0] == "comp" and body[3][0][1] == ("n", "kraus_ops") and not body[3][0][2]
                guards["complete"] = okd and it_ok
                ctx.ob("R-COV", cc, "completeness test sums Dagger(K) @ K over all operators", bool(okd and it_ok),
                       "sum_i K_i^+ K_i is compared with the identity" if okd and it_ok else
                       f"completeness sum term is {show(elt) if elt else '?'} (needs Dagger(K) @ K over every K)", cs[-1][0])
    for k, v in guards.items():
        ctx.ob("R-GUARD", cc, f"raising guard: {k}", v, f"{k} check raises before the construction" if v else f"no raising `{k}` guard")
    # all guards dominate the normal return
    n_dom = 0
    for rn, facts in res.returns:
        n_guards = sum(1 for x in facts if x[0] == "cond" and not x[2]) + sum(1 for x in facts if x[0] == "cond" and x[2] and False)
        n_dom = max(n_dom, n_guards)
        dom_ok = complete_node is not None and any(x[0] == "cond" and x[1] is complete_node for x in facts)
        ctx.ob("R-GUARD", cc, "completeness guard dominates the return", bool(dom_ok),
               "the construction is only reached for trace-preserving families" if dom_ok else "the return is reachable without the completeness test", rn)
    # construction: every operator, every row, row r (not column, not conjugated) -- on normalised terms, so the list may be
    # indexed (kraus_ops[i] for i in range(n)), iterated (k in kraus_ops) or come through a parallel list built from it
    found = False
    SL = ("slice", ("c", None), ("c", None), ("c", None))
    for n in walk_no_nested(cc.node):
        if not (isinstance(n, ast.Call) and m.resolve_call(cc, n).key in ("numpy.vstack", "numpy.stack", "numpy.array", "numpy.concatenate", "numpy.row_stack") and n.args):
            continue
        t = Nc(n.args[0])
        if t[0] != "comp" or len(t[3]) != 1 or len(t[2]) != 1:
            continue
        (tg, it, ifs), elt = t[3][0], t[2][0]
        # which operator does the element read?
        src_ok = None
        if it == ("n", "kraus_ops") and not ifs:
            K, src_ok = tg, True
        elif it == ("call", "builtins.range", (("call", "builtins.len", (("n", "kraus_ops"),), ()),), ()) and not ifs:
            K, src_ok = ("sub", ("n", "kraus_ops"), tg), True
        else:
            K = None
        if K is None:
            ctx.ob("R-ENUM", cc, "stack reads K_i for every i in range(len(kraus_ops))", False if "kraus_ops" in repr(it) else None,
                   f"the stack iterates {show(it)[:80]}{' with a filter' if ifs else ''}: not every Kraus operator contributes", n, required="kraus_ops" in repr(it))
            found = True
            continue
        found = True
        ctx.ob("R-ENUM", cc, "stack reads K_i for every i in range(len(kraus_ops))", True, "all Kraus operators contribute a row", n)
        # row selection
        wrap = None
        e = elt
        if e[0] in ("conj", "dag", "T"):
            wrap, e = e[0], e[1]
        verdict, det, rterm = None, f"element {show(elt)[:80]} not recognised", None
        if e[0] == "sub":
            base, idx = e[1], e[2]
            bw = None
            if base[0] in ("dag", "T", "conj"):
                bw, base = base[0], base[1]
            if base == K:
                if idx[0] == "tuple" and len(idx) == 3 and idx[2] == SL and idx[1] != SL:
                    kind, rterm = "row", idx[1]
                elif idx[0] == "tuple" and len(idx) == 3 and idx[1] == SL and idx[2] != SL:
                    kind, rterm = "col", idx[2]
                elif idx[0] != "tuple" and idx[0] != "slice":
                    kind, rterm = "row", idx
                else:
                    kind = None
                if kind is not None:
                    # transposition of the base exchanges rows and columns; dag additionally conjugates
                    conj = (bw in ("dag", "conj")) != (wrap in ("conj", "dag"))
                    if bw in ("dag", "T"):
                        kind = "col" if kind == "row" else "row"
                    if kind == "row" and not conj:
                        verdict, det = True, "K_i[r, :]"
                    elif kind == "row":
                        verdict, det = False, f"`{unparse(n.args[0])[:70]}` selects the complex conjugate of row r (a column of the adjoint): every complementary Kraus operator is conjugated, which changes Tr(K_i rho K_j^+) for complex operators"
                    else:
                        verdict, det = False, f"`{unparse(n.args[0])[:70]}` selects column r, not row r, of each K_i"
        ctx.ob("R-ENUM", cc, "environment operator r takes ROW r of each K_i", verdict, det, n, required=verdict is not None)
        for lp in walk_no_nested(cc.node):
            if isinstance(lp, ast.For) and any(x is n for x in ast.walk(lp)):
                itl = Nc(lp.iter)
                okl = itl[0] == "call" and itl[1] == "builtins.range" and len(itl[2]) == 1 and "shape" in repr(itl[2][0]) and "('c', 0)" in repr(itl[2][0])
                same = rterm is not None and isinstance(lp.target, ast.Name) and rterm == ("n", lp.target.id)
                ctx.ob("R-ENUM", cc, "r ranges over all rows", bool(okl and same),
                       "one environment operator per output row" if okl and same else f"row loop iterates {show(itl)}", lp)
        stack_ok = m.resolve_call(cc, n).key in ("numpy.vstack", "numpy.row_stack")
        ctx.ob("R-ENUM", cc, "rows are stacked vertically (environment index = row index)", stack_ok or None,
               "vstack" if stack_ok else "stacking function changed", n, required=False)
    if not found:
        ctx.ob("R-ENUM", cc, "stack reads K_i for every i", None, "construction not recognised", required=False)
    r_effect_free(ctx, cc, ["kraus_ops"])
    from ..rules import r_dtype_buffer
    ctx.rule("R-DTYPE", "no result buffer typed after one Kraus operator receives the others (silent dtype narrowing)")
    r_dtype_buffer(ctx, cc, "kraus_ops")
