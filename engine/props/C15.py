"""C15 -- PPT and separability verdicts are sound (structural clauses)."""

from __future__ import annotations

import ast

from .. import flow as flw
from ..base import check_call_bases
from ..dataflow import origins
from ..model import DEFAULT, MISSING, calls_in, unparse, walk_no_nested
from ..norm import Normalizer, calls_to, kwarg, mentions_name, show, subterms
from ..rules import calls_from, r_effect_free, r_kind_int, r_live, r_thread, return_terms
from .C13 import schatten_class

# one-sided entanglement criteria of is_separable: predicate on the normalised governing condition, required polarity
def _crit_not_ppt(t):
    return t == ("not", ("n", "is_ppt_state")) or (t[0] == "not" and t[1][0] == "call" and str(t[1][1]).endswith("is_ppt"))


def _crit_realign(t):
    return t[0] == "cmp" and t[1] == "<" and "realignment" in repr(t[3]) and "trace_norm" in repr(t[3]) and "realignment" not in repr(t[2])


def _crit_posmap(t):
    return t[0] == "not" and t[1][0] == "call" and str(t[1][1]).endswith("is_positive_semidefinite") and "partial_channel" in repr(t[1])


def _crit_symext(t):
    return t[0] == "call" and t[1] == "builtins.any" and "has_symmetric_extension" in repr(t)


ENTANGLED_CRITERIA = [("negative partial transpose", _crit_not_ppt, True), ("realignment norm exceeds the separable bound", _crit_realign, True),
                      ("positive map image not PSD", _crit_posmap, True), ("no symmetric extension", _crit_symext, False)]


def _plucker_table(ctx, f):
    """The 6x6 determinant of Pluecker coordinates of the 3x3 rank-4 criterion is a literal data table; it is compared entry by entry
    (as normalised terms) with the reference table of the confirmed tree (engine/props/tables/plucker_3x3.json), and the coordinates
    p[j,k,n,m] must be the 4x4 minors of the range basis on rows j<k<n<m."""
    import json
    import os
    m = ctx.model
    N = Normalizer(m, f, inline=False)
    path = os.path.join(os.path.dirname(os.path.abspath(__file__)), "tables", "plucker_3x3.json")
    try:
        ref = json.load(open(path))["rows"]
    except (OSError, KeyError, ValueError):
        ref = None
    tab = node = None
    for n in walk_no_nested(f.node):
        if isinstance(n, ast.Call) and getattr(n.func, "attr", "") == "det" and n.args and isinstance(n.args[0], ast.Call) and n.args[0].args and isinstance(n.args[0].args[0], ast.List):
            rows = n.args[0].args[0].elts
            if len(rows) == 6 and all(isinstance(r, ast.List) and len(r.elts) == 6 for r in rows):
                tab, node = [[repr(N(e)) for e in r.elts] for r in rows], n
    key = "3x3 rank-4 criterion: the 6x6 table of Pluecker-coordinate expressions equals the reference table"
    if tab is None or ref is None:
        ctx.ob("R-PRED", f, key, None, "table not found" if tab is None else "reference table missing", required=False)
    else:
        diff = [(i, j) for i in range(6) for j in range(6) if tab[i][j] != ref[i][j]]
        ctx.ob("R-PRED", f, key, not diff, "36 entries identical" if not diff else
               f"entry (row {diff[0][0]}, column {diff[0][1]}) differs from the reference ({len(diff)} entr{'y' if len(diff) == 1 else 'ies'} changed): F no longer vanishes on separable "
               "rank-4 states, which are then declared entangled", node)
    # the coordinates themselves: p[j-1, k-1, n-1, m-1] = det(q[[j-1, k-1, n-1, m-1], :]) under j < k < n < m
    st = [n for n in walk_no_nested(f.node) if isinstance(n, ast.Assign) and isinstance(n.targets[0], ast.Subscript) and isinstance(n.targets[0].value, ast.Name) and n.targets[0].value.id == "p"
          and isinstance(n.value, ast.Call) and getattr(n.value.func, "attr", "") == "det"]
    if st:
        tg = [unparse(e) for e in st[0].targets[0].slice.elts] if isinstance(st[0].targets[0].slice, ast.Tuple) else []
        src = st[0].value.args[0] if st[0].value.args else None
        rows_ = [unparse(e) for e in src.slice.elts[0].elts] if isinstance(src, ast.Subscript) and isinstance(src.slice, ast.Tuple) and isinstance(src.slice.elts[0], ast.List) else []
        okc = bool(tg) and tg == rows_
        ctx.ob("R-ENUM", f, "Pluecker coordinate p[j,k,n,m] is the minor of the range basis on exactly the rows (j,k,n,m)", okc,
               "store index == selected rows" if okc else f"p[{', '.join(tg)}] is filled with the minor on rows [{', '.join(rows_)}]", st[0])


def _range_basis(ctx, f):
    """The Pluecker coordinates are minors of a basis of the RANGE of the state (rank-4 criterion).  Accepted: scipy.linalg.orth(state); the
    eigenvectors of the `rank` LARGEST eigenvalues.  numpy.linalg.eigh sorts ascending: `vecs[:, :rank]` are then kernel vectors."""
    m = ctx.model
    st = [n for n in walk_no_nested(f.node) if isinstance(n, ast.Assign) and isinstance(n.targets[0], ast.Subscript) and isinstance(n.targets[0].value, ast.Name) and n.targets[0].value.id == "p"
          and isinstance(n.value, ast.Call) and getattr(n.value.func, "attr", "") == "det"]
    key = "the minors are taken of a basis of the range of the state"
    if not st or not st[0].value.args or not isinstance(st[0].value.args[0], ast.Subscript) or not isinstance(st[0].value.args[0].value, ast.Name):
        ctx.ob("R-PRED", f, key, None, "minor expression not recognised", required=False)
        return
    qn = st[0].value.args[0].value.id
    dfs = [n for n in walk_no_nested(f.node) if isinstance(n, ast.Assign) and len(n.targets) == 1 and isinstance(n.targets[0], ast.Name) and n.targets[0].id == qn]
    if len(dfs) != 1:
        ctx.ob("R-PRED", f, key, None, f"`{qn}` has {len(dfs)} definitions", required=False)
        return
    v = dfs[0].value
    if isinstance(v, ast.Call) and (m.resolve_call(f, v).key or "").endswith("linalg.orth") and v.args and unparse(v.args[0]) == "state":
        ctx.ob("R-PRED", f, key, True, "orth(state)", dfs[0])
        return
    ok, why = None, f"`{unparse(dfs[0])[:60]}` not recognised as a range basis"
    if isinstance(v, ast.Subscript) and isinstance(v.value, ast.Name) and isinstance(v.slice, ast.Tuple) and len(v.slice.elts) == 2 and isinstance(v.slice.elts[1], ast.Slice):
        vecs = v.value.id
        sl = v.slice.elts[1]
        src = None
        for n in walk_no_nested(f.node):
            if isinstance(n, ast.Assign) and isinstance(n.targets[0], (ast.Tuple, ast.List)) and len(n.targets[0].elts) == 2 and isinstance(n.targets[0].elts[1], ast.Name) \
                    and n.targets[0].elts[1].id == vecs and isinstance(n.value, ast.Call):
                src = m.resolve_call(f, n.value).key or ""
        rebound = sum(1 for n in walk_no_nested(f.node) if isinstance(n, ast.Assign) and any(isinstance(t, ast.Name) and t.id == vecs for t in n.targets))
        if src and src.endswith(("linalg.eigh",)) and not rebound:
            first = sl.lower is None and sl.upper is not None and not (isinstance(sl.upper, ast.UnaryOp))
            last = sl.upper is None and isinstance(sl.lower, ast.UnaryOp) and isinstance(sl.lower.op, ast.USub)
            if first:
                ok, why = False, (f"`{unparse(dfs[0])[:60]}`: eigh returns the eigenvalues in ASCENDING order, so the first {unparse(sl.upper)} columns are eigenvectors of the "
                                  "smallest eigenvalues -- for a rank-deficient state they span its kernel, not its range; the criterion's determinant is then generically "
                                  "non-zero and separable rank-4 states are declared entangled")
            elif last:
                ok, why = True, "eigenvectors of the largest eigenvalues (eigh, last columns)"
    ctx.ob("R-PRED", f, key, ok, why, dfs[0], required=ok is not None)


def _reduced_state_roles(ctx, f):
    """rho_A (x) rho_B: the first Kronecker factor is the reduced state of the FIRST subsystem (trace over [1]), the second that of
    the second (trace over [0]).  Locals are resolved through direct assignment and through tuple-unpacking of a
    comprehension / generator over range(2) (element i is the body with the loop variable = i)."""
    m = ctx.model

    def traced(name):
        for n in walk_no_nested(f.node):
            if not isinstance(n, ast.Assign) or len(n.targets) != 1:
                continue
            tg, v = n.targets[0], n.value
            if isinstance(tg, ast.Name) and tg.id == name and isinstance(v, ast.Call) and m.resolve_call(f, v).key.endswith("partial_trace.partial_trace"):
                b = m.bind(v, m.resolve_call(f, v).func)
                s_ = b.get("sys")
                if isinstance(s_, (ast.List, ast.Tuple)) and len(s_.elts) == 1 and isinstance(s_.elts[0], ast.Constant):
                    return s_.elts[0].value
                if isinstance(s_, ast.Constant):
                    return s_.value
                return "?"
            if isinstance(tg, (ast.Tuple, ast.List)) and any(isinstance(e, ast.Name) and e.id == name for e in tg.elts) and isinstance(v, (ast.GeneratorExp, ast.ListComp)) \
                    and len(v.generators) == 1 and isinstance(v.generators[0].target, ast.Name) and isinstance(v.elt, ast.Call) \
                    and m.resolve_call(f, v.elt).key.endswith("partial_trace.partial_trace"):
                pos = [i for i, e in enumerate(tg.elts) if isinstance(e, ast.Name) and e.id == name][0]
                it = v.generators[0].iter
                vals = None
                if isinstance(it, ast.Call) and isinstance(it.func, ast.Name) and it.func.id == "range" and len(it.args) == 1 and isinstance(it.args[0], ast.Constant):
                    vals = list(range(it.args[0].value))
                elif isinstance(it, (ast.List, ast.Tuple)) and all(isinstance(e, ast.Constant) for e in it.elts):
                    vals = [e.value for e in it.elts]
                if vals is None or pos >= len(vals):
                    return "?"
                b = m.bind(v.elt, m.resolve_call(f, v.elt).func)
                s_ = b.get("sys")
                lv = v.generators[0].target.id
                if isinstance(s_, (ast.List, ast.Tuple)) and len(s_.elts) == 1:
                    e = s_.elts[0]
                    if isinstance(e, ast.Name) and e.id == lv:
                        return vals[pos]
                    if isinstance(e, ast.BinOp) and isinstance(e.op, ast.Sub) and isinstance(e.left, ast.Constant) and isinstance(e.right, ast.Name) and e.right.id == lv:
                        return e.left.value - vals[pos]
                return "?"
        return None

    n_k = 0
    for c in walk_no_nested(f.node):
        if isinstance(c, ast.Call) and m.resolve_call(f, c).key == "numpy.kron" and len(c.args) == 2 and all(isinstance(a, ast.Name) for a in c.args):
            ta, tb = traced(c.args[0].id), traced(c.args[1].id)
            if ta is None or tb is None:
                continue
            n_k += 1
            ok = None if "?" in (ta, tb) else (ta == 1 and tb == 0)
            ctx.ob("R-BIND", f, "rho_A (x) rho_B: first factor traces out subsystem 1, second traces out subsystem 0", ok,
                   f"kron({c.args[0].id} = Tr_[1], {c.args[1].id} = Tr_[0])" if ok else
                   f"`{unparse(c)}`: `{c.args[0].id}` traces out subsystem {ta} and `{c.args[1].id}` subsystem {tb}: the product of the marginals is assembled as rho_B (x) rho_A, "
                   "so states with different marginals fail the comparison with rho", c, required=ok is not None)
    if not n_k:
        ctx.ob("R-BIND", f, "rho_A (x) rho_B: first factor traces out subsystem 1, second traces out subsystem 0", None, "no kron of two reduced states found", required=False)


def run(ctx):  # noqa: C901
    m = ctx.model
    ctx.rule("R-PRED", "is_npt == not is_ppt with all arguments forwarded; verdict governance of is_separable (dominance + control dependence)")
    ctx.rule("R-TOL", "the PPT tolerance is an absolute eigenvalue tolerance")
    ctx.rule("R-THREAD", "dim / tol / level reach every helper")
    ctx.rule("R-KIND", "declared int dimension has a path")
    ctx.rule("R-SHAPE", "operands of @ have equal symbolic shapes; no certain TypeError on a verdict path")
    ctx.rule("R-BASE", "1-based party index decremented once for partial_transpose; partial_channel gets 1-based")
    ctx.rule("R-NORM", "separable ball uses the Frobenius (Schatten-2) norm")
    ip, inp = m.func("is_ppt.is_ppt"), m.func("is_npt.is_npt")
    # ---- is_npt = not is_ppt ------------------------------------------------------------------
    rets, N = return_terms(m, inp, inline=True)
    for rn, facts, t in rets:
        ok = t[0] == "not" and t[1][0] == "call" and str(t[1][1]).endswith("is_ppt.is_ppt")
        fw = ok and all(dict(t[1][3]).get(k) == ("n", k) for k in ("mat", "sys", "dim", "tol"))
        ctx.ob("R-PRED", inp, "is_npt == not is_ppt(mat, sys, dim, tol)", bool(fw), "negation with all four arguments forwarded" if fw else
               ("the negation is lost" if not ok else f"arguments not forwarded: {show(t)[:90]}"), rn)
    # ---- is_ppt ---------------------------------------------------------------------------------
    og = origins(ip)
    for c, cal in calls_from(m, ip, "is_positive_semidefinite.is_positive_semidefinite"):
        b = m.bind(c, cal.func)
        a_at, a_rt = b.get("atol"), b.get("rtol")
        at_ok = isinstance(a_at, ast.AST) and og.derives_from(a_at, "tol")
        rt_bad = isinstance(a_rt, ast.AST) and og.derives_from(a_rt, "tol")
        ctx.ob("R-TOL", ip, "tol->is_positive_semidefinite.atol (absolute eigenvalue tolerance)", at_ok and not rt_bad,
               "eigenvalues are compared with -tol" if at_ok and not rt_bad else
               ("`tol` is bound to `rtol`: the eigenvalue test x >= -abs(atol) keeps its default and ignores the caller's tolerance" if rt_bad else "`tol` does not reach the eigenvalue tolerance"), c)
        mat = b.get("mat")
        Ni = Normalizer(m, ip, inline=True)
        t = Ni(mat) if isinstance(mat, ast.AST) else None
        okm = t is not None and t[0] == "call" and str(t[1]).endswith("partial_transpose") and dict(t[3]).get("rho") == ("n", "mat")
        ctx.ob("R-PRED", ip, "verdict == PSD(partial transpose of mat)", bool(okm), "is_positive_semidefinite(partial_transpose(mat, ...))" if okm else f"operand {show(t)[:60] if t else '?'}", c)
    check_call_bases(ctx, ip, "partial_transpose.partial_transpose", "sys")
    r_thread(ctx, ip, "dim", "partial_transpose.partial_transpose")
    # the scalar-dim convention of the helper the verdict is computed with (is_ppt(rho, sys, d) means the cut [d, N/d])
    from ..rules import r_scalar_dim_bipartite, r_scalar_dim_expand
    ptf = m.func("partial_transpose.partial_transpose")
    r_scalar_dim_expand(ctx, ptf, chain=["is_ppt", "partial_transpose"])
    r_scalar_dim_bipartite(ctx, ptf, chain=["is_ppt", "partial_transpose"])
    p = ip.param("sys")
    ctx.ob("R-BASE", ip, "default sys == 2 (1-based second party)", isinstance(p.default, ast.Constant) and p.default.value == 2, "second party by default")
    dflt = [n for n in walk_no_nested(ip.node) if isinstance(n, ast.Assign) and isinstance(n.targets[0], ast.Name) and n.targets[0].id == "tol"]
    okt = bool(dflt) and unparse(dflt[0].value) in ("np.sqrt(eps)", "numpy.sqrt(eps)", "eps ** 0.5", "eps**0.5")
    ctx.ob("R-TOL", ip, "default tolerance sqrt(machine eps)", okt, "np.sqrt(eps)" if okt else "default tolerance changed")
    r_kind_int(ctx, ip, "dim")
    r_kind_int(ctx, inp, "dim")
    r_effect_free(ctx, ip, ["mat", "dim"])

    # ---- is_separable ----------------------------------------------------------------------------
    isep = m.func("is_separable.is_separable")
    _governance(ctx, isep)
    r_thread(ctx, isep, "dim", "has_symmetric_extension.has_symmetric_extension")
    r_thread(ctx, isep, "level", "has_symmetric_extension.has_symmetric_extension")
    r_thread(ctx, isep, "dim", "is_ppt.is_ppt", min_sites=1) if False else None
    for c, cal in calls_from(m, isep, "is_ppt.is_ppt"):
        b = m.bind(c, cal.func)
        if isinstance(b.get("mat"), ast.Name) and b["mat"].id == "state":
            okd = isinstance(b.get("dim"), ast.Name) and b["dim"].id == "dim"
            oktl = isinstance(b.get("tol"), ast.Name) and b["tol"].id == "tol"
            ctx.ob("R-THREAD", isep, "is_ppt(state, 2, dim, tol)", okd and oktl, "dim and tol forwarded to the PPT test" if okd and oktl else "the PPT test of the state ignores the caller's dim or tol", c)
    for callee in ("partial_trace.partial_trace", "realignment.realignment", "schmidt_rank.schmidt_rank"):
        r_thread(ctx, isep, "dim", callee)
    for f in m.functions.values():
        if f is isep:
            check_call_bases(ctx, f, "partial_channel.partial_channel", "sys")
    _reduced_state_roles(ctx, isep)
    _plucker_table(ctx, isep)
    _range_basis(ctx, isep)
    _shape_matmul(ctx, isep)
    _certain_type_errors(ctx, isep)
    r_kind_int(ctx, isep, "dim")
    r_effect_free(ctx, isep, ["state", "dim"])
    from ..rules import r_guard_pred
    r_guard_pred(ctx, isep, "is_positive_semidefinite", "state")

    # ---- the operator under test stays the operator under test -----------------------------------------
    from ..rules import r_operand_preserved
    for fn_, pn_ in (("is_separable.is_separable", "state"), ("is_ppt.is_ppt", "mat"), ("has_symmetric_extension.has_symmetric_extension", "rho"),
                     ("is_npt.is_npt", "mat")):
        r_operand_preserved(ctx, m.func(fn_), pn_)

    # ---- has_symmetric_extension ------------------------------------------------------------------
    hs = m.func("has_symmetric_extension.has_symmetric_extension")
    r_thread(ctx, hs, "dim", "symmetric_extension_hierarchy.symmetric_extension_hierarchy")
    r_thread(ctx, hs, "level", "symmetric_extension_hierarchy.symmetric_extension_hierarchy")
    r_thread(ctx, hs, "dim", "is_ppt.is_ppt")
    r_thread(ctx, hs, "rho", "symmetric_extension_hierarchy.symmetric_extension_hierarchy", formal="states")
    r_kind_int(ctx, hs, "dim")
    rets, Nh = return_terms(m, hs, inline=False)
    fin = rets[-1][2] if rets else None
    okv = fin is not None and fin[0] == "not" and fin[1][0] == "call" and fin[1][1] == "numpy.isclose" and kwarg(fin[1], "atol") == ("n", "tol")
    ctx.ob("R-TOL", hs, "SDP verdict compares with tol as absolute tolerance", bool(okv), "isclose(..., 0, atol=tol)" if okv else "final comparison does not use tol as atol")
    # two-qubit closed form (level 2, no PPT): sqrt(det rho) of a rank-deficient state needs the clip, and the inequality is an
    # equality on pure product states, so it has to be compared up to tol (F54)
    from ..rules import r_domain_clamped
    r_domain_clamped(ctx, hs)
    closed = [rn for rn, facts, t in rets if "numpy.linalg.det" in repr(Normalizer(m, hs, inline=True)(rn.value))] if rets else []
    if closed:
        t = Normalizer(m, hs, inline=True)(closed[0].value)
        oktol = t[0] == "cmp" and mentions_name(t, "tol")
        ctx.ob("R-TOL", hs, "two-qubit closed form is compared up to tol", oktol,
               "tol enters the inequality" if oktol else
               f"`{unparse(closed[0].value)[:70]}` is an exact >=: for a pure product state both sides are 1 up to rounding, so about half of them are declared not extendible", closed[0])
    else:
        ctx.ob("R-TOL", hs, "two-qubit closed form is compared up to tol", None, "closed-form return not recognised", required=False)
    # F13: a discrimination optimum of a literal ONE-element ensemble is 1 for every input (the single state is always identified), so a
    # verdict computed from it is a constant function -- here `not isclose(1 - min(value, 1), 0)` == False for every rho
    for callee in ("symmetric_extension_hierarchy.symmetric_extension_hierarchy", "state_distinguishability.state_distinguishability", "ppt_distinguishability.ppt_distinguishability"):
        for c, cal in calls_from(m, hs, callee):
            b = m.bind(c, cal.func)
            a = b.get("states") if "states" in b else b.get("vectors")
            single = isinstance(a, (ast.List, ast.Tuple)) and len(a.elts) == 1 and not isinstance(a.elts[0], ast.Starred)
            ctx.ob("R-PRED", hs, "the extension verdict is not computed from the discrimination value of a one-element ensemble", not single,
                   "ensemble has more than one member" if not single else
                   f"`{unparse(c)[:80]}` discriminates the single state `{unparse(a.elts[0])}`: that optimum is 1 for every input (one state is always identified, its measurement operator is the "
                   "identity), so the returned verdict does not depend on `rho` -- the SDP branch answers False for every state", c)
    # ---- separable ball ------------------------------------------------------------------------------
    sb = m.func("in_separable_ball.in_separable_ball")
    rets, Ns = return_terms(m, sb, inline=False)
    for rn, facts, t in rets:
        ncs = calls_to(t, "numpy.linalg.norm")
        if ncs:
            cls = [schatten_class(c) for c in ncs]
            ctx.ob("R-NORM", sb, "Gurvits-Barnum ball measured in the Frobenius norm", all(c == "2" for c in cls), "both norms 'fro'" if all(c == "2" for c in cls) else f"norm classes {cls}", rn)
            ok = t[0] == "cmp" and t[1] == "<=" and t[3] == ("c", 1) and t[2][0] == "call" and t[2][1] == "numpy.linalg.norm"
            inner = t[2][2][0] if ok else None
            okf = ok and inner[0] == "+" and any(x[0] == "neg" and x[1][0] == "call" and x[1][1] in ("numpy.eye", "numpy.identity") for x in inner[1]) and \
                any(x[0] == "/" and x[1] == ("n", "mat") and x[2][0] == "**" and x[2][2] == ("c", 2) for x in inner[1])
            ctx.ob("R-PRED", sb, "|| rho/||rho||_F^2 - I ||_F <= 1", bool(okf), "Gurvits-Barnum condition" if okf else f"condition {show(t)[:100]}", rn)
    from .. import pmatch
    nrm = pmatch.tri(pmatch.find(sb.node, ["_X = _X / np.trace(_X)", "_X /= np.trace(_X)", "_Y = _X / np.trace(_X)"]), bool(pmatch.find(sb.node, ["_A / np.trace(_B)"])) or any(isinstance(n, ast.AugAssign) and isinstance(n.op, ast.Div) for n in walk_no_nested(sb.node)))
    ctx.ob("R-PRED", sb, "operator normalised to unit trace before the test", nrm, "X / trace(X)" if nrm else "trace normalisation missing" if nrm is False else "np.trace is used, but not as X / trace(X)", required=nrm is not None)


def _governance(ctx, f):
    m = ctx.model
    N = Normalizer(m, f, inline=False)
    res = flw.flow(f.node)
    n_true = n_false = 0
    for rn, facts in res.returns:
        if rn is None or rn.value is None:
            continue
        v = N(rn.value)
        conds = [(N(t), pol, t) for t, pol in flw.conds(facts)]
        # (i) every possibly-truthy verdict is dominated by the PPT test having passed
        if v != ("c", False):
            passed_ppt = any(_crit_not_ppt(t) and not pol for t, pol, _ in conds)
            triv = any(t == ("cmp", "==", ("c", 1), ("n", "min_dim")) and pol for t, pol, _ in conds)
            n_true += 1
            ctx.ob("R-PRED", f, f"separable verdict `{unparse(rn.value)[:40]}` @{_anchor(conds)} requires a positive partial transpose", passed_ppt or triv,
                   "dominated by the PPT test" if passed_ppt else "one-dimensional factor (partial transposition is the identity)" if triv else
                   "this return can declare a state separable although its partial transpose is negative (the PPT test does not dominate it)", rn)
        # (ii) every `entangled` verdict is governed by a one-sided entanglement criterion
        if v == ("c", False):
            n_false += 1
            inner = [(t, pol) for t, pol, node in conds]
            gov = None
            # innermost governing condition that is a criterion
            for t, pol in reversed(inner):
                for name, pred, want in ENTANGLED_CRITERIA:
                    if pred(t):
                        gov = (name, pol == want, t)
                        break
                if gov:
                    break
            if gov is None:
                ctx.ob("R-PRED", f, f"entangled verdict @{_anchor(conds)} is governed by a one-sided entanglement criterion", False,
                       "`return False` is reachable without any criterion that only entangled states can meet: separable states may be declared entangled", rn)
            else:
                # nothing between the criterion and the return other than regime selectors
                ctx.ob("R-PRED", f, f"entangled verdict @{_anchor(conds)} is governed by a one-sided entanglement criterion", gov[1],
                       f"governed by: {gov[0]}" if gov[1] else f"the criterion `{gov[0]}` governs this return with the wrong polarity", rn)
    ctx.ob("R-PRED", f, "verdict sites enumerated", n_true >= 8 and n_false >= 5, f"{n_true} separable-side and {n_false} entangled-side returns examined")
    # the PPT test is on the input state with party 2
    # two-sided site (rank-4 3x3): a comparison
    two = [rn for rn, facts in res.returns if rn is not None and isinstance(rn.value, ast.Compare)]
    ctx.notes.append(f"two-sided verdict sites (return of a comparison): {len(two)} (rank-4 3x3 determinant test)")


def _anchor(conds):
    """Stable label of a return site: the innermost governing condition, abbreviated."""
    if not conds:
        return "top"
    t, pol, node = conds[-1]
    s = unparse(node)
    for k in ("is_ppt_state", "realignment", "partial_channel", "has_symmetric_extension", "in_separable_ball", "schmidt_rank", "matrix_rank", "X_2n_ppt_check",
              "np.linalg.norm(B)", "lam[0]", "lam[1]", "min_dim == 1", "prod_dim", "state_rank == 4"):
        if k in s:
            extra = ""
            if k == "realignment":
                extra = "-kron" if "np.kron" in s else ""
            if k == "partial_channel":
                extra = "-breuer" if "p + 1" in s else "-ha"
            return k + extra + ("" if pol else ":else")
    return s[:30] + ("" if pol else ":else")


def _shape_matmul(ctx, f):
    """Symbolic shapes of reduced states: partial_trace(X, [k], D) on a bipartite D has extent D[1-k]; operands of @ must agree."""
    m = ctx.model
    N = Normalizer(m, f, inline=True)
    def ext(t):
        # strip entrywise powers / conj / T
        while t[0] in ("**", "T", "conj", "dag", "neg") :
            t = t[1]
        if t[0] == "call" and str(t[1]).endswith("partial_trace.partial_trace"):
            d = dict(t[3])
            s, D = d.get("sys"), d.get("dim")
            if s is not None and s[0] == "list" and len(s) == 2 and s[1][0] == "c" and D is not None and D[0] == "n":
                return ("sub", D, ("c", 1 - s[1][1]))
        return None
    n = 0
    for node in walk_no_nested(f.node):
        if isinstance(node, ast.BinOp) and isinstance(node.op, ast.MatMult):
            t = N(node)
            if t[0] != "@":
                continue
            exts = [ext(x) for x in t[1]]
            if all(e is not None for e in exts) and len(exts) >= 2:
                n += 1
                ok = all(e == exts[0] for e in exts)
                ctx.ob("R-SHAPE", f, "operands of @ built from reduced states have equal extents", ok,
                       "same party" if ok else
                       f"`{unparse(node)[:70]}` multiplies a {show(exts[0])} x {show(exts[0])} matrix with a {show(exts[1])} x {show(exts[1])} matrix: "
                       "a ValueError whenever the two local dimensions differ (and `**` is an entrywise power)", node)
    if n == 0:
        ctx.ob("R-SHAPE", f, "operands of @ built from reduced states have equal extents", None, "no product of reduced states", required=False)


def _certain_type_errors(ctx, f):
    """R-SHAPE(f): a call whose callee is a local bound only to a list / array value; a true division inside a shape tuple."""
    m = ctx.model
    from ..model import local_names
    found = []
    # names assigned only non-callable values
    assigns = {}
    for n in walk_no_nested(f.node):
        if isinstance(n, ast.Assign):
            for t in n.targets:
                if isinstance(t, ast.Name):
                    assigns.setdefault(t.id, []).append(n.value)
    def noncallable(v):
        if isinstance(v, (ast.List, ast.ListComp, ast.Tuple, ast.Dict, ast.Constant, ast.BinOp, ast.Compare)):
            return True
        if isinstance(v, ast.Call):
            k = m.resolve_call(f, v).key
            return k in ("numpy.array", "builtins.int", "builtins.float", "builtins.list", "numpy.round", "numpy.int_", "builtins.min", "builtins.max", "numpy.prod")
        return False
    for n in walk_no_nested(f.node):
        if isinstance(n, ast.Call) and isinstance(n.func, ast.Name):
            nm = n.func.id
            if (nm in assigns or f.param(nm) is not None) and nm not in m.modules.get(f.module.name).ns and nm in local_names(f.node):
                vals = assigns.get(nm, [])
                p = f.param(nm)
                if vals and all(noncallable(v) for v in vals) and (p is None or (p.annotation is not None and "Callable" not in unparse(p.annotation))):
                    found.append((n, f"`{unparse(n)}` calls `{nm}`, which is only ever bound to a list / array / number here (TypeError when reached)"))
        if isinstance(n, ast.Call) and m.resolve_call(f, n).key in ("numpy.ones", "numpy.zeros", "numpy.empty", "numpy.full") and n.args:
            sh = n.args[0]
            els = sh.elts if isinstance(sh, ast.Tuple) else [sh]
            for e in els:
                if isinstance(e, ast.BinOp) and isinstance(e.op, ast.Div):
                    found.append((n, f"`{unparse(n)[:60]}` passes the float `{unparse(e)}` as an array extent (TypeError when reached)"))
    if found:
        for n, msg in found[:1]:
            ctx.ob("R-SHAPE", f, "no statically certain TypeError on a verdict path", False, msg + f" [{len(found)} such constructs in this block]", n)
    else:
        ctx.ob("R-SHAPE", f, "no statically certain TypeError on a verdict path", True, "none found")
