"""Structural clauses on explicitly constructed state families (trine, Pusey-Barrett-Rudolph) -- used by C11.

lincomb(term, atom_of) turns a normalised term into {atom: (sign, sorted scalar factors)}: the coefficient of each basis
vector as a monomial.  Only sums of (scalar monomial) x (one basis vector) are recognised; anything else -> None."""

from __future__ import annotations

import ast
from fractions import Fraction

from ..model import unparse, walk_no_nested
from ..norm import Normalizer, show
from ..rules import return_terms


def _basis_atom(t):
    """index k when the term is the k-th standard basis vector of C^2, else None."""
    if t[0] == "call" and str(t[1]).endswith("basis.basis"):
        kw = dict(t[3])
        args = list(t[2])
        d = kw.get("dim", args[0] if args else None)
        p = kw.get("pos", args[1] if len(args) > 1 else None)
        if d == ("c", 2) and p is not None and p[0] == "c":
            return p[1]
    if t[0] == "sub" and t[1][0] == "call" and str(t[1][1]).endswith("standard_basis.standard_basis") and t[2][0] == "c":
        kw = dict(t[1][3])
        args = list(t[1][2])
        d = kw.get("dim", args[0] if args else None)
        if d == ("c", 2):
            return t[2][1]
    return None


def lincomb(t, atom_of=_basis_atom):
    a = atom_of(t)
    if a is not None:
        return {a: (1, ())}
    if t[0] == "neg":
        d = lincomb(t[1], atom_of)
        return None if d is None else {k: (-s, fs) for k, (s, fs) in d.items()}
    if t[0] == "+":
        out = {}
        for x in t[1]:
            d = lincomb(x, atom_of)
            if d is None:
                return None
            for k, v in d.items():
                if k in out:
                    return None
                out[k] = v
        return out
    if t[0] == "*":
        vec = [x for x in t[1] if lincomb(x, atom_of) is not None]
        if len(vec) != 1:
            return None
        scal = [x for x in t[1] if x is not vec[0]]
        sign = 1
        fs = []
        for s_ in scal:
            if s_[0] == "c" and isinstance(s_[1], (int, float, Fraction)) and s_[1] < 0:
                sign = -sign
                s_ = ("c", -s_[1])
            if s_ != ("c", 1):
                fs.append(s_)
        d = lincomb(vec[0], atom_of)
        return {k: (sg * sign, tuple(sorted(fs2 + tuple(fs), key=repr))) for k, (sg, fs2) in d.items()}
    return None


def check_trine(ctx):
    m = ctx.model
    f = m.func("trine.trine")
    rets, _ = return_terms(m, f, inline=True)
    ok = False
    det = "return value is not a list of three explicit vectors"
    for _rn, _facts, t in rets:
        if t[0] != "list" or len(t) != 4:
            continue
        cs = [lincomb(x) for x in t[1:]]
        if any(c is None for c in cs):
            det = "a trine vector is not a linear combination of the two basis vectors"
            continue
        half, s3 = ("c", Fraction(1, 2)), ("call", "numpy.sqrt", (("c", 3),), ())
        want_mag = {0: tuple(sorted([half], key=repr)), 1: tuple(sorted([half, s3], key=repr))}
        first = set(cs[0]) == {0} and cs[0][0][1] == ()
        mags = all(set(c) == {0, 1} and c[0][1] == want_mag[0] and c[1][1] == want_mag[1] for c in cs[1:])
        # relative sign between the e0 and e1 components must differ between the 2nd and 3rd vector (+-120 degrees)
        rel = mags and (cs[1][0][0] * cs[1][1][0]) == -(cs[2][0][0] * cs[2][1][0])
        ok = bool(first and mags and rel)
        det = "|0>, -(|0> + sqrt3 |1>)/2, -(|0> - sqrt3 |1>)/2 up to signs of whole vectors" if ok else \
            f"components {[{k: (s, [show(x) for x in fs]) for k, (s, fs) in c.items()} for c in cs]} are not three unit vectors 120 degrees apart"
    ctx.ob("R-ENUM", f, "three real unit vectors at mutual angle 120 degrees", ok, det)


def _slice_of(node, base: str):
    """classify an expression as a part of the sequence `base`: ('all',) | ('idx', k) | ('slice', lo, hi) | None"""
    if isinstance(node, ast.Name) and node.id == base:
        return ("all",)
    if isinstance(node, ast.Subscript) and isinstance(node.value, ast.Name) and node.value.id == base:
        s = node.slice
        def c(x):
            if x is None:
                return None
            try:
                return ast.literal_eval(x)
            except Exception:  # noqa: BLE001
                return "?"
        if isinstance(s, ast.Slice):
            if s.step is not None:
                return ("slice", "?", "?")
            return ("slice", c(s.lower), c(s.upper))
        v = c(s)
        return ("idx", v)
    return None


def check_pbr(ctx):
    m = ctx.model
    f = m.func("pusey_barrett_rudolph.pusey_barrett_rudolph")
    N = Normalizer(m, f, inline=True)
    # single-system states
    psi = None
    for n in walk_no_nested(f.node):
        if isinstance(n, ast.Assign) and isinstance(n.targets[0], ast.Name) and n.targets[0].id == "psi":
            psi = N(n.value)
    ok = False
    det = "`psi` (the two single-system states) not found as a two-element list"
    if psi is not None and psi[0] == "list" and len(psi) == 3:
        cs = [lincomb(x) for x in psi[1:]]
        if all(c is not None and set(c) == {0, 1} for c in cs):
            half_theta = ("*", (("c", Fraction(1, 2)), ("n", "theta")))
            cos, sin = ("call", "numpy.cos", (half_theta,), ()), ("call", "numpy.sin", (half_theta,), ())
            mags = all(c[0][1] == (cos,) and c[1][1] == (sin,) for c in cs)
            rel = (cs[0][0][0] * cs[0][1][0]) == -(cs[1][0][0] * cs[1][1][0])
            ok = bool(mags and rel)
            det = "psi_0 = cos(t/2)|0> + sin(t/2)|1>, psi_1 = cos(t/2)|0> - sin(t/2)|1>" if ok else \
                f"single-system states are {[{k: (s, [show(x) for x in fs]) for k, (s, fs) in c.items()} for c in cs]}"
        else:
            det = "psi_0 / psi_1 are not combinations of the two basis vectors"
    ctx.ob("R-ENUM", f, "psi_b == cos(theta/2)|0> +/- sin(theta/2)|1>, opposite relative signs for b = 0, 1", ok, det)

    # the family ranges over all bit strings of length n
    outer = None
    for n in walk_no_nested(f.node):
        if isinstance(n, ast.For):
            it = N(n.iter)
            if it[0] == "call" and it[1] == "builtins.list" and it[2]:
                it = it[2][0]
            if it[0] == "call" and it[1] == "itertools.product":
                outer = (n, it)
    if outer is None:
        ctx.ob("R-ENUM", f, "one state per bit string in {0,1}^n", None, "enumeration loop not recognised", required=False)
        return
    loop, it = outer
    kw = dict(it[3])
    okr = len(it[2]) == 1 and it[2][0] in (("list", ("c", 0), ("c", 1)), ("tuple", ("c", 0), ("c", 1)), ("call", "builtins.range", (("c", 2),), ())) and kw.get("repeat") == ("n", "n")
    ctx.ob("R-ENUM", f, "one state per bit string in {0,1}^n", bool(okr), "itertools.product([0, 1], repeat=n)" if okr else f"strings range over {show(it)[:80]}", loop)
    if not isinstance(loop.target, ast.Name):
        ctx.ob("R-ENUM", f, "each state is the tensor product of psi[b] over every position of the bit string, in order", None, "loop target not a name", required=False)
        return
    bs = loop.target.id
    # factor coverage: which positions of the bit string contribute a factor
    parts = []  # (where, part)
    unknown = False
    for n in ast.walk(loop):
        if isinstance(n, ast.For) and n is not loop:
            p = _slice_of(n.iter, bs)
            if p is None:
                unknown = True
            else:
                parts.append(("loop", p, n))
        elif isinstance(n, (ast.ListComp, ast.GeneratorExp)):
            for g in n.generators:
                p = _slice_of(g.iter, bs)
                if p is not None:
                    parts.append(("loop", p, n))
        elif isinstance(n, ast.Subscript) and isinstance(n.value, ast.Name) and n.value.id == "psi":
            p = _slice_of(n.slice, bs)
            if p is not None and p[0] == "idx":
                parts.append(("single", p, n))
    shape = sorted((w, p) for w, p, _ in parts)
    good = [
        [("loop", ("all",))],
        [("loop", ("slice", 1, None)), ("single", ("idx", 0))],
        [("loop", ("slice", None, -1)), ("single", ("idx", -1))],
    ]
    key = "each state is the tensor product of psi[b] over every position of the bit string, in order"
    if unknown or not parts:
        ctx.ob("R-ENUM", f, key, None, "factor loop not recognised", loop, required=False)
        return
    if shape in good:
        # in-order: a list handed to tensor(), or kron(state, psi[b]) (new factor on the right)
        order_ok = True
        for n in ast.walk(loop):
            if isinstance(n, ast.Call) and isinstance(n.func, ast.Attribute) and n.func.attr == "kron" and len(n.args) == 2:
                if "psi[" in unparse(n.args[0]) and "psi[" not in unparse(n.args[1]) and shape != good[0]:
                    order_ok = False
        ctx.ob("R-ENUM", f, key, order_ok, f"factors cover {bs} exactly once" if order_ok else "new factors are multiplied on the left: the string is read backwards relative to the first factor", loop)
    else:
        ctx.ob("R-ENUM", f, key, False, f"factors are taken from {[(w, p) for w, p in shape]}: some position of `{bs}` contributes twice or not at all, so the 2^n strings no "
               "longer give 2^n distinct product states", parts[0][2])
