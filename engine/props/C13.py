"""C13 -- state distances and fidelities (structural clauses)."""

from __future__ import annotations

import ast
from fractions import Fraction

from .. import flow as flw
from ..cov import BASIS, INV, TOP, CovTyper, sdp_branch
from ..model import calls_in, unparse, walk_no_nested
from ..norm import Normalizer, calls_to, kwarg, mentions_name, show, subterms
from ..rules import calls_from, r_effect_free, r_guard_pred, r_thread, return_terms
from ..sdp import Skeleton

MATRIX_NORM_CLASS = {"nuc": "1", "fro": "2", None: "2", 2: "inf", -2: "-inf", 1: "max-col-sum", float("inf"): "max-row-sum"}


def schatten_class(t):
    """numpy.linalg.norm(matrix, ord) -> Schatten class label."""
    o = kwarg(t, "ord", t[2][1] if len(t[2]) > 1 else ("c", None))
    if o[0] != "c":
        return None
    return MATRIX_NORM_CLASS.get(o[1], f"ord={o[1]!r}")


EIG_CALLS = ("numpy.linalg.eigvalsh", "numpy.linalg.eigvals", "scipy.linalg.eigvalsh", "scipy.linalg.eigvals", "scipy.linalg.svdvals")


def spectral_functionals(t):
    """Classify how a term consumes a spectrum: 'sum-abs' (Schatten-1), 'single' (one extreme eigenvalue: Schatten-inf like),
    'sum-sq' (Schatten-2).  Returns the set of classes found."""
    out = set()
    def is_spec(x):
        return isinstance(x, tuple) and x and x[0] == "call" and (x[1] in EIG_CALLS or (x[1] in ("numpy.linalg.svd", "scipy.linalg.svd") and kwarg(x, "compute_uv") == ("c", False)))
    for s_ in subterms(t):
        if not isinstance(s_, tuple) or not s_:
            continue
        if s_[0] == "sub" and is_spec(s_[1]) and s_[2][0] in ("c", "neg"):
            out.add("single")
        if s_[0] == "call" and s_[1] in ("builtins.max", "builtins.min", "numpy.max", "numpy.min", "numpy.amax", "numpy.amin") and s_[2] and \
                any(is_spec(y) for y in subterms(s_[2][0])) and not any(isinstance(y, tuple) and y and y[0] == "call" and y[1] in ("numpy.sum", "builtins.sum") for y in subterms(s_[2][0])):
            out.add("single")
        if s_[0] == "call" and s_[1] in ("numpy.sum", "builtins.sum") and s_[2]:
            inner = s_[2][0]
            if any(is_spec(y) for y in subterms(inner)):
                if any(isinstance(y, tuple) and y and y[0] == "call" and y[1] in ("numpy.abs", "numpy.absolute", "builtins.abs") for y in subterms(inner)):
                    out.add("sum-abs")
                elif any(isinstance(y, tuple) and y and y[0] == "**" and y[2] == ("c", 2) for y in subterms(inner)):
                    out.add("sum-sq")
                elif is_spec(inner) and inner[1] in ("numpy.linalg.svd", "scipy.linalg.svd", "scipy.linalg.svdvals"):
                    out.add("sum-abs")
    return out


def cov_check(ctx, f, params, key="result is unitarily invariant", skip=sdp_branch, rule="R-COV"):
    ct = CovTyper(ctx.model, f, params)
    r = ct.result_type(skip)
    if r == BASIS:
        ctx.ob(rule, f, key, False, "the result is basis dependent: " + "; ".join(ct.why[:2]))
    elif r == INV:
        ctx.ob(rule, f, key, True, f"typed Inv from covariant inputs {list(params)}")
    else:
        ctx.ob(rule, f, key, None, f"typed {r}", required=False)
    return r


def density_guard(ctx, f, params):
    def excl(conds, facts):
        return sdp_branch(conds)
    for p in params:
        r_guard_pred(ctx, f, "is_density", p, exclude_when=excl)


def shape_guard(ctx, f, a, b):
    N = Normalizer(ctx.model, f, inline=False)
    res = flw.flow(f.node)
    ok = False
    for rz, facts in res.raises:
        cs = flw.conds(facts)
        if cs:
            t = N(cs[-1][0])
            r = repr(t)
            if f"('attr', ('n', '{a}'), 'shape')" in r and f"('attr', ('n', '{b}'), 'shape')" in r:
                ok = True
    ctx.ob("R-GUARD", f, "equal shapes required", ok, "mismatched shapes raise" if ok else "the equal-shape guard is gone")


def _is_diff(t, a, b):
    return t in (("+", tuple(sorted([("n", a), ("neg", ("n", b))], key=repr))), ("+", tuple(sorted([("n", b), ("neg", ("n", a))], key=repr))))


def _strip_clamps(t):
    """clip(x, lo, hi), max(x, 0), maximum(x, 0), min(x, 1), real(x) act as the identity wherever the documented formula is defined:
    they only keep a rounding error from leaving the domain, so the closed form is compared without them"""
    if not isinstance(t, tuple) or not t:
        return t
    if t[0] == "call" and t[1] in ("numpy.clip", "builtins.max", "builtins.min", "numpy.maximum", "numpy.minimum", "numpy.fmax", "numpy.fmin") and t[2]:
        non_const = [x for x in t[2] if x[0] != "c"]
        if len(non_const) == 1:
            return _strip_clamps(non_const[0])
    if t[0] == "real" and len(t) == 2:
        # keep one outer real() (the documented formulas take the real part of the result); inner real parts of quantities that
        # are real for density operators (traces of products of PSD operators) are the identity
        return ("real", _strip_inner_real(_strip_clamps(t[1])))
    return tuple(_strip_clamps(x) if isinstance(x, tuple) else x for x in t)


def _strip_inner_real(t):
    if not isinstance(t, tuple) or not t:
        return t
    if t[0] == "real" and len(t) == 2:
        return _strip_inner_real(t[1])
    out = tuple(_strip_inner_real(x) if isinstance(x, tuple) else x for x in t)
    # re-sort commutative heads after the rewrite
    if out and out[0] in ("+", "*") and isinstance(out[1], tuple):
        return (out[0], tuple(sorted(out[1], key=repr))) + tuple(out[2:])
    return out


def formula(ctx, f, key, expected_pred, vocab, rule="R-PRED", skip=sdp_branch):
    """The returned closed form must satisfy expected_pred(term).  A different closed form over the same vocabulary of
    invariants is a violation; anything using constructs outside the vocabulary is unknown."""
    m = ctx.model
    ct = CovTyper(m, f, [])
    N = Normalizer(m, f, inline=True)
    n = 0
    for rn, conds in ct.governed_returns(skip):
        n += 1
        t = _strip_clamps(N(rn.value))
        if expected_pred(t):
            ctx.ob(rule, f, key, True, "matches the documented formula", rn)
            continue
        leaves_ok = True
        for s in subterms(t):
            if isinstance(s, tuple) and s:
                if s[0] == "call" and not (isinstance(s[1], str) and any(s[1] == v or s[1].endswith("." + v) for v in vocab)):
                    leaves_ok = False
                if s[0] in ("attr", "sub", "comp", "?", "lambda", "ifexp"):
                    leaves_ok = False
        if leaves_ok:
            ctx.ob(rule, f, key, False, f"returns {show(t)[:120]}, which is a different closed form than the documented one", rn)
        else:
            ctx.ob(rule, f, key, None, f"returns {show(t)[:100]} (not comparable)", rn, required=False)
    if n == 0:
        ctx.ob(rule, f, key, None, "no governed return", required=False)


def run(ctx):  # noqa: C901
    m = ctx.model
    ctx.rule("R-GUARD", "is_density on both arguments (and equal shapes) dominates every numeric branch")
    ctx.rule("R-COV", "every numeric result is typed Inv under rho -> U rho U^+ (entrywise operations are Basis)")
    ctx.rule("R-NORM", "Schatten class of each norm call matches the definition (trace distance / Helstrom: 1; Hilbert-Schmidt: 2)")
    ctx.rule("R-PRED", "closed forms over invariants (factors 1/2, sqrt, arccos, rounding) match the documented formulas")
    ctx.rule("R-SDP", "fidelity-of-separability program skeleton and input validation")
    F = lambda n: m.func(f"state_metrics.{n}.{n}")  # noqa: E731
    fid, td, hs, hsip, hh, bd, ba, sf, mf = (F(n) for n in ("fidelity", "trace_distance", "hilbert_schmidt", "hilbert_schmidt_inner_product",
                                                            "helstrom_holevo", "bures_distance", "bures_angle", "sub_fidelity", "matsumoto_fidelity"))
    tn = m.func("trace_norm.trace_norm")
    from ..rules import r_domain_clamped
    ctx.rule("R-GUARD", "square roots of differences and arccos arguments that reach the edge of their domain on identical / pure states are clamped (no nan at the extreme cases)")
    for f in (bd, ba, sf, fid, hh, mf):
        r_domain_clamped(ctx, f)
    for f, ps in ((fid, ("rho", "sigma")), (td, ("rho", "sigma")), (hs, ("rho", "sigma")), (hh, ("rho", "sigma")), (sf, ("rho", "sigma")), (mf, ("rho", "sigma"))):
        density_guard(ctx, f, ps)
        cov_check(ctx, f, ps)
        r_effect_free(ctx, f, list(ps))
    for f, ps in ((fid, ("rho", "sigma")), (bd, ("rho_1", "rho_2")), (ba, ("rho_1", "rho_2")), (sf, ("rho", "sigma")), (mf, ("rho", "sigma"))):
        shape_guard(ctx, f, *ps)
    for f in (bd, ba):
        cov_check(ctx, f, ("rho_1", "rho_2"))
        # density validation via fidelity, which must dominate
        res = flw.flow(f.node)
        ok = all(calls_from(m, f, "fidelity.fidelity") for _ in [0])
        N = Normalizer(m, f, inline=True)
        rets, _ = return_terms(m, f, inline=True)
        okc = all(any(dict(c[3]).get("rho") == ("n", "rho_1") and dict(c[3]).get("sigma") == ("n", "rho_2") or
                      dict(c[3]).get("rho") == ("n", "rho_2") and dict(c[3]).get("sigma") == ("n", "rho_1") for c in calls_to(t, "fidelity")) for _, _, t in rets)
        ctx.ob("R-GUARD", f, "density validation through fidelity(rho_1, rho_2)", bool(ok and okc), "fidelity validates both states" if ok and okc else "the value is not computed from fidelity of the two arguments")
    cov_check(ctx, hsip, ("a_mat", "b_mat"))
    cov_check(ctx, tn, ("rho",))

    # ---- norm classes ------------------------------------------------------------------------------
    def norm_calls(f):
        N = Normalizer(m, f, inline=True)
        out = []
        for rn, facts, t in return_terms(m, f, inline=True)[0]:
            out += [(rn, c) for c in calls_to(t, "numpy.linalg.norm")]
        return out
    for f, want, what in ((tn, "1", "trace norm"), (hs, "2", "Hilbert-Schmidt norm")):
        nc = norm_calls(f)
        if not nc:
            ctx.ob("R-NORM", f, f"{what} is Schatten-{want}", None, "no numpy.linalg.norm call in the result", required=False)
        for rn, c in nc:
            cl = schatten_class(c)
            ctx.ob("R-NORM", f, f"{what} is Schatten-{want}", cl == want if cl is not None else None,
                   f"np.linalg.norm(matrix, ord={show(kwarg(c, 'ord', ('c', None)))}) is Schatten-{cl}" if cl == want else
                   f"np.linalg.norm(matrix, ord={show(kwarg(c, 'ord', c[2][1] if len(c[2]) > 1 else ('c', None)))}) is the Schatten-{cl} norm "
                   f"(for a matrix, ord=2 is the largest singular value); the {what} is Schatten-{want}", rn, required=cl is not None)
    # ---- formulas ------------------------------------------------------------------------------------
    TN = lambda x: ("call", "toqito.matrix_props.trace_norm.trace_norm", (), (("rho", x),))  # noqa: E731
    def td_ok(t):
        return t[0] == "*" and len(t[1]) == 2 and ("c", Fraction(1, 2)) in t[1] and any(x[0] == "call" and str(x[1]).endswith("trace_norm") and _is_diff(dict(x[3])["rho"], "rho", "sigma") for x in t[1])
    formula(ctx, td, "trace distance == trace_norm(rho - sigma) / 2", td_ok, ("trace_norm",))
    # whatever the spelling, the trace distance / Helstrom quantity is a Schatten-1 functional of rho - sigma
    for f_, nm in ((td, "trace distance"), (hh, "Helstrom-Holevo quantity")):
        for rn, facts, t in return_terms(m, f_, inline=True)[0]:
            fun = spectral_functionals(t)
            has1 = bool(calls_to(t, "trace_norm")) or any(schatten_class(c) == "1" for c in calls_to(t, "numpy.linalg.norm")) or "sum-abs" in fun
            if has1:
                ctx.ob("R-NORM", f_, f"{nm} is a Schatten-1 functional of the difference", True, "trace norm / sum of absolute eigenvalues", rn)
            elif "single" in fun or "sum-sq" in fun or any(schatten_class(c) not in (None, "1") for c in calls_to(t, "numpy.linalg.norm")):
                ctx.ob("R-NORM", f_, f"{nm} is a Schatten-1 functional of the difference", False,
                       f"the result is built from {sorted(fun) or 'a non-nuclear norm'} of the spectrum (a single extreme eigenvalue / another Schatten class), not from the "
                       "sum of absolute eigenvalues: correct for qubits and pure states only", rn)
            else:
                ctx.ob("R-NORM", f_, f"{nm} is a Schatten-1 functional of the difference", None, f"returns {show(t)[:80]}", rn, required=False)
    def hh_ok(t):
        return t[0] == "+" and len(t[1]) == 2 and ("c", Fraction(1, 2)) in t[1] and any(
            x[0] == "*" and ("c", Fraction(1, 4)) in x[1] and any(y[0] == "call" and str(y[1]).endswith("trace_norm") and _is_diff(dict(y[3])["rho"], "rho", "sigma") for y in x[1]) for x in t[1])
    formula(ctx, hh, "Helstrom-Holevo == 1/2 + trace_norm(rho - sigma) / 4", hh_ok, ("trace_norm",))
    def hs_ok(t):
        return t[0] == "**" and t[2] == ("c", 2) and t[1][0] == "call" and t[1][1] == "numpy.linalg.norm" and _is_diff(t[1][2][0], "rho", "sigma")
    formula(ctx, hs, "Hilbert-Schmidt == ||rho - sigma||^2", hs_ok, ("numpy.linalg.norm",))
    def fidcall(x, a="rho_1", b="rho_2"):
        return x[0] == "call" and str(x[1]).endswith("fidelity.fidelity") and {repr(v) for _, v in x[3]} == {repr(("n", a)), repr(("n", b))}
    def rnd(x):
        # (the normaliser spells the second argument of np.round as the keyword `decimals`, however the source wrote it)
        return x[0] == "call" and x[1] == "numpy.round" and len(x[2]) == 1 and fidcall(x[2][0]) and dict(x[3]).get("decimals") == ("n", "decimals")
    def bd_ok(t):
        if not (t[0] == "call" and t[1] == "numpy.sqrt" and len(t[2]) == 1):
            return False
        a = t[2][0]
        # 2 * (1 - round(F))  ==  2 + (-2)*round(F) after normalisation, or the product form
        if a[0] == "*" and ("c", 2) in a[1]:
            rest = [x for x in a[1] if x != ("c", 2)]
            return len(rest) == 1 and rest[0][0] == "+" and ("c", 1) in rest[0][1] and any(x[0] == "neg" and rnd(x[1]) for x in rest[0][1])
        return False
    formula(ctx, bd, "Bures distance == sqrt(2 (1 - F))", bd_ok, ("fidelity", "numpy.sqrt", "numpy.round"))
    def ba_ok(t):
        if t[0] == "real":
            t = t[1]
        return t[0] == "call" and t[1] == "numpy.arccos" and t[2][0][0] == "call" and t[2][0][1] == "numpy.sqrt" and rnd(t[2][0][2][0])
    formula(ctx, ba, "Bures angle == arccos(sqrt(F))", ba_ok, ("fidelity", "numpy.sqrt", "numpy.round", "numpy.arccos"))
    def tr(*ops):
        return ("call", "numpy.trace", (("@", tuple(("n", o) for o in ops)),), ())
    def sf_ok(t):
        if t[0] == "real":
            t = t[1]
        a, b = tr("rho", "sigma"), tr("rho", "sigma", "rho", "sigma")
        inner = ("*", tuple(sorted([("c", 2), ("+", tuple(sorted([("**", a, ("c", 2)), ("neg", b)], key=repr)))], key=repr)))
        want = ("+", tuple(sorted([a, ("call", "numpy.sqrt", (inner,), ())], key=repr)))
        return t == want
    formula(ctx, sf, "sub-fidelity == Tr(rho sigma) + sqrt(2 ((Tr rho sigma)^2 - Tr(rho sigma rho sigma)))", sf_ok, ("numpy.trace", "numpy.sqrt"))
    def fid_ok(t):
        if t[0] == "real":
            t = t[1]
        sq = lambda x: ("call", "scipy.linalg.sqrtm", (x,), ())  # noqa: E731
        for a, b in (("rho", "sigma"), ("sigma", "rho")):
            want = ("call", "numpy.trace", (sq(("@", (sq(("n", a)), ("n", b), sq(("n", a))))),), ())
            if t == want:
                return True
        return False
    formula(ctx, fid, "fidelity == Tr sqrt(sqrt(rho) sigma sqrt(rho))", fid_ok, ("scipy.linalg.sqrtm", "numpy.trace"))
    def hsip_ok(t):
        return t == ("call", "numpy.trace", (("@", (("dag", ("n", "a_mat")), ("n", "b_mat"))),), ())
    formula(ctx, hsip, "<A, B> == Tr(Dagger(A) B)", hsip_ok, ("numpy.trace",))

    # ---- SDP branches ---------------------------------------------------------------------------------
    for f, var, blk_diag in ((fid, "z_var", True), (mf, "w_var", True)):
        sk = Skeleton(m, f)
        if sk.probs:
            p = sk.probs[0]
            ctx.ob("R-SDP", f, "SDP branch: objective sense == max", p.sense == "max", p.sense or "?", p.node)
            blk = [c for c in sk.reaching()[0] if c.rel == ">>" and c.rhs == ("c", 0) and c.lhs[0] == "call" and c.lhs[1] == "cvxpy.bmat"]
            ok = False
            if blk:
                rows = blk[0].lhs[2][0]
                if rows[0] == "list" and len(rows) == 3:
                    (a11, a12), (a21, a22) = rows[1][1:], rows[2][1:]
                    off = a21 == ("dag", a12) or (f is mf and a21 == a12)
                    ok = {repr(a11), repr(a22)} == {repr(("n", "rho")), repr(("n", "sigma"))} and a12 == ("n", var) and off
            ctx.ob("R-SDP", f, f"SDP branch: [[rho, X], [X^+, sigma]] >= 0", ok, "block constraint present" if ok else "block constraint missing or altered")
            d = sk.dangling()
            ctx.ob("R-SDP", f, "SDP branch: S1 constraints reach the problem", not d, "ok" if not d else "dropped")
    # fidelity SDP returns half the optimum
    for rn, facts, t in return_terms(m, fid, inline=True)[0]:
        conds = [(Normalizer(m, fid, inline=False)(tt), pol) for tt, pol in flw.conds(facts)]
        if sdp_branch(conds):
            ok = t[0] == "*" and ("c", Fraction(1, 2)) in t[1] and "solve" in repr(t)
            if not ok and "solve" not in repr(t):
                ok = None  # the programme is built and solved elsewhere (a helper): this rule does not follow it
            ctx.ob("R-SDP", fid, "SDP branch: value == optimum / 2", ok, "1/2 * problem.solve()" if ok else f"returns {show(t)[:60]}", rn)

    # ---- fidelity of separability (state) ---------------------------------------------------------------
    fos = m.func("state_metrics.fidelity_of_separability.fidelity_of_separability")
    for pred, arg in (("is_density", "input_state_rho"), ("is_pure", "input_state_rho"), ("is_separable", "input_state_rho")):
        r_guard_pred(ctx, fos, pred, arg)
    # the separability guard must be told the local dimensions (is_separable otherwise infers them from the size alone: a 3 (x) 2 product
    # state is then tested as 2 (x) 3 and rejected as entangled -- F57)
    r_thread(ctx, fos, "input_state_rho_dims", "is_separable.is_separable", formal="dim")
    # the local dimensions describe the state as it is given: they are unpacked in the caller's order (nothing here permutes the state,
    # so sorting / reversing the dims describes a different tensor factorisation of the same matrix)
    unp = [n for n in walk_no_nested(fos.node) if isinstance(n, ast.Assign) and isinstance(n.targets[0], (ast.Tuple, ast.List)) and len(n.targets[0].elts) == 2
           and "input_state_rho_dims" in unparse(n.value)]
    if unp:
        v = unp[0].value
        while isinstance(v, ast.Call) and isinstance(v.func, ast.Name) and v.func.id in ("list", "tuple") and len(v.args) == 1:
            v = v.args[0]
        oku = isinstance(v, ast.Name) and v.id == "input_state_rho_dims"
        ctx.ob("R-THREAD", fos, "dim_A, dim_B are the caller's dims in the caller's order", oku,
               "dim_a, dim_b = input_state_rho_dims" if oku else
               f"`{unparse(unp[0])[:70]}` re-orders the dims while the state keeps its order: with dims [2, 3] the programme treats the operator as living on 3 (x) 2, "
               "where a product state of 2 (x) 3 is in general entangled", unp[0])
    else:
        ctx.ob("R-THREAD", fos, "dim_A, dim_B are the caller's dims in the caller's order", None, "unpacking of the dims not found", required=False)
    N = Normalizer(m, fos, inline=False)
    res = flw.flow(fos.node)
    okl = any(flw.conds(f2) and "builtins.len" in repr(N(flw.conds(f2)[-1][0])) and "input_state_rho_dims" in repr(N(flw.conds(f2)[-1][0])) for _, f2 in res.raises)
    ctx.ob("R-GUARD", fos, "bipartite dims required", okl, "len(dims) == 2 enforced" if okl else "dims-length guard missing")
    sk = Skeleton(m, fos)
    from ..sdp import r_hermitian_vars
    r_hermitian_vars(ctx, fos, sk)
    if sk.probs:
        p = sk.probs[0]
        ctx.ob("R-SDP", fos, "objective sense == max", p.sense == "max", p.sense or "?")
        reach = sk.reaching()[0]
        from ..sdp import psd_ok
        ok, det, nd = psd_ok(sk, "sigma_ab_k")
        ctx.ob("R-SDP", fos, "sigma >= 0", ok, det, nd)
        tr1 = [c for c in reach if c.rel == "==" and ("c", 1) in (c.lhs, c.rhs) and "picos.trace" in repr(c.sides()) and "sigma_ab_k" in repr(c.sides())]
        ctx.ob("R-SDP", fos, "trace(sigma) == 1", bool(tr1), "normalised" if tr1 else "missing")
        sym = [c for c in reach if c.rel == "==" and ("n", "sigma_ab_k") in (c.lhs, c.rhs) and "permutation_op" in repr(c.sides())]
        ctx.ob("R-SDP", fos, "k-extendibility: sigma invariant under the symmetric projector", bool(sym), "present" if sym else "missing")
        blk = [c for c in reach if c.rel == ">>" and c.rhs == ("c", 0) and c.lhs[0] == "call" and c.lhs[1] == "picos.block"]
        okb = False
        if blk:
            rows = blk[0].lhs[2][0]
            if rows[0] == "list" and len(rows) == 3:
                (a11, a12), (a21, a22) = rows[1][1:], rows[2][1:]
                okb = a11 == ("n", "input_state_rho") and a12 == ("n", "linear_op_ab") and a21 == ("dag", ("n", "linear_op_ab")) and a22[0] == "call" and a22[1] == "picos.partial_trace" \
                    and a22[2][0] == ("n", "sigma_ab_k")
        ctx.ob("R-SDP", fos, "[[rho, X], [X^+, Tr_ext sigma]] >= 0", okb, "present" if okb else "block constraint missing or altered")
        ppt = [c for c in reach if c.rel == ">>" and c.rhs == ("c", 0) and c.lhs[0] == "call" and c.lhs[1] == "picos.partial_transpose" and c.loops]
        ctx.ob("R-SDP", fos, "PPT constraints for the extension copies", bool(ppt), "inside the loop over copies" if ppt else "missing or hoisted")
        d = sk.dangling()
        ctx.ob("R-SDP", fos, "S1 every constraint reaches the problem", not d, "ok" if not d else "dropped")
        rets, _ = return_terms(m, fos, inline=False)
        oksq = all(t == ("**", ("attr", ("n", "solution"), "value"), ("c", 2)) for _, _, t in rets)
        ctx.ob("R-SDP", fos, "returns the squared root-fidelity optimum", oksq, "solution.value**2" if oksq else "returned value is not solution.value**2")
        oks = any(any(kw.arg == "solver" and unparse(kw.value) == "solver_option" for kw in c.keywords) for c in sk.solves)
        ctx.ob("R-THREAD", fos, "solver_option->solve(solver=)", oks, "used" if oks else "ignored")
    og_k = [n for n in walk_no_nested(fos.node) if isinstance(n, ast.Call) and m.resolve_call(fos, n).key.endswith("symmetric_projection")]
    okk = bool(og_k) and [unparse(a) for a in og_k[0].args] == ["dim_b", "k"]
    ctx.ob("R-THREAD", fos, "symmetric_projection(dim_b, k)", okk, "level threads into the projector" if okk else "extension level not threaded")
