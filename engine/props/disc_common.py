"""Shared obligations for the picos discrimination / exclusion programs (C10, C11, C12)."""

from __future__ import annotations

import ast

from .. import flow as flw
from ..dataflow import origins
from ..model import DEFAULT, MISSING, calls_in, unparse, walk_no_nested
from ..norm import Normalizer, calls_to, kwarg, mentions_name, show, subterms
from ..rules import calls_from, r_effect_free, r_guard_pred, r_thread, return_terms
from ..sdp import Skeleton, psd_ok


def expand1(m, f, t):
    """One-level expansion of a bare local name into its (non-inlined) defining expression."""
    if t is not None and t[0] == "n":
        N0 = Normalizer(m, f, inline=False)
        Ni = Normalizer(m, f, inline=True)
        if t[1] in Ni.env.single:
            return N0(Ni.env.single[t[1]])
    return t


def solve_threading(ctx, f, sk, rule="R-THREAD"):
    ok_s = ok_k = False
    for c in sk.solves:
        for kw in c.keywords:
            if kw.arg == "solver" and isinstance(kw.value, ast.Name) and kw.value.id == "solver":
                ok_s = True
            if kw.arg is None and isinstance(kw.value, ast.Name) and kw.value.id == "kwargs":
                ok_k = True
    if f.param("solver") is not None:
        ctx.ob(rule, f, "solver->solve(solver=)", ok_s, "requested solver is used" if ok_s else "the `solver` argument does not reach problem.solve", sk.solves[0] if sk.solves else None)
    if any(p.kind == "kwarg" for p in f.params):
        ctx.ob(rule, f, "**kwargs->solve(**kwargs)", ok_k, "solver options forwarded" if ok_k else "solver options (**kwargs) are dropped", sk.solves[0] if sk.solves else None)


def returns_optimum(ctx, f, sk, rule="R-SDP"):
    rets, N = return_terms(ctx.model, f, inline=False)
    ok = False
    for rn, facts, t in rets:
        first = t[1] if t[0] == "tuple" and len(t) > 1 else t
        r = repr(first)
        if first[0] == "attr" and first[2] == "value" and first[1][0] == "n":
            nm = first[1][1]
            # solution = problem.solve(...) or the problem itself
            og = origins(f)
            ok = nm in {p.name for p in sk.probs} or any(p.name in og.deps.get(nm, set()) for p in sk.probs)
    ctx.ob(rule, f, "S3 returned value is this problem's optimum", ok, "solution.value / problem.value" if ok else "the first returned element is not the optimum of the constructed problem")


def dispatcher(ctx, f, helpers_mod, mapping, pass_dim):
    """mapping: {(strategy_is_min_error: bool, primal: bool): helper name}; pass_dim: helper names receiving dim."""
    m = ctx.model
    r_guard_pred(ctx, f, "has_same_dimension", "vectors")
    N = Normalizer(m, f, inline=False)
    # default probabilities uniform
    okd = False
    for n in walk_no_nested(f.node):
        if isinstance(n, ast.Assign) and isinstance(n.targets[0], ast.Name) and n.targets[0].id == "probs" and isinstance(n.value, ast.IfExp):
            t = N(n.value)
            test, a, b = t[1], t[2], t[3]
            uni = lambda x: x[0] == "*" and any(y[0] == "list" and len(y) == 2 and y[1][0] in ("/", "*") for y in x[1])  # noqa: E731
            if test == ("cmp", "is", ("n", "probs"), ("c", None)):
                okd = uni(a) and b == ("n", "probs")
            elif test == ("cmp", "isnot", ("n", "probs"), ("c", None)):
                okd = uni(b) and a == ("n", "probs")
            if okd:
                # [1/n]*n with n = len(vectors)
                lst = a if uni(a) else b
                el = [y for y in lst[1] if y[0] == "list"][0][1]
                cnt = [y for y in lst[1] if y[0] != "list"]
                Ni = Normalizer(m, f, inline=True)
                nlen = ("call", "builtins.len", (("n", "vectors"),), ())
                el_i, cnt_i = Ni(n.value.body.left.elts[0]) if isinstance(n.value.body, ast.BinOp) and isinstance(n.value.body.left, ast.List) else None, None
                okd = okd and el_i is not None and el_i == ("/", ("c", 1), nlen)
    ctx.ob("R-THREAD", f, "default prior is uniform 1/n over the given states", okd, "[1/n]*n when probs is None, the caller's probs otherwise" if okd else "default prior is not the uniform distribution over len(vectors) states")
    for (min_err, primal), h in mapping.items():
        sites = calls_from(m, f, f"{helpers_mod}.{h}")
        key = f"dispatch ({'min_error' if min_err else 'unambiguous'}, {'primal' if primal else 'dual'}) -> {h}"
        if not sites:
            ctx.ob("R-THREAD", f, key, False, f"{h} is never called")
            continue
        c, cal = sites[0]
        hit = flw.find_stmt_of(f.node, c)
        conds = [(N(t), pol) for t, pol in flw.conds(hit[1])] if hit else []
        se = ("cmp", "==", *sorted([("c", "min_error"), ("n", "strategy")], key=repr))
        pe = ("cmp", "==", *sorted([("c", "primal"), ("n", "primal_dual")], key=repr))
        got_s = next((pol for t, pol in conds if t == se), None)
        got_p = next((pol for t, pol in conds if t == pe), None)
        # unambiguous / dual branches may be the fall-through (guard passed => cond False)
        ok = (got_s if got_s is not None else False) == min_err and (got_p if got_p is not None else False) == primal
        ctx.ob("R-THREAD", f, key, ok, "selected by (strategy, primal_dual)" if ok else f"{h} is selected under strategy==min_error:{got_s}, primal_dual==primal:{got_p}", c)
        b = m.bind(c, cal.func)
        for p in ["vectors", "probs", "solver"] + (["dim"] if h in pass_dim else []):
            a = b.get(p)
            okp = isinstance(a, ast.Name) and a.id == p
            detp = "forwarded" if okp else f"`{p}` is not forwarded to {h}"
            if okp and p in ("vectors", "solver") and f.param(p) is not None:
                # forwarded UNCHANGED: the states / options the caller gave, not a re-bound (rescaled, filtered, converted) copy
                rb = [x for x in walk_no_nested(f.node) if isinstance(x, (ast.Assign, ast.AugAssign, ast.AnnAssign)) and getattr(x, "lineno", 0) < c.lineno and
                      any(isinstance(y, ast.Name) and y.id == p and isinstance(y.ctx, ast.Store) for tg_ in (x.targets if isinstance(x, ast.Assign) else [x.target]) for y in ast.walk(tg_))]
                if rb and p == "vectors":
                    okp = False
                    detp = (f"`{unparse(rb[0])[:80]}` re-binds `{p}` before it is handed to {h}: the programme is solved for transformed states "
                            "(e.g. np.linalg.norm of a density matrix is its Frobenius norm, so mixed states are rescaled)")
                elif rb:
                    okp, detp = None, f"`{p}` is re-bound before the call"
            ctx.ob("R-THREAD", f, f"{p}->{h}.{p}", okp, detp, c, required=okp is not None)
        okk = isinstance(b.get("**opaque"), ast.Name) and b["**opaque"].id == "kwargs"
        ctx.ob("R-THREAD", f, f"**kwargs->{h}", okk, "forwarded" if okk else f"solver options are not forwarded to {h}", c)
    r_effect_free(ctx, f, ["vectors", "probs"])


def _objective_pairing(ctx, f, p, names, rule="R-ENUM"):
    """objective sum over i in range(n) with probs[i], dms[i], measurements[i] all indexed by the same i."""
    ot = p.objective
    if ot is None:
        ctx.ob(rule, f, "objective pairs p_i, rho_i, M_i", None, "objective not found", required=False)
        return
    if ot[0] == "real":
        ot = ot[1]
    ot = expand1(ctx.model, f, ot)
    comps = [s for s in subterms(ot) if isinstance(s, tuple) and s and s[0] == "comp"]
    if not comps:
        ctx.ob(rule, f, "objective pairs p_i, rho_i, M_i", None, "objective comprehension not found", required=False)
        return
    c = comps[0]
    body, gens = c[2][0], c[3]
    var = gens[0][0]
    rng = gens[0][1]
    subs = {}
    for s in subterms(body):
        if isinstance(s, tuple) and s and s[0] == "sub" and s[1][0] == "n":
            subs.setdefault(s[1][1], set()).add(repr(s[2]))
    ok = all(nm in subs and subs[nm] == {repr(var)} for nm in names)
    ctx.ob(rule, f, "objective pairs p_i, rho_i, M_i", ok, "all three indexed by the same i" if ok else f"index use {subs}", p.node)
    # the pairing of rho_i with M_i must be the trace inner product Tr(rho_i M_i): picos.trace(rho * M) or (rho | M).
    # An entrywise sum of a Hadamard product, sum(rho ^ M), is Tr(rho^T M): the transposed (= conjugated) state for complex data.
    def _has(t, nm):
        return any(isinstance(x, tuple) and x and x[0] == "sub" and x[1] == ("n", nm) for x in subterms(t))
    pair = None
    for s_ in subterms(body):
        if isinstance(s_, tuple) and s_ and s_[0] in ("^", "|", "*", "@") and _has(s_, names[1]) and _has(s_, names[2]):
            # innermost operator that joins the state and the measurement operator
            if pair is None or len(repr(s_)) < len(repr(pair)):
                pair = s_
    if pair is not None:
        okpair = pair[0] in ("|",) or (pair[0] in ("*", "@") and any(isinstance(x, tuple) and x and x[0] == "call" and str(x[1]).endswith(".trace") and pair in x[2] for x in subterms(body)))
        had = pair[0] == "^"
        ctx.ob("R-COV", f, "objective pairs rho_i with M_i by the trace inner product Tr(rho_i M_i)", True if okpair else False if had else None,
               "trace(rho * M) / (rho | M)" if okpair else
               "the state and the operator are joined by the entrywise (Hadamard) product and summed: that is Tr(rho^T M), the pairing with the conjugated state -- the value is unchanged "
               "but the returned operators are the conjugates of an optimal measurement for complex ensembles" if had else f"pairing {show(pair)[:60]} not recognised", p.node, required=okpair or had)
    Ni = Normalizer(ctx.model, f, inline=True)
    full = rng[0] == "call" and rng[1] == "builtins.range" and len(rng[2]) == 1
    if full and rng[2][0][0] == "n" and rng[2][0][1] in Ni.env.single:
        full = Ni(Ni.env.single[rng[2][0][1]]) == ("call", "builtins.len", (("n", "vectors"),), ())
    elif full:
        full = rng[2][0] == ("call", "builtins.len", (("n", "vectors"),), ())
    ctx.ob(rule, f, "objective sums over all states", bool(full) and not gens[0][2], "i in range(len(vectors))" if full else f"objective ranges over {show(rng)}", p.node)


def real_objective(ctx, f, p, rule="R-SDP"):
    """picos rejects a complex objective: sum_i p_i <rho_i, M_i> must be wrapped in a real part (it is real at every feasible point,
    but it is a complex affine expression whenever the states are complex)."""
    N0 = Normalizer(ctx.model, f, inline=False)
    t = N0(p.objective_node) if p.objective_node is not None else None
    ok = t is not None and (t[0] == "real" or (t[0] == "call" and t[1] in ("numpy.real", "picos.real")) or (t[0] == "attr" and t[2] == "real"))
    ctx.ob(rule, f, "objective handed to the solver is a real part", ok if t is not None else None,
           "real(sum_i p_i <rho_i, M_i>)" if ok else f"objective `{show(t)[:60] if t else '?'}` is a complex affine expression for complex states (picos: 'Objective function may not be complex')",
           p.node, required=t is not None)


def dual_readback_transposed(ctx, f, rule="R-SDP"):
    """picos returns the dual of an LMI transposed w.r.t. the trace pairing sum_i p_i Tr(rho_i M_i): the recovered operators must be
    transposed (= conjugated, they are Hermitian) to be the optimal measurement for complex states."""
    N0 = Normalizer(ctx.model, f, inline=False)
    rb = [n for n in walk_no_nested(f.node) if isinstance(n, ast.ListComp) and "get_constraint" in unparse(n.elt)]
    if not rb:
        ctx.ob(rule, f, "recovered measurement operators are the transposed constraint duals", None, "no read-back", required=False)
        return
    t = N0(rb[0].elt)
    ok = t[0] in ("T", "conj") and t[1][0] == "attr" and t[1][2] == "dual"
    bare = t[0] == "attr" and t[2] == "dual"
    # the dual of an LMI is Hermitian: its conjugate transpose is the dual itself, i.e. still the un-transposed operator
    if t[0] == "dag" and t[1][0] == "attr" and t[1][2] == "dual":
        bare = True
    ctx.ob(rule, f, "recovered measurement operators are the transposed constraint duals", True if ok else False if bare else None,
           "get_constraint(k).dual.T" if ok else "the constraint duals are returned as they come from picos: for complex states they are the entrywise conjugate of the optimal measurement "
           "(sum_i p_i Tr(rho_i M_i) differs from the reported value)" if bare else f"read-back {show(t)[:60]}", rb[0], required=ok or bare)


def min_error_primal(ctx, f, sense):
    m = ctx.model
    sk = Skeleton(m, f)
    if not sk.probs:
        ctx.ob("R-SDP", f, "problem constructed", None, "no picos.Problem", required=False)
        return sk
    from ..sdp import r_hermitian_vars
    r_hermitian_vars(ctx, f, sk)
    p = sk.probs[0]
    ctx.ob("R-SDP", f, f"objective sense == {sense}", p.sense == sense, p.sense or "?", p.node)
    # family: one Hermitian operator per state
    v = next((x for x in sk.vars if x.name == "measurements"), None)
    if v is None:
        ctx.ob("R-SDP", f, "one measurement operator per state", None, "variable family not found", required=False)
    else:
        Ni = Normalizer(m, f, inline=True)
        it = v.loops[0][1] if v.loops else None
        cnt = None
        if it is not None and it[0] == "call" and it[1] == "builtins.range" and len(it[2]) == 1:
            cnt = it[2][0]
            if cnt[0] == "n" and cnt[1] in Ni.env.single:
                cnt = Ni(Ni.env.single[cnt[1]])
        okc = cnt == ("call", "builtins.len", (("n", "vectors"),), ())
        ctx.ob("R-SDP", f, "one measurement operator per state", okc, "len(vectors) Hermitian variables" if okc else f"family ranges over {show(it) if it else '?'}", v.node)
        oks = v.shape == ("tuple", ("n", "dim"), ("n", "dim"))
        ctx.ob("R-SHAPE", f, "measurement operators are dim x dim", oks, "(dim, dim)" if oks else f"shape {show(v.shape) if v.shape else '?'}", v.node)
    psd = [c for c in sk.reaching()[0] if c.rel == ">>" and c.rhs == ("c", 0) and c.loops and c.loops[0][1] == ("n", "measurements") and c.lhs == ("n", c.loops[0][0][0])]
    psd += [c for c in sk.reaching()[0] if c.rel == ">>" and c.rhs == ("c", 0) and c.lhs[0] == "sub" and c.lhs[1] == ("n", "measurements")]
    ctx.ob("R-SDP", f, "every measurement operator PSD", bool(psd), "[M >> 0 for M in measurements]" if psd else "PSD constraints on the measurement operators do not reach the problem")
    comp = [c for c in sk.reaching()[0] if c.rel == "==" and {repr(c.lhs), repr(c.rhs)} == {repr(("call", "picos.sum", (("n", "measurements"),), ())), repr(("call", "picos.I", (("n", "dim"),), ()))}]
    ctx.ob("R-SDP", f, "measurement operators sum to the identity", bool(comp), "sum(M) == I(dim)" if comp else "completeness constraint missing or weakened")
    d = sk.dangling()
    ctx.ob("R-SDP", f, "S1 every constraint reaches the problem", not d, "ok" if not d else f"`{unparse(d[0].node)[:50]}` dropped")
    _objective_pairing(ctx, f, p, ("probs", "dms", "measurements"))
    real_objective(ctx, f, p)
    # dms = [to_density_matrix(v) for v in vectors]
    okdm = any(isinstance(n, ast.Assign) and isinstance(n.targets[0], ast.Name) and n.targets[0].id == "dms" and isinstance(n.value, ast.ListComp)
               and unparse(n.value.generators[0].iter) == "vectors" and not n.value.generators[0].ifs and "to_density_matrix" in unparse(n.value.elt)
               for n in walk_no_nested(f.node))
    ctx.ob("R-ENUM", f, "rho_i = to_density_matrix(vectors[i]) for every i", okdm, "in order, unfiltered" if okdm else "density matrices are not built one per input state in order")
    solve_threading(ctx, f, sk)
    returns_optimum(ctx, f, sk)
    return sk


def _unused():
    pass


def min_error_dual(ctx, f, rel, sense):
    m = ctx.model
    sk = Skeleton(m, f)
    if not sk.probs:
        ctx.ob("R-SDP", f, "problem constructed", None, "no picos.Problem", required=False)
        return sk
    from ..sdp import r_hermitian_vars
    r_hermitian_vars(ctx, f, sk)
    p = sk.probs[0]
    ctx.ob("R-SDP", f, f"objective sense == {sense}", p.sense == sense, p.sense or "?", p.node)
    ok_obj = p.objective == ("call", "picos.trace", (("n", "y_var"),), ())
    ctx.ob("R-SDP", f, "objective == Tr Y", ok_obj, "trace(Y)" if ok_obj else f"objective {show(p.objective)[:60] if p.objective else '?'}", p.node)
    fam = [c for c in sk.reaching()[0] if c.rel in (">>", "<<") and ("n", "y_var") in (c.lhs, c.rhs)]
    if not fam:
        ctx.ob("R-SDP", f, f"Y {rel} p_i rho_i for every state", False, "the per-state operator inequalities do not reach the problem")
    else:
        c = fam[0]
        other = c.rhs if c.lhs == ("n", "y_var") else c.lhs
        got_rel = c.rel if c.lhs == ("n", "y_var") else ("<<" if c.rel == ">>" else ">>")
        ctx.ob("R-SDP", f, f"Y {rel} p_i rho_i for every state", got_rel == rel, f"Y {got_rel} p_i rho_i" if got_rel == rel else
               f"inequality direction is Y {got_rel} p_i rho_i; the {'discrimination' if rel == '>>' else 'exclusion'} dual needs Y {rel} p_i rho_i", c.node)
        # enumerate(vectors): index i pairs probs[i] with the same vector
        it_ok = c.loops and c.loops[0][1] == ("call", "builtins.enumerate", (("n", "vectors"),), ()) and len(c.loops[0][0]) == 2
        if it_ok:
            i_name, v_name = c.loops[0][0]
            pr = [s for s in subterms(other) if isinstance(s, tuple) and s and s[0] == "sub" and s[1] == ("n", "probs")]
            dm = [s for s in subterms(other) if isinstance(s, tuple) and s and s[0] == "call" and isinstance(s[1], str) and s[1].endswith("to_density_matrix")]
            okp = bool(pr) and pr[0][2] == ("n", i_name) and bool(dm) and dict(dm[0][3]).get("input_array") == ("n", v_name)
            ctx.ob("R-ENUM", f, "p_i paired with rho_i of the same state, all states", okp, "probs[i] * rho(vectors[i]) over enumerate(vectors)" if okp else f"right-hand side {show(other)[:80]}", c.node)
            gen = c.loops[0][2]
            ctx.ob("R-ENUM", f, "no state is filtered out of the dual constraints", not getattr(gen, "ifs", []), "unfiltered" if not getattr(gen, "ifs", []) else "comprehension has a filter", c.node)
        elif c.loops and mentions_name(c.loops[0][1], "vectors") and c.loops[0][1][0] == "call" and c.loops[0][1][1] in ("builtins.enumerate", "builtins.zip"):
            ctx.ob("R-ENUM", f, "p_i paired with rho_i of the same state, all states", False,
                   f"the dual constraints iterate {show(c.loops[0][1])}, not every input state", c.node)
        else:
            ctx.ob("R-ENUM", f, "p_i paired with rho_i of the same state, all states", None, f"iteration {show(c.loops[0][1]) if c.loops else '?'} not recognised", c.node, required=False)
    v = next((x for x in sk.vars if x.name == "y_var"), None)
    if v is not None:
        oks = v.shape == ("tuple", ("n", "dim"), ("n", "dim")) and v.attrs.get("hermitian") == ("c", True)
        ctx.ob("R-SHAPE", f, "Y is a dim x dim Hermitian variable", oks, "HermitianVariable(dim, dim)" if oks else f"Y declared {v.ctor} {show(v.shape) if v.shape else '?'}", v.node)
    d = sk.dangling()
    ctx.ob("R-SDP", f, "S1 every constraint reaches the problem", not d, "ok" if not d else f"`{unparse(d[0].node)[:50]}` dropped")
    # S7: measurements read back from constraint k for k in range(n): the per-state family must be the first constraints added
    rb = [n for n in walk_no_nested(f.node) if isinstance(n, ast.ListComp) and "get_constraint" in unparse(n.elt)]
    if rb:
        adds = [c for c in calls_in(f.node) if isinstance(c.func, ast.Attribute) and c.func.attr in ("add_constraint", "add_list_of_constraints")]
        adds.sort(key=lambda c: c.lineno)
        first_is_family = bool(adds) and adds[0].func.attr == "add_list_of_constraints" and fam and any(x is fam[0].node for x in ast.walk(adds[0]))
        ctx.ob("R-SDP", f, "S7 duals are read from the per-state constraints (added first, index k = state k)", bool(first_is_family),
               "get_constraint(k) for k < n addresses the state-k inequality" if first_is_family else "another constraint is added before the per-state family: get_constraint(k) reads the wrong dual", rb[0])
        Ni = Normalizer(m, f, inline=True)
        it = Ni(rb[0].generators[0].iter)
        okn = it == ("call", "builtins.range", (("call", "builtins.len", (("n", "vectors"),), ()),), ())
        ctx.ob("R-ENUM", f, "one recovered measurement operator per state", okn, "k in range(len(vectors))" if okn else f"read-back ranges over {show(it)}", rb[0])
    dual_readback_transposed(ctx, f)
    solve_threading(ctx, f, sk)
    returns_optimum(ctx, f, sk)
    return sk


def states_unscaled(ctx, modsuffix):
    """Every |v><v| / rho that enters a programme is to_density_matrix(<the caller's state>): the argument is the loop variable over the
    caller's list (or vectors[i]).  A rescaling written into the argument (v / np.linalg.norm(v)) is the Frobenius norm for a density matrix:
    1 for a pure state, sqrt(purity) < 1 for a mixed one -- mixed states would enter the programme with trace > 1."""
    m = ctx.model
    for q, f in sorted(m.functions.items()):
        if not f.file.endswith(modsuffix) or f.parent is not None:
            continue
        sites, bad = 0, None
        for c in ast.walk(f.node):
            if isinstance(c, ast.Call) and (m.resolve_call(f, c).key or "").endswith("to_density_matrix.to_density_matrix") and (c.args or c.keywords):
                a = c.args[0] if c.args else c.keywords[0].value
                sites += 1
                plain = isinstance(a, ast.Name) or (isinstance(a, ast.Subscript) and isinstance(a.value, ast.Name))
                if not plain and any(isinstance(x, ast.BinOp) and isinstance(x.op, (ast.Div, ast.Mult)) for x in ast.walk(a)):
                    bad = bad or c
        if sites:
            ctx.ob("R-COV", f, "states enter the programme unscaled: to_density_matrix(<caller's state>)", bad is None,
                   f"{sites} conversion(s) of the plain loop variable" if bad is None else
                   f"`{unparse(bad)[:70]}` (line {bad.lineno}) rescales the state before converting it: np.linalg.norm of a density matrix is its Frobenius norm (sqrt of the purity), "
                   "so every genuinely mixed state is scaled to trace > 1 and the optimum is no longer the value of the caller's ensemble", bad)
