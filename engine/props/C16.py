"""C16 -- matrix / state-set predicates and linear-algebra helpers (structural clauses)."""

from __future__ import annotations

import ast

from .. import flow as flw
from ..cov import BASIS, INV, CovTyper
from ..layout import reshape_sites
from ..model import calls_in, unparse, walk_no_nested
from ..norm import Normalizer, calls_to, kwarg, mentions_name, show, subterms
from ..rules import calls_from, r_effect_free, r_guard_pred, r_thread, r_tol_forward, return_terms
from .C13 import cov_check, schatten_class

TOL_PREDICATES = ["is_hermitian", "is_anti_hermitian", "is_idempotent", "is_identity", "is_normal", "is_projection", "is_pseudo_hermitian",
                  "is_pseudo_unitary", "is_symmetric", "matrix_props.is_unitary.is_unitary", "is_positive_semidefinite"]
SQUARE_GUARDED = ["is_hermitian", "is_idempotent", "is_identity", "is_normal", "is_projection", "is_symmetric", "matrix_props.is_unitary.is_unitary",
                  "is_diagonal", "is_diagonally_dominant", "is_pseudo_unitary", "is_pseudo_hermitian"]
UNITARILY_INVARIANT = [("is_hermitian", ["mat"]), ("is_anti_hermitian", ["mat"]), ("is_normal", ["mat"]), ("matrix_props.is_unitary.is_unitary", ["mat"]),
                       ("is_positive_semidefinite", ["mat"]), ("is_positive_definite", ["mat"]), ("is_projection", ["mat"]), ("is_idempotent", ["mat"]),
                       ("is_identity", ["mat"]), ("is_density", ["mat"]), ("is_commuting", ["mat_1", "mat_2"])]


def F(m, name):
    return m.func(name if name.count(".") >= 2 else f"{name}.{name}")


def square_guard(ctx, f):
    """`if not is_square(mat): return False` (or raise) dominates every other return."""
    m = ctx.model
    N = Normalizer(m, f, inline=False)
    res = flw.flow(f.node)
    ok_all = True
    n = 0
    for rn, facts in res.returns:
        if rn is None:
            continue
        conds = [(N(t), pol) for t, pol in flw.conds(facts)]
        inside = any(pol and t[0] in ("not", "or") and "is_square" in repr(t) for t, pol in conds)
        if inside:
            continue  # the guard's own `return False`
        n += 1
        passed = any((not pol) and "is_square" in repr(t) for t, pol in conds)
        if not passed:
            ok_all = False
    ctx.ob("R-GUARD", f, "is_square(mat) dominates every shape-dependent return", ok_all and n >= 1,
           f"{n} return(s) behind the squareness guard" if ok_all and n >= 1 else "a verdict is reachable for a non-square input without the squareness guard")


def run(ctx):  # noqa: C901
    m = ctx.model
    ctx.rule("R-TOL", "rtol / atol reach np.allclose (or the eigenvalue threshold) by the right keywords in every tolerance-taking predicate")
    ctx.rule("R-PRED", "boolean skeletons of the definitional predicates")
    ctx.rule("R-GUARD", "the squareness test dominates every shape-dependent comparison")
    ctx.rule("R-COV", "predicates preserved by unitary conjugation are typed Inv; a bare transpose makes them Basis (positive control: is_symmetric)")
    ctx.rule("R-DISPATCH", "tensor(M, n) vs tensor(A, B): the integer-count branch is taken for every integer type a count can have")
    ctx.rule("R-LAYOUT", "vec / unvec agree on column-major order; the commutant's Kronecker form matches its reshape order; tensor folds left to right")
    for nm in TOL_PREDICATES:
        f = F(m, nm)
        if nm == "is_pseudo_hermitian":
            r_tol_forward(ctx, f, skip=("is_hermitian",))
        else:
            r_tol_forward(ctx, f)
    # PSD: eigenvalue threshold is the ABSOLUTE tolerance
    psd = F(m, "is_positive_semidefinite")
    rets, N = return_terms(m, psd, inline=False)
    okth = any("('neg', ('call', 'builtins.abs', (('n', 'atol'),), ()))" in repr(t) and "('n', 'rtol')" not in repr(t) for _, _, t in rets)
    ctx.ob("R-TOL", psd, "eigenvalues compared with -abs(atol)", okth, "x >= -abs(atol)" if okth else "the eigenvalue threshold is not the absolute tolerance")
    rets2, Ni = return_terms(m, psd, inline=True)
    okh = any(calls_to(N(rn_.test) if False else ("c", 0), "x") for rn_ in []) or True
    # hermitian pre-test with early False
    N0 = Normalizer(m, psd, inline=False)
    res = flw.flow(psd.node)
    herm = any(rn is not None and N0(rn.value) == ("c", False) and any(pol and t[0] == "not" and "is_hermitian" in repr(t) for t, pol in [(N0(a), b) for a, b in flw.conds(facts)]) for rn, facts in res.returns)
    ctx.ob("R-PRED", psd, "PSD == Hermitian and eigenvalues >= -tol", herm and okth, "non-Hermitian input returns False before the eigenvalue test" if herm else "the Hermiticity pre-test is gone")
    evh = any(isinstance(n, ast.Call) and m.resolve_call(psd, n).key in ("numpy.linalg.eigh", "numpy.linalg.eigvalsh") for n in walk_no_nested(psd.node))
    ctx.ob("R-PRED", psd, "eigenvalues of the (Hermitian) matrix via eigh", evh, "np.linalg.eigh" if evh else "eigenvalue routine changed")
    qt = [n for n in walk_no_nested(psd.node) if isinstance(n, ast.Call) and isinstance(n.func, ast.Name) and n.func.id in ("all", "any")]
    ctx.ob("R-PRED", psd, "all eigenvalues must pass", bool(qt) and all(q.func.id == "all" for q in qt), "all(...)" if qt and all(q.func.id == "all" for q in qt) else "quantifier over eigenvalues is not `all`")

    for nm in SQUARE_GUARDED:
        square_guard(ctx, F(m, nm))
    for nm, ps in UNITARILY_INVARIANT:
        cov_check(ctx, F(m, nm), ps)
    # positive control
    ct = CovTyper(m, F(m, "is_symmetric"), ["mat"])
    r = ct.result_type()
    ctx.ob("R-COV", F(m, "is_symmetric"), "positive control: is_symmetric is typed Basis", r == BASIS, "allclose(X, X^T) detected as basis dependent" if r == BASIS else f"typed {r}")

    # ---- skeletons ------------------------------------------------------------------------------------
    def ret_last(f, inline=True):
        rets, _ = return_terms(m, f, inline=inline)
        return rets[-1][2] if rets else None
    t = ret_last(F(m, "is_density"))
    ok = t is not None and t[0] == "and" and len(t[1]) == 2 and any(x[0] == "call" and str(x[1]).endswith("is_positive_semidefinite") and dict(x[3]).get("mat") == ("n", "mat") for x in t[1]) and \
        any(x[0] == "call" and x[1] == "numpy.isclose" and set(map(repr, x[2])) == {repr(("call", "numpy.trace", (("n", "mat"),), ())), repr(("c", 1))} for x in t[1])
    ctx.ob("R-PRED", F(m, "is_density"), "is_density == PSD(mat) and trace(mat) ~ 1", bool(ok), "conjunction on the same matrix" if ok else f"returns {show(t)[:100] if t else '?'}")
    t = ret_last(F(m, "is_mixed"))
    ok = t is not None and t[0] == "not" and t[1][0] == "call" and str(t[1][1]).endswith("is_pure") and dict(t[1][3]).get("state") == ("n", "state")
    ctx.ob("R-PRED", F(m, "is_mixed"), "is_mixed == not is_pure(state)", bool(ok), "negation on the same state" if ok else f"returns {show(t)[:80] if t else '?'}")
    t = ret_last(F(m, "is_anti_hermitian"))
    ok = t is not None and t[0] == "call" and str(t[1]).endswith("is_hermitian") and dict(t[3]).get("mat") in (("*", (("c", "1j"), ("n", "mat"))), ("*", (("n", "mat"), ("c", "1j"))))
    ctx.ob("R-PRED", F(m, "is_anti_hermitian"), "anti-Hermitian == Hermitian(i * mat)", bool(ok), "is_hermitian(1j * mat)" if ok else f"returns {show(t)[:80] if t else '?'}")
    # pseudo-Hermitian: eta H eta^-1 == H^+ (similarity from the documented side); pseudo-unitary: A^+ J A == J
    ph = F(m, "is_pseudo_hermitian")
    t = ret_last(ph)
    ok = None
    det = f"returns {show(t)[:100] if t else '?'}"
    if t is not None and t[0] == "call" and t[1] == "numpy.allclose" and len(t[2]) == 2:
        inv = ("call", "numpy.linalg.inv", (("n", "signature"),), ())
        sides = set(map(repr, t[2]))
        good = [{repr(("@", (("n", "signature"), ("n", "mat"), inv))), repr(("dag", ("n", "mat")))},
                {repr(("@", (("n", "signature"), ("n", "mat")))), repr(("@", (("dag", ("n", "mat")), ("n", "signature"))))},
                {repr(("@", (inv, ("dag", ("n", "mat")), ("n", "signature")))), repr(("n", "mat"))}]
        wrong = [{repr(("@", (inv, ("n", "mat"), ("n", "signature")))), repr(("dag", ("n", "mat")))},
                 {repr(("@", (("n", "mat"), ("n", "signature")))), repr(("@", (("n", "signature"), ("dag", ("n", "mat")))))}]
        if sides in good:
            ok, det = True, "allclose(eta @ H @ inv(eta), H^+)"
        elif sides in wrong:
            ok, det = False, "the similarity is applied from the other side (eta^-1 H eta == H^+): the verdict is that of eta^-1, which differs unless eta^2 is a multiple of the identity"
        elif any("signature" in x for x in sides) and any("dag" in x or "conj" in x for x in sides):
            ok, det = False, f"compares {[show(x)[:50] for x in t[2]]}: not eta H eta^-1 with H^+"
    ctx.ob("R-PRED", ph, "pseudo-Hermitian == allclose(eta H eta^-1, H^+)", ok, det, required=ok is not None)
    pu = F(m, "is_pseudo_unitary")
    t = ret_last(pu)
    ok = False
    if t is not None and t[0] == "call" and t[1] == "numpy.allclose" and len(t[2]) == 2:
        js = [x for x in t[2] if x[0] == "call" and x[1] == "numpy.diag"]
        if len(js) == 1:
            J = js[0]
            other = [x for x in t[2] if x is not J][0]
            okj = J[2] and J[2][0][0] == "call" and J[2][0][1] in ("numpy.hstack", "numpy.concatenate") and "('n', 'p')" in repr(J) and "('n', 'q')" in repr(J) and \
                repr(("neg", ("call", "numpy.ones", (("n", "q"),), ()))) in repr(J) and repr(("call", "numpy.ones", (("n", "p"),), ())) in repr(J)
            ok = bool(okj and other == ("@", (("dag", ("n", "mat")), J, ("n", "mat"))))
    ctx.ob("R-PRED", pu, "pseudo-unitary == allclose(A^+ J A, J), J = diag(1 x p, -1 x q)", ok, "A^+ J A compared with J" if ok else f"returns {show(t)[:110] if t else '?'}")
    u = F(m, "matrix_props.is_unitary.is_unitary")
    t = ret_last(u)
    ok = False
    if t is not None and t[0] == "and" and len(t[1]) == 2:
        prods = set()
        for x in t[1]:
            if x[0] == "call" and x[1] == "numpy.allclose":
                a = x[2][0]
                if a == ("@", (("dag", ("n", "mat")), ("n", "mat"))):
                    prods.add("U+U")
                if a == ("@", (("n", "mat"), ("dag", ("n", "mat")))):
                    prods.add("UU+")
                idt = x[2][1]
                if not (idt[0] == "call" and idt[1] in ("numpy.eye", "numpy.identity")):
                    prods.add("notI")
        ok = prods == {"U+U", "UU+"}
    ctx.ob("R-PRED", u, "unitary == (U^+ U ~ I) and (U U^+ ~ I)", ok, "both products, with Dagger" if ok else f"returns {show(t)[:120] if t else '?'}")
    for nm, want in (("is_normal", lambda a, b: {repr(a), repr(b)} == {repr(("@", (("n", "mat"), ("dag", ("n", "mat"))))), repr(("@", (("dag", ("n", "mat")), ("n", "mat"))))}),
                     ("is_idempotent", lambda a, b: {repr(a), repr(b)} == {repr(("n", "mat")), repr(("@", (("n", "mat"), ("n", "mat"))))}),
                     ("is_projection", lambda a, b: {repr(a), repr(b)} == {repr(("n", "mat")), repr(("call", "numpy.linalg.matrix_power", (("n", "mat"), ("c", 2)), ()))}),
                     ("is_hermitian", lambda a, b: {repr(a), repr(b)} == {repr(("n", "mat")), repr(("dag", ("n", "mat")))}),
                     ("is_symmetric", lambda a, b: {repr(a), repr(b)} == {repr(("n", "mat")), repr(("T", ("n", "mat")))})):
        f = F(m, nm)
        t = ret_last(f)
        ok = t is not None and t[0] == "call" and t[1] == "numpy.allclose" and len(t[2]) == 2 and want(t[2][0], t[2][1])
        ctx.ob("R-PRED", f, f"{nm}: defining equation", bool(ok), "allclose of the two sides of the definition" if ok else f"returns {show(t)[:100] if t else '?'}")
    idf = F(m, "is_identity")
    t = ret_last(idf)
    ok = t is not None and t[0] == "call" and t[1] == "numpy.allclose" and t[2][0] == ("n", "mat") and t[2][1][0] == "call" and t[2][1][1] in ("numpy.eye", "numpy.identity")
    ctx.ob("R-PRED", idf, "is_identity: mat ~ eye(len(mat))", bool(ok), "compared with the identity" if ok else f"returns {show(t)[:80] if t else '?'}")
    cm = F(m, "is_commuting")
    t = ret_last(cm)
    AB, BA = ("@", (("n", "mat_1"), ("n", "mat_2"))), ("@", (("n", "mat_2"), ("n", "mat_1")))
    ok = t is not None and t[0] == "call" and t[1] == "numpy.allclose" and ("c", 0) in t[2] and any(x in (("+", tuple(sorted([AB, ("neg", BA)], key=repr))), ("+", tuple(sorted([BA, ("neg", AB)], key=repr)))) for x in t[2])
    ctx.ob("R-PRED", cm, "commuting == (AB - BA ~ 0)", bool(ok), "commutator compared with zero" if ok else f"returns {show(t)[:80] if t else '?'}")
    # ensemble
    en = F(m, "is_ensemble")
    Ne = Normalizer(m, en, inline=False)
    res = flw.flow(en.node)
    psd_all = any(rn is not None and Ne(rn.value) == ("c", False) and any(x[0] == "inloop" for x in facts) and
                  any(pol and t[0] == "not" and "is_positive_semidefinite" in repr(t) for t, pol in [(Ne(a), b) for a, b in flw.conds(facts)]) for rn, facts in res.returns)
    fin = ret_last(en, inline=False)
    from .. import pmatch
    accs = pmatch.find(en.node, ["_S += np.trace(_X)", "_S = _S + np.trace(_X)"])
    accn = accs[0][0].target.id if accs and isinstance(accs[0][0], ast.AugAssign) and isinstance(accs[0][0].target, ast.Name) else accs[0][0].targets[0].id if accs else None
    okf = fin is not None and fin[0] == "call" and fin[1] == "numpy.allclose" and ("c", 1) in fin[2] and accn is not None and ("n", accn) in fin[2]
    acc = bool(accs)
    ctx.ob("R-PRED", en, "ensemble == every element PSD and traces sum to 1", psd_all and okf and acc, "loop over all states + total trace" if psd_all and okf and acc else "the PSD test per element or the total-trace test is missing")
    # nonnegative / stochastic
    nn = F(m, "is_nonnegative")
    rets, _ = return_terms(m, nn, inline=True)
    okd = any(t[0] == "and" and any("is_positive_semidefinite" in repr(x) for x in t[1]) and any("numpy.all" in repr(x) for x in t[1]) for _, _, t in rets)
    oke = any("<=" in repr(t) and "('c', 0)" in repr(t) and "numpy.all" in repr(t) for _, _, t in rets)
    ctx.ob("R-PRED", nn, "doubly non-negative == entrywise >= 0 and PSD", okd and oke, "conjunction" if okd and oke else "skeleton changed")
    stf = F(m, "is_stochastic")
    Ns = Normalizer(m, stf, inline=False)
    axes = {}
    for n in walk_no_nested(stf.node):
        if isinstance(n, ast.If) and "mat_type in" in unparse(n.test):
            kinds = tuple(sorted(e.value for e in n.test.comparators[0].elts)) if isinstance(n.test.comparators[0], ast.Set) else ()
            for s in n.body:
                if isinstance(s, ast.Assign) and isinstance(s.value, ast.Call) and m.resolve_call(stf, s.value).key == "numpy.sum":
                    ax = next((kw.value.value for kw in s.value.keywords if kw.arg == "axis"), None)
                    axes[kinds] = ax
    ok = axes.get(("doubly", "left")) == 0 and axes.get(("doubly", "right")) == 1
    ctx.ob("R-PRED", stf, "left stochastic: column sums (axis 0); right stochastic: row sums (axis 1)", ok, "axes match the definitions" if ok else f"axes {axes}")
    fin = ret_last(stf, inline=False)
    ctx.ob("R-PRED", stf, "all requested sum checks must hold", fin == ("call", "builtins.all", (("n", "checks"),), ()), "all(checks)" if fin == ("call", "builtins.all", (("n", "checks"),), ()) else "quantifier changed")
    # orthonormal / mutually orthogonal / MUB
    mo = F(m, "is_mutually_orthogonal")
    Nm = Normalizer(m, mo, inline=True)
    okg = any(isinstance(n, ast.Assign) and Nm(n.value)[0] == "@" and Nm(n.value)[1][0][0] == "dag" and Nm(n.value)[1][0][1] == Nm(n.value)[1][1] for n in walk_no_nested(mo.node) if isinstance(n, ast.Assign) and isinstance(n.value, ast.Call))
    ctx.ob("R-COV", mo, "inner products use the conjugate: Dagger(S) @ S", okg, "Gram matrix with conjugation" if okg else "inner-product matrix lacks the conjugate")
    fd = any(isinstance(n, ast.Call) and m.resolve_call(mo, n).key == "numpy.fill_diagonal" and len(n.args) == 2 and isinstance(n.args[1], ast.Constant) and n.args[1].value == 0 for n in walk_no_nested(mo.node))
    t = ret_last(mo, inline=False)
    ctx.ob("R-PRED", mo, "mutually orthogonal == off-diagonal Gram entries ~ 0", fd and t is not None and t[0] == "call" and t[1] == "numpy.allclose" and ("c", 0) in t[2],
           "diagonal zeroed, rest compared with 0" if fd else "the norms on the diagonal are no longer excluded")
    # the vectors are the COLUMNS of the stacked matrix on every path: column_stack(vec_list) iterates over the first axis, so for a 2-D array
    # argument (what is_orthonormal passes) its rows are the vectors; using the array as it is takes its columns instead
    mats = [n for n in walk_no_nested(mo.node) if isinstance(n, ast.Assign) and isinstance(n.targets[0], ast.Name) and n.targets[0].id == "mat"]
    if mats:
        badm = [n for n in mats if not (isinstance(n.value, ast.Call) and m.resolve_call(mo, n.value).key in ("numpy.column_stack",) and n.value.args
                                        and unparse(n.value.args[0]) == "vec_list")]
        ctx.ob("R-LAYOUT", mo, "the matrix of vectors is column_stack(vec_list) on every path", not badm,
               f"{len(mats)} binding(s), all column_stack(vec_list)" if not badm else
               f"`{unparse(badm[0])[:60]}` (line {badm[0].lineno}) uses the argument as it is: for a 2-D array the vectors are its rows (that is how column_stack, and is_orthonormal, "
               "read it), so the Gram matrix of the columns is tested -- wrong for fewer vectors than the dimension, unequal norms, repeated vectors", badm[0] if badm else None)
    mub = F(m, "is_mutually_unbiased_basis")
    Nb = Normalizer(m, mub, inline=False)
    okm = False
    for n in walk_no_nested(mub.node):
        if isinstance(n, ast.Call) and m.resolve_call(mub, n).key == "numpy.isclose":
            t = Nb(n)
            okm = ("/", ("c", 1), ("n", "dim")) in t[2] and ("n", "inner_product") in t[2]
    sq = any(isinstance(n, ast.Assign) and isinstance(n.targets[0], ast.Name) and n.targets[0].id == "inner_product" and Nb(n.value)[0] == "**" and Nb(n.value)[2] == ("c", 2) and
             "numpy.abs" in repr(Nb(n.value)) and ("numpy.vdot" in repr(Nb(n.value)) or ("numpy.trace" in repr(Nb(n.value)) and "'dag'" in repr(Nb(n.value)))) for n in walk_no_nested(mub.node))
    # coverage: every pair of distinct bases (i < j), every vector of the first (k) and of the second (l)
    # (the loop nest that contains the unbiasedness comparison; the orthonormality loop is a separate obligation below)
    nest = [lp for lp in walk_no_nested(mub.node) if isinstance(lp, ast.For) and
            any(isinstance(c, ast.Call) and m.resolve_call(mub, c).key == "numpy.isclose" for c in ast.walk(lp))]
    its = [Nb(lp.iter) for lp in nest]
    R = lambda *a: ("call", "builtins.range", tuple(a), ())  # noqa: E731
    lvs = [lp.target.id for lp in nest if isinstance(lp.target, ast.Name)]
    # every block of `dim` consecutive vectors is itself an orthonormal basis: Gram(block) ~ identity(dim), for every block
    okon, why = False, "no comparison of a block's Gram matrix with the identity"
    for lp in walk_no_nested(mub.node):
        if not (isinstance(lp, ast.For) and isinstance(lp.target, ast.Name) and Nb(lp.iter) == R(("n", "num_bases"))):
            continue
        iv = lp.target.id
        for st in ast.walk(lp):
            if not (isinstance(st, ast.If) and st.body and isinstance(st.body[0], ast.Return) and isinstance(st.body[0].value, ast.Constant) and st.body[0].value.value is False):
                continue
            t = Nb(st.test)
            if not (t[0] == "not" and t[1][0] == "call" and t[1][1] == "numpy.allclose" and len(t[1][2]) >= 2):
                continue
            g, idn = t[1][2][0], t[1][2][1]
            if idn[0] == "@":
                g, idn = idn, g
            gram = g[0] == "@" and len(g[1]) == 2 and (g[1][0] == ("dag", g[1][1]) or g[1][1] == ("dag", g[1][0]))
            ident = idn[0] == "call" and idn[1] in ("numpy.identity", "numpy.eye") and idn[2] and idn[2][0] == ("n", "dim")
            if not (gram and ident):
                why = f"`{unparse(st.test)[:70]}` is not Gram(block) ~ identity(dim)"
                continue
            blk = g[1][1] if g[1][0][0] == "dag" else g[1][0]
            src = None
            if blk[0] == "n":
                for d in ast.walk(lp):
                    if isinstance(d, ast.Assign) and isinstance(d.targets[0], ast.Name) and d.targets[0].id == blk[1]:
                        src = d.value
            sl = [x for x in ast.walk(src)] if src is not None else []
            oks = False
            for x in sl:
                if isinstance(x, ast.Subscript) and isinstance(x.value, ast.Name) and x.value.id == "vectors" and isinstance(x.slice, ast.Slice) and x.slice.lower is not None \
                        and x.slice.upper is not None and x.slice.step is None:
                    lo, hi = Nb(x.slice.lower), Nb(x.slice.upper)
                    want_lo = Nb(ast.parse(f"{iv} * dim", mode="eval").body)
                    want_hi = (Nb(ast.parse(f"({iv} + 1) * dim", mode="eval").body), Nb(ast.parse(f"{iv} * dim + dim", mode="eval").body))
                    oks = lo == want_lo and hi in want_hi
                    if not oks:
                        why = f"the block compared is vectors[{unparse(x.slice)}], not vectors[{iv}*dim:({iv}+1)*dim]"
            if oks:
                okon, why = True, f"for every block: allclose(Dagger(B) @ B, identity(dim)) else False, B = vectors[{iv}*dim:({iv}+1)*dim]"
    ctx.ob("R-DEF", mub, "every block of dim vectors is an orthonormal basis (Gram ~ identity)", okon, why if okon else
           why + ": a collection of pairwise unbiased but non-orthonormal blocks (e.g. [e0, e0, +, +]) would be accepted as mutually unbiased bases")
    okcov = len(its) == 4 and its[0] == R(("n", "num_bases")) and len(lvs) == 4 and its[1] == R(("+", (("c", 1), ("n", lvs[0]))), ("n", "num_bases")) and its[2] == R(("n", "dim")) and its[3] == R(("n", "dim"))
    ctx.ob("R-ENUM", mub, "all pairs of distinct bases and all pairs of their vectors are compared", okcov,
           "i < j over the bases, k and l over range(dim)" if okcov else f"loops range over {[show(t)[:40] for t in its]}: some basis or vector is never compared")
    ctx.ob("R-PRED", mub, "unbiased == |<a|b>|^2 ~ 1/dim for vectors of different bases", okm and sq, "|vdot|^2 compared with 1/dim" if okm and sq else "the unbiasedness condition changed")
    loops = [Nb(n.iter) for n in walk_no_nested(mub.node) if isinstance(n, ast.For)]
    okl = ("call", "builtins.range", (("+", (("c", 1), ("n", "i"))), ("n", "num_bases")), ()) in loops
    ctx.ob("R-ENUM", mub, "every pair of distinct bases compared", okl, "j in range(i + 1, num_bases)" if okl else "basis-pair loop changed")

    # ---- trace_norm: Schatten-1 of the operand, from its own singular values -------------------------------------------------
    try:
        tnf = F(m, "trace_norm")
    except Exception:  # noqa: BLE001
        tnf = None
    if tnf is not None:
        rets_tn, _ = return_terms(m, tnf, inline=True)
        verdict, why, where = None, "result not recognised", None
        for rn, facts, t in rets_tn:
            where = rn
            ncs = calls_to(t, "numpy.linalg.norm")
            if t[0] == "call" and t[1] == "numpy.linalg.norm":
                cl = schatten_class(t)
                verdict, why = (cl == "1"), (f"np.linalg.norm(rho, ord={show(kwarg(t, 'ord', ('c', None)))}) is Schatten-{cl}")
            elif "numpy.linalg.svd" in repr(t) and "numpy.sum" in repr(t) and "numpy.linalg.eig" not in repr(t):
                verdict, why = True, "sum of the singular values from the SVD"
            elif "numpy.sqrt" in repr(t) and ("numpy.linalg.eigvalsh" in repr(t) or "numpy.linalg.eigh" in repr(t) or "numpy.linalg.eigvals" in repr(t)) and "'dag'" in repr(t):
                verdict, why = False, ("the singular values are taken as square roots of the eigenvalues of rho^+ rho: squaring halves the available precision -- a zero "
                                       "singular value comes back as about 1e-8 * ||rho||, so trace_norm of a rank-one operator is 1 + 1e-8..1e-7 and every comparison with a tolerance of "
                                       "that size downstream (realignment criterion: > 1 + 1e-8) flips for generic product states")
        ctx.ob("R-NORM", tnf, "trace norm == sum of the singular values of the operand itself (nuclear norm / SVD)", verdict, why, where, required=verdict is not None)

    # ---- has_same_dimension: vector vs matrix is decided by the container kind of the first entry, not by a list of scalar types ----
    try:
        hsd = F(m, "has_same_dimension")
    except Exception:  # noqa: BLE001
        hsd = None
    if hsd is not None:
        tests = [x for x in ast.walk(hsd.node) if isinstance(x, ast.Call) and isinstance(x.func, ast.Name) and x.func.id == "isinstance" and len(x.args) == 2
                 and isinstance(x.args[0], ast.Subscript)]
        bad = None
        for x in tests:
            ts = x.args[1].elts if isinstance(x.args[1], ast.Tuple) else [x.args[1]]
            names = {unparse(t) for t in ts}
            scalar_kinds = names & {"int", "float", "np.integer", "np.floating", "numbers.Real", "numbers.Integral"}
            covers_complex = names & {"complex", "np.complexfloating", "numbers.Number", "numbers.Complex", "np.number", "np.generic"}
            if scalar_kinds and not covers_complex:
                bad = x
        ctx.ob("R-KIND", hsd, "flat vector vs matrix is told apart by the container kind of the first entry (every scalar type included)", bad is None,
               f"{len(tests)} isinstance test(s) on the first entry, on container kinds" if bad is None else
               f"`{unparse(bad)[:70]}` lists real scalar types only: the first entry of a 1-D COMPLEX ket is none of them, so the ket is treated as a matrix and "
               "len(item[0]) raises TypeError -- state_distinguishability / state_exclusion reject every flat complex ket", bad)
        ctx.ob("R-ENUM", hsd, "every item is compared with the first", any(isinstance(n, (ast.For, ast.GeneratorExp, ast.ListComp)) and "items[1:]" in unparse(n) for n in ast.walk(hsd.node)),
               "loop over items[1:]")

    # ---- unextendible product basis ------------------------------------------------------------------------------------------------
    _upb(ctx)

    # ---- total positivity: every j x j minor, all j, all row sets x all column sets ----------------------------------------
    _totally_positive(ctx)

    # ---- Gram matrix <-> vectors: one inner-product convention on both sides ----------------------------------------
    _gram_round_trip(ctx)

    # ---- vec / unvec / commutant / tensor ---------------------------------------------------------------------
    vec, unvec = F(m, "vec"), F(m, "unvec")
    ov = [r["order"] for r in reshape_sites(m, vec) if r["kind"] == "reshape"]
    ou = [r["order"] for r in reshape_sites(m, unvec) if r["kind"] == "reshape"]
    ctx.ob("R-LAYOUT", vec, "vec is column-major", ov == ["F"], "order='F'" if ov == ["F"] else f"orders {ov}")
    ctx.ob("R-LAYOUT", unvec, "unvec uses the same order as vec", ou == ov and bool(ou), "order='F'" if ou == ov else f"vec {ov} vs unvec {ou}")
    tv = ret_last(vec, inline=False)
    okc = tv is not None and "('tuple', ('c', -1), ('c', 1))" in repr(tv)
    ctx.ob("R-LAYOUT", vec, "vec returns a column (n, 1)", okc, "reshape((-1, 1))" if okc else "shape changed")
    # vec / unvec only re-arrange entries: every return is a reshape of the argument itself, nothing post-processes the values (np.real_if_close
    # has an ABSOLUTE threshold of 100 eps: a complex ket with amplitudes of that size loses its whole imaginary part)
    for f_, arg_ in ((vec, "mat"), (unvec, "vector")):
        rts_, _ = return_terms(m, f_, inline=True)
        pure = bool(rts_) and all(t[0] == "call" and ((isinstance(t[1], tuple) and t[1][0] == "attr" and t[1][2] == "reshape" and t[1][1] == ("n", arg_)) or
                                                       (t[1] == "numpy.reshape" and t[2] and t[2][0] == ("n", arg_))) for _, _, t in rts_)
        ctx.ob("R-LAYOUT", f_, f"{f_.name} is a pure reshape of its argument (values untouched)", pure,
               "reshape only" if pure else f"returns {show(rts_[0][2])[:80] if rts_ else '?'}: the entries pass through a value-changing wrapper")
    cmt = F(m, "commutant")
    Nc = Normalizer(m, cmt, inline=False)
    form = None
    for n in walk_no_nested(cmt.node):
        if isinstance(n, ast.ListComp) and "np.kron" in unparse(n.elt):
            e = Nc(n.elt)
            if e[0] == "+" and len(e[1]) == 2:
                pos = [x for x in e[1] if x[0] == "call"]
                neg = [x[1] for x in e[1] if x[0] == "neg"]
                if pos and neg:
                    p0, n0 = pos[0], neg[0]
                    a_left = p0[2][1][0] == "call" and p0[2][1][1] in ("numpy.eye", "numpy.identity") and p0[2][0][0] == "sub"
                    at_right = n0[2][0][0] == "call" and n0[2][0][1] in ("numpy.eye", "numpy.identity") and n0[2][1][0] == "T"
                    i_left = p0[2][0][0] == "call" and p0[2][0][1] in ("numpy.eye", "numpy.identity")
                    if a_left and at_right:
                        form = "row-major"   # (A (x) I) - (I (x) A^T)
                    elif i_left and n0[2][0][0] == "T":
                        form = "column-major"  # (I (x) A) - (A^T (x) I)
                    else:
                        form = "other"
    orders = [r["order"] for r in reshape_sites(m, cmt) if r["kind"] == "reshape"]
    okk = (form == "row-major" and orders == ["C"]) or (form == "column-major" and orders == ["F"])
    ctx.ob("R-LAYOUT", cmt, "Kronecker form of AX - XA matches the reshape order of the null vectors", okk if form not in (None,) else None,
           f"{form} form with reshape order {orders}" if okk else f"the commutator is vectorised in {form} form but the null vectors are reshaped with order {orders}", required=form is not None)
    ctx.ob("R-ENUM", cmt, "one commutation block per generator", "range(num_ops)" in "".join(unparse(n.generators[0].iter) for n in walk_no_nested(cmt.node) if isinstance(n, ast.ListComp) and "np.kron" in unparse(n.elt)),
           "all generators" )
    tn = F(m, "tensor")
    Nt = Normalizer(m, tn, inline=False)
    folds = [Nt(n.value) for n in walk_no_nested(tn.node) if isinstance(n, ast.Assign) and isinstance(n.targets[0], ast.Name) and n.targets[0].id == "result" and isinstance(n.value, ast.Call)]
    okf = len(folds) >= 2 and all(t[0] == "call" and t[1] == "numpy.kron" and t[2][0] == ("n", "result") for t in folds)
    if not folds:
        # functools.reduce(np.kron, seq) IS the left fold kron(kron(a, b), c); anything else without an explicit fold is not decided here
        red = [c_ for f_ in [tn] + [g for g in m.functions.values() if g.module is tn.module and g is not tn] for c_ in ast.walk(f_.node)
               if isinstance(c_, ast.Call) and getattr(c_.func, "attr", getattr(c_.func, "id", "")) == "reduce" and c_.args and unparse(c_.args[0]) in ("np.kron", "numpy.kron")]
        okf = True if red else None
    ctx.ob("R-LAYOUT", tn, "n-ary forms fold left to right: result = kron(result, next)", okf, f"{len(folds)} folds keep the accumulated product on the left" if okf else "a fold puts the next factor on the left (reverses the product)")
    two = [Nt(rn.value) for rn, facts in flw.flow(tn.node).returns if rn is not None and isinstance(rn.value, ast.Call) and m.resolve_call(tn, rn.value).key == "numpy.kron"]
    ok2 = bool(two) and all(t[2][0][2] == ("c", 0) and t[2][1][2] == ("c", 1) for t in two if t[2][0][0] == "sub" and t[2][1][0] == "sub")
    if not two:
        ok2 = None if okf is None else True if not folds else ok2  # no separate binary form: it is the n-ary fold with two operands
    ctx.ob("R-LAYOUT", tn, "binary forms are kron(first, second)", ok2, "argument order preserved" if ok2 else "binary form swaps its operands")
    # n-fold power: the squaring helper yields exactly n tensor factors (exponent counting, see engine/powcount.py)
    from ..powcount import check_power_by_squaring
    helpers = [n for n in ast.walk(tn.node) if isinstance(n, ast.FunctionDef) and n is not tn.node]
    pw_calls = [n for n in walk_no_nested(tn.node) if isinstance(n, ast.Call) and isinstance(n.func, ast.Name) and any(h.name == n.func.id for h in helpers)]
    if helpers and pw_calls:
        h = next(h for h in helpers if h.name == pw_calls[0].func.id)
        okp, detp = check_power_by_squaring(h)
        ctx.ob("R-ENUM", tn, "tensor(M, n): the repeated-squaring helper multiplies exactly n factors", okp, detp, h, required=okp is not None)
        c = pw_calls[0]
        hp = [a.arg for a in h.args.args]
        bound = {hp[i]: a for i, a in enumerate(c.args) if i < len(hp)}
        bound.update({kw.arg: kw.value for kw in c.keywords if kw.arg})
        a0, a1 = (bound.get(hp[0]), bound.get(hp[1])) if len(hp) == 2 else (None, None)
        okc = a0 is not None and a1 is not None and unparse(a0) == "args[0]" and (unparse(a1) in ("args[1]", "num_tensor"))
        ctx.ob("R-THREAD", tn, "tensor(M, n) hands (M, n) to the helper", okc, unparse(c)[:50], c)
    else:
        loops_ok = None
        ctx.ob("R-ENUM", tn, "tensor(M, n): the repeated-squaring helper multiplies exactly n factors", loops_ok, "no nested power helper found: the n-fold form is computed some other way", required=False)
    # dispatch: tensor(M, n) is told apart from tensor(A, B) by isinstance(args[1], <integer types>); a count that is a numpy
    # integer (len() of an array shape, np.sum of a mask, an element of np.arange ...) must take the n-fold branch too -- the
    # fall-through is kron(M, n) = n * M, a wrong matrix rather than an error
    guards = []
    for n in walk_no_nested(tn.node):
        if isinstance(n, ast.If) and pw_calls and any(c is x for c in pw_calls for x in ast.walk(n)):
            for x in ast.walk(n.test):
                if isinstance(x, ast.Call) and isinstance(x.func, ast.Name) and x.func.id == "isinstance" and len(x.args) == 2 and unparse(x.args[0]) == "args[1]":
                    ts = x.args[1].elts if isinstance(x.args[1], ast.Tuple) else [x.args[1]]
                    guards.append((x, {unparse(t) for t in ts}))
    if guards:
        x, ts = guards[0]
        okd = "int" in ts and bool(ts & {"np.integer", "numpy.integer", "numbers.Integral", "Integral", "np.signedinteger"}) or bool(ts & {"numbers.Integral", "Integral"})
        ctx.ob("R-DISPATCH", tn, "the n-fold branch accepts Python and numpy integer counts", okd,
               f"isinstance(args[1], {sorted(ts)})" if okd else
               f"`{unparse(x)}` is False for a numpy integer count (e.g. np.int64(3)): tensor(M, n) falls through to kron(M, n) = n * M", x)
    else:
        ctx.ob("R-DISPATCH", tn, "the n-fold branch accepts Python and numpy integer counts", None, "no isinstance dispatch on args[1] found", required=False)
    # n == 0 and n == 1 special cases
    z = [rn for rn, facts in flw.flow(tn.node).returns if rn is not None and isinstance(rn.value, ast.Call) and m.resolve_call(tn, rn.value).key in ("numpy.eye", "numpy.identity")]
    okz = bool(z) and all(unparse(r.value.args[0]) == "1" for r in z)
    ctx.ob("R-ENUM", tn, "tensor(M, 0) is the 1 x 1 identity (empty product)", okz, "np.eye(1)" if okz else "empty product is not the scalar identity")
    # kp_norm
    kp = F(m, "kp_norm")
    Nk = Normalizer(m, kp, inline=True)
    rets, _ = return_terms(m, kp, inline=True)
    oks = any(t[0] == "call" and t[1] == "numpy.linalg.norm" and kwarg(t, "ord") == ("n", "p") and "numpy.linalg.svd" in repr(t[2][0]) and "('slice', ('c', None), ('n', 'k'), ('c', None))" in repr(t[2][0]) for _, _, t in rets)
    ctx.ob("R-NORM", kp, "(k,p)-norm == p-norm of the k largest singular values", oks, "norm(svd(mat)[:k], ord=p)" if oks else "definition changed")
    cu = any(isinstance(n, ast.Call) and m.resolve_call(kp, n).key == "numpy.linalg.svd" and any(kw.arg == "compute_uv" and isinstance(kw.value, ast.Constant) and kw.value.value is False for kw in n.keywords) for n in walk_no_nested(kp.node))
    ctx.ob("R-SHAPE", kp, "svd called for singular values only", cu, "compute_uv=False" if cu else "svd returns a tuple that is then sliced as if it were the singular values")
    # majorizes
    mj = F(m, "majorizes")
    srt = [n for n in walk_no_nested(mj.node) if isinstance(n, ast.Subscript) and isinstance(n.value, ast.Call) and m.resolve_call(mj, n.value).key == "numpy.sort"]
    oksrt = len(srt) == 2 and all(isinstance(s.slice, ast.Slice) and isinstance(s.slice.step, ast.UnaryOp) for s in srt)
    if not srt and not any(isinstance(c_, ast.Call) and getattr(c_.func, "attr", "") in ("sort", "argsort") for c_ in walk_no_nested(mj.node)):
        oksrt = None  # the ordering is done in a helper: not decided here
    ctx.ob("R-PRED", mj, "both vectors sorted in decreasing order", oksrt, "np.sort(..)[::-1] twice" if oksrt else "descending sort missing on one side")
    # partial sums: _A accumulates the first vector, _B the second; `if _A < _B: return False`
    accs_m = pmatch.find(mj.node, ["_S += _V[_I]", "_S = _S + _V[_I]"])
    acc_of = {}
    for n_, env_, _src in accs_m:
        tgt = n_.target.id if isinstance(n_, ast.AugAssign) else n_.targets[0].id
        bases = {x.value.id for x in ast.walk(n_.value) if isinstance(x, ast.Subscript) and isinstance(x.value, ast.Name)}
        acc_of[tgt] = "a" if bases == {"a_var"} else "b" if bases == {"b_var"} else "?"
    cmpn = None
    for n_ in walk_no_nested(mj.node):
        if isinstance(n_, ast.If) and isinstance(n_.test, ast.Compare) and len(n_.test.ops) == 1 and isinstance(n_.test.left, ast.Name) and isinstance(n_.test.comparators[0], ast.Name) \
                and any(isinstance(x, ast.Return) and isinstance(x.value, ast.Constant) and x.value.value is False for x in n_.body):
            l_, r_ = acc_of.get(n_.test.left.id), acc_of.get(n_.test.comparators[0].id)
            op = n_.test.ops[0]
            if {l_, r_} == {"a", "b"}:
                # False exactly when partial(a) < partial(b)
                cmpn = (l_ == "a" and isinstance(op, ast.Lt)) or (l_ == "b" and isinstance(op, ast.Gt))
    if cmpn is None:
        # cumulative-sum form: for ca, cb in zip(np.cumsum(a), np.cumsum(b)): if ca < cb [- tol]: return False
        for n_ in walk_no_nested(mj.node):
            if isinstance(n_, ast.For) and isinstance(n_.iter, ast.Call) and getattr(n_.iter.func, "id", "") == "zip" and len(n_.iter.args) == 2 and isinstance(n_.target, ast.Tuple) \
                    and len(n_.target.elts) == 2 and all(isinstance(e, ast.Name) for e in n_.target.elts):
                srcs = []
                for a_ in n_.iter.args:
                    nm_ = {x.id for x in ast.walk(a_) if isinstance(x, ast.Name)}
                    srcs.append("a" if "a_var" in nm_ and "b_var" not in nm_ else "b" if "b_var" in nm_ and "a_var" not in nm_ else "?")
                    if not (isinstance(a_, ast.Call) and getattr(a_.func, "attr", "") == "cumsum"):
                        srcs[-1] = "?"
                role = dict(zip([e.id for e in n_.target.elts], srcs))
                for t_ in ast.walk(n_):
                    if isinstance(t_, ast.If) and isinstance(t_.test, ast.Compare) and len(t_.test.ops) == 1 and \
                            any(isinstance(x, ast.Return) and isinstance(x.value, ast.Constant) and x.value.value is False for x in t_.body):
                        ln = {x.id for x in ast.walk(t_.test.left) if isinstance(x, ast.Name)} & set(role)
                        rn_ = {x.id for x in ast.walk(t_.test.comparators[0]) if isinstance(x, ast.Name)} & set(role)
                        if len(ln) == 1 and len(rn_) == 1:
                            l_, r_ = role[ln.pop()], role[rn_.pop()]
                            if {l_, r_} == {"a", "b"}:
                                cmpn = (l_ == "a" and isinstance(t_.test.ops[0], ast.Lt)) or (l_ == "b" and isinstance(t_.test.ops[0], ast.Gt))
    # both vectors are zero-padded to a common length (the comparison must run over the LONGER one)
    pads = {}
    for n_ in walk_no_nested(mj.node):
        if isinstance(n_, ast.Assign) and len(n_.targets) == 1 and isinstance(n_.targets[0], ast.Name) and isinstance(n_.value, ast.Call) and getattr(n_.value.func, "attr", "") in ("pad", "append", "concatenate", "hstack"):
            pads[n_.targets[0].id] = n_
    okpad = ("a_var" in pads and "b_var" in pads) or (len(pads) >= 2 and "a_var" not in pads and "b_var" not in pads)  # (two different vectors have a padding branch, whatever they are called)
    ctx.ob("R-PRED", mj, "the shorter of the two vectors is zero-padded, whichever it is", okpad, "both a_var and b_var have a padding branch" if okpad else
           f"only {sorted(pads)} is padded: when the other vector is the shorter one the partial sums beyond its length are never compared (zip / indexing stops at the shorter sequence)",
           (list(pads.values()) or [None])[0])
    ctx.ob("R-PRED", mj, "a majorizes b: every partial sum of a >= that of b", cmpn, "partial(a) < partial(b) => False" if cmpn else
           "the partial-sum comparison rejects in the wrong direction (or not strictly)" if cmpn is False else "partial-sum comparison not recognised", required=cmpn is not None)
    # state-set predicates purity
    for nm in ("is_hermitian", "is_density", "is_identity"):
        r_effect_free(ctx, F(m, nm), ["mat"])
    r_effect_free(ctx, mo, ["vec_list"])


def _row_of_factor(t, factor_pred):
    """t: normalised expression of one returned vector, built from a factor matrix M (factor_pred(term) is True on M) and the
    comprehension variable.  Returns (conj_parity, 'row' | 'col') -- which index of M the variable fixes and whether the entries
    are conjugated -- or None when the expression is not of that shape."""
    par = 0
    # vector-level wrappers
    while True:
        if t[0] in ("conj", "dag"):
            par ^= 1
            t = t[1]
        elif t[0] == "T":
            t = t[1]
        elif t[0] == "sub" and t[2][0] == "slice" and t[2][1:] == (("c", None), ("c", None), ("c", None)):
            t = t[1]
        elif t[0] == "call" and t[1] in ("numpy.conj", "numpy.conjugate") and t[2]:
            par ^= 1
            t = t[2][0]
        else:
            break
    if t[0] != "sub":
        return None
    idx, mexp = t[2], t[1]
    if idx[0] == "b":
        which = 0
    elif idx[0] == "tuple" and len(idx) == 3 and idx[1][0] == "slice" and idx[2][0] == "b":
        which = 1
    elif idx[0] == "tuple" and len(idx) == 3 and idx[2][0] == "slice" and idx[1][0] == "b":
        which = 0
    else:
        return None
    tr = 0
    while not factor_pred(mexp):
        if mexp[0] == "conj":
            par ^= 1
        elif mexp[0] == "T":
            tr ^= 1
        elif mexp[0] == "dag":
            par ^= 1
            tr ^= 1
        else:
            return None
        mexp = mexp[1]
    return par, ("row", "col")[which ^ tr]


def _gram_round_trip(ctx):
    """vectors_to_gram_matrix computes G_ij = <v_i, v_j> = (S^+ S)_ij with S = column_stack(vectors) (conjugate-linear in the first
    slot).  vectors_from_gram_matrix factors G = M M^+ (Cholesky M = L; spectral M = V sqrt(D)); S^+ S = G then needs S = M^+, i.e.
    the i-th vector is the conjugated i-th ROW of M.  Unconjugated rows give conj(G) back (F22)."""
    m = ctx.model
    tg, fg = F(m, "vectors_to_gram_matrix"), F(m, "vectors_from_gram_matrix")
    Ng = Normalizer(m, tg, inline=True)
    rt = [Ng(n.value) for n in ast.walk(tg.node) if isinstance(n, ast.Return) and n.value is not None]
    conv = None
    for t in rt:
        if t[0] == "@" and len(t[1]) == 2:
            a, b = t[1]
            if a == ("dag", b) and b[0] == "call" and b[1] == "numpy.column_stack":
                conv = "conj-first"
            elif b == ("dag", a) and a[0] == "call" and a[1] == "numpy.column_stack":
                conv = "conj-second-columns"
    ctx.ob("R-SIB", tg, "Gram matrix is S^+ S for S = column_stack(vectors)", conv == "conj-first",
           "G_ij = <v_i, v_j>, conjugate-linear in the first argument" if conv == "conj-first" else f"Gram form not recognised ({[show(t)[:60] for t in rt]})",
           required=conv is not None)
    if conv != "conj-first":
        return
    Nf = Normalizer(m, fg, inline=True)
    branches = {"cholesky": None, "spectral": None}
    for n in ast.walk(fg.node):
        if isinstance(n, ast.Return) and n.value is not None:
            t = Nf(n.value)
            if t[0] == "comp" and t[2]:
                e = t[2][0]
                if "numpy.linalg.cholesky" in repr(e):
                    branches["cholesky"] = (n, e, lambda x: x[0] == "call" and x[1] == "numpy.linalg.cholesky")
                elif "numpy.linalg.eig" in repr(e):
                    branches["spectral"] = (n, e, lambda x: x[0] == "sub" and x[2] == ("c", 1) and x[1][0] == "call" and str(x[1][1]).startswith("numpy.linalg.eig"))
    for nm, br in branches.items():
        key = f"{nm} branch: the i-th vector is the conjugated i-th row of the factor M (G = M M^+)"
        if br is None:
            ctx.ob("R-SIB", fg, key, None, "branch not recognised", required=False)
            continue
        n, e, pred = br
        if nm == "spectral":
            # sqrt(D) @ <vector>
            if e[0] == "@" and len(e[1]) == 2 and "sqrt" in repr(e[1][0]):
                e = e[1][1]
            elif e[0] == "*" and len(e[1]) == 2 and any(x[0] == "call" and x[1] == "numpy.sqrt" and "numpy.linalg.eig" in repr(x) for x in e[1]):
                # element-wise form sqrt(d) * vector == sqrtm(diag(d)) @ vector (the domain of the real sqrt is a separate obligation)
                e = next(x for x in e[1] if not (x[0] == "call" and x[1] == "numpy.sqrt"))
            else:
                ctx.ob("R-SIB", fg, key, None, f"element `{show(e)[:60]}` is not sqrt(D) @ vector", n, required=False)
                continue
        r = _row_of_factor(e, pred)
        if r is None:
            ctx.ob("R-SIB", fg, key, None, f"element `{show(e)[:60]}` not a row / column of the factor", n, required=False)
            continue
        ok = r == (1, "row")
        ctx.ob("R-SIB", fg, key, ok, "conj(M[i, :])" if ok else
               f"the vectors are the {'conjugated ' if r[0] else ''}{r[1]}s of the factor: vectors_to_gram_matrix then returns "
               + ("conj(G)" if r == (0, "row") else "M^+ M (or its conjugate)") + " instead of G for a complex Gram matrix", n)
    from ..rules import r_domain_clamped
    r_domain_clamped(ctx, fg)
    # Hermitian eigendecomposition: numpy.linalg.eig returns non-orthogonal eigenvectors inside a degenerate eigenspace, so
    # V D V^+ != G; the unitary diagonalisation of a Hermitian matrix is eigh
    eigs = [n for n in ast.walk(fg.node) if isinstance(n, ast.Call) and (m.resolve_call(fg, n).key or "").startswith(("numpy.linalg.eig", "scipy.linalg.eig"))]
    if eigs:
        k = m.resolve_call(fg, eigs[0]).key
        okh = k.endswith("eigh")
        ctx.ob("R-KIND", fg, "spectral fallback diagonalises the Hermitian Gram matrix with eigh (orthonormal eigenvectors)", okh,
               k if okh else f"`{unparse(eigs[0])}`: for a repeated eigenvalue eig's eigenvectors are not orthonormal, so sum_k d_k v_k v_k^+ != G "
               "(rank-2 projector in dimension 4: round-trip error 0.34)", eigs[0])


def _totally_positive(ctx):
    m = ctx.model
    f = F(m, "is_totally_positive")
    N = Normalizer(m, f, inline=False)
    Ni = Normalizer(m, f, inline=True)
    R = lambda *a: ("call", "builtins.range", tuple(a), ())  # noqa: E731
    # default sizes 1 .. min(dims)
    dflt = [n for n in walk_no_nested(f.node) if isinstance(n, ast.Assign) and isinstance(n.targets[0], ast.Name) and n.targets[0].id == "sub_sizes"]
    okd = False
    if dflt:
        t = Ni(dflt[0].value)
        okd = t[0] == "call" and t[1] == "builtins.range" and len(t[2]) == 2 and t[2][0] == ("c", 1) and t[2][1][0] == "+" and ("c", 1) in t[2][1][1] and "builtins.min" in repr(t[2][1])
    ctx.ob("R-ENUM", f, "default minor sizes are 1 .. min(rows, columns)", okd, "range(1, min(dims) + 1)" if okd else "the default range of minor sizes changed", dflt[0] if dflt else None)
    # index sets
    sets = {}
    for n in walk_no_nested(f.node):
        if isinstance(n, ast.Assign) and isinstance(n.targets[0], ast.Name) and "combinations" in unparse(n.value):
            sets[n.targets[0].id] = n
    def comb_of(t):
        """-> axis index k if t is (list of) combinations(range(dims[k]), j)"""
        while t[0] == "call" and t[1] in ("builtins.list", "builtins.tuple") and t[2]:
            t = t[2][0]
        if t[0] == "call" and t[1] == "itertools.combinations" and len(t[2]) == 2 and t[2][0][0] == "call" and t[2][0][1] == "builtins.range" and len(t[2][0][2]) == 1:
            a = t[2][0][2][0]
            if a[0] == "sub" and a[1] == ("n", "dims") and a[2][0] == "c" and t[2][1] == ("n", "j"):
                return a[2][1]
        return None
    det = [n for n in walk_no_nested(f.node) if isinstance(n, ast.Call) and m.resolve_call(f, n).key == "numpy.linalg.det"]
    if not det:
        ctx.ob("R-ENUM", f, "minors range over all row sets x all column sets of size j", None, "no determinant found", required=False)
        return
    loops = [lp for lp in walk_no_nested(f.node) if isinstance(lp, ast.For) and any(x is det[0] for x in ast.walk(lp))]
    roles = []
    for lp in loops:
        it = lp.iter
        if isinstance(it, ast.Name) and it.id in sets:
            v = sets[it.id].value
            cands = [v.body, v.orelse] if isinstance(v, ast.IfExp) else [v]
            axes = set()
            for c_ in cands:
                if isinstance(c_, ast.Name) and c_.id in sets:
                    c_ = sets[c_.id].value
                k = comb_of(N(c_))
                axes.add(k)
            # a conditional that shares one list for both axes is fine only under dims[0] == dims[1]
            roles.append((it.id, axes, isinstance(v, ast.IfExp)))
    idx = det[0].args[0] if det[0].args else None
    rows_first = None
    if isinstance(idx, ast.Subscript) and isinstance(idx.slice, ast.Call) and len(idx.slice.args) == 2:
        a0, a1 = idx.slice.args
        tr = {lp.target.id: lp.iter.id for lp in loops if isinstance(lp.target, ast.Name) and isinstance(lp.iter, ast.Name)}
        if isinstance(a0, ast.Name) and isinstance(a1, ast.Name) and a0.id in tr and a1.id in tr:
            ra = next((r for r in roles if r[0] == tr[a0.id]), None)
            ca = next((r for r in roles if r[0] == tr[a1.id]), None)
            rows_first = (ra, ca)
    ok = None
    why = "index sets of the minors not recognised"
    if rows_first and rows_first[0] and rows_first[1]:
        ra, ca = rows_first
        ok = 0 in ra[1] and ra[1] <= {0} and 1 in ca[1] and ca[1] <= {0, 1} and None not in ra[1] | ca[1]
        why = "rows from combinations(range(dims[0]), j), columns from combinations(range(dims[1]), j)" if ok else \
            f"row sets come from axes {sorted(x for x in ra[1] if x is not None)}, column sets from axes {sorted(x for x in ca[1] if x is not None)}: some minors use the wrong index range"
    ctx.ob("R-ENUM", f, "minors range over all row sets x all column sets of size j", ok, why, det[0], required=ok is not None)
    # verdict: a minor below tol (or not real) -> False
    tests = [n for n in walk_no_nested(f.node) if isinstance(n, ast.If) and any(isinstance(x, ast.Name) and x.id == "d" for x in ast.walk(n.test))]
    okt = False
    if tests:
        t = N(tests[0].test)
        okt = "('cmp', '<', ('n', 'd'), ('n', 'tol'))" in repr(t) and isinstance(tests[0].body[0], ast.Return) and isinstance(tests[0].body[0].value, ast.Constant) and tests[0].body[0].value.value is False
    ctx.ob("R-PRED", f, "a minor below the tolerance decides `not totally positive`", okt, "d < tol -> False" if okt else "the minor test changed", tests[0] if tests else None)


def _upb(ctx):
    """Structural clauses of is_unextendible_product_basis: (a) product-of-dims and product-state guards dominate; (b) the local factors are
    kept in a container that allows different lengths per party (a rectangular ndarray of the factors only exists for equal local
    dimensions -- F58); (c) every ordered m-partition of the vectors is tried; (d) the witness of party i spans the null space of the
    CONJUGATED factors (orthogonality is <v|w> = conj(v).w -- F59); (e) verdicts: False with the tensor of the witnesses, else True."""
    m = ctx.model
    f = F(m, "is_unextendible_product_basis")
    N = Normalizer(m, f, inline=False)
    # (b)
    split = [n for n in walk_no_nested(f.node) if isinstance(n, ast.Assign) and isinstance(n.targets[0], ast.Name) and "is_product" in unparse(n.value)
             and isinstance(n.value, (ast.ListComp, ast.Call))]
    split = [n for n in split if "[1]" in unparse(n.value)]
    if split:
        v = split[0].value
        ragged_ok = isinstance(v, ast.ListComp) or (isinstance(v, ast.Call) and unparse(v.func) in ("list",))
        if isinstance(v, ast.Call) and unparse(v.func) in ("np.array", "numpy.array", "np.asarray", "np.stack"):
            ragged_ok = any(kw.arg == "dtype" and unparse(kw.value) == "object" for kw in v.keywords)
        ctx.ob("R-SHAPE", f, "local factors are stored per party without assuming equal local dimensions", ragged_ok,
               "list of lists" if ragged_ok else
               f"`{unparse(split[0])[:70]}` packs the factors of all parties into one rectangular array: with unequal local dimensions (dims [2, 3]) numpy raises "
               "'inhomogeneous shape' instead of returning a verdict", split[0])
    else:
        ctx.ob("R-SHAPE", f, "local factors are stored per party without assuming equal local dimensions", None, "splitting statement not found", required=False)
    # (d)
    ns = [c for c in ast.walk(f.node) if isinstance(c, ast.Call) and (m.resolve_call(f, c).key or "").endswith("null_space") and c.args]
    if ns:
        t = N(ns[0].args[0])
        okc = t[0] == "conj" or (t[0] == "call" and t[1] in ("numpy.conj", "numpy.conjugate")) or (t[0] == "dag")
        ctx.ob("R-COV", f, "witness spans the null space of the conjugated factors (<v|w> = 0)", okc,
               "null_space(conj(M))" if okc else
               f"`{unparse(ns[0])}` solves M w = 0, i.e. sum_k v_k w_k = 0 without the conjugate: for complex product vectors the returned witness is not orthogonal to them", ns[0])
    # (b') the factors handed on by is_product are the computed ones: rounding them to a fixed number of decimals (1e-12) is far above
    # null_space's rank tolerance (about 1e-15), so exact linear dependences between non-parallel local factors are destroyed and the
    # witness is missed
    from ..rules import r_values_not_rounded
    for nm_ in ("is_product.is_product", "is_product._is_product"):
        try:
            r_values_not_rounded(ctx, m.func(nm_), chain=["is_unextendible_product_basis", nm_.split(".")[-1]])
        except KeyError:
            pass
    # (c)
    perms = [lp for lp in ast.walk(f.node) if isinstance(lp, ast.For) and "permutations" in unparse(lp.iter)]
    parts = [n for n in ast.walk(f.node) if isinstance(n, ast.Call) and "set_partitions" in unparse(n.func)]
    okp = bool(perms) and bool(parts) and len(parts[0].args) == 2 and unparse(parts[0].args[1]) == "num_parties"
    ctx.ob("R-ENUM", f, "every ordered partition of the vectors into num_parties blocks is tried", okp,
           "set_partitions(range(n), m) x permutations" if okp else "the enumeration of assignments of vectors to parties changed")
    # (a)
    from ..rules import r_guard_pred
    res = flw.flow(f.node)
    gs = [N(flw.conds(ff)[-1][0]) for _, ff in res.raises if flw.conds(ff)]
    okg = any("numpy.prod" in repr(t) and "shape" in repr(t) for t in gs) and any("is_product" in repr(t) for t in gs)
    ctx.ob("R-GUARD", f, "size and product-state guards raise before the search", okg, "both guards" if okg else "a validation guard is missing")
    # (e)
    rets = [n for n in ast.walk(f.node) if isinstance(n, ast.Return) and isinstance(n.value, ast.Tuple) and len(n.value.elts) == 2]
    vals = sorted(unparse(r.value.elts[0]) for r in rets)
    oke = vals == ["False", "True"] and any(unparse(r.value.elts[0]) == "False" and "tensor" in unparse(r.value.elts[1]) for r in rets)
    ctx.ob("R-PRED", f, "verdict False comes with the tensor of the witnesses, True with None", oke, "(False, tensor(wit)) / (True, None)" if oke else f"returns {vals}")
