"""C19 -- random generators and measurement constructions (structural clauses)."""

from __future__ import annotations

import ast

from .. import flow as flw
from ..dataflow import origins, param_is_live
from ..model import calls_in, unparse, walk_no_nested
from ..norm import Normalizer, calls_to, kwarg, mentions_name, show, subterms
from ..rules import calls_from, kraus_sandwich_terms, r_effect_free, r_guard_pred, r_live, r_thread, return_terms
from ..shapes import ShapeEval

LEGACY_OK = {"default_rng", "Generator", "SeedSequence", "BitGenerator", "PCG64"}


def legacy_rng_calls(model, f):
    """Calls to the process-global RNG: np.random.<fn> (other than default_rng), random.<fn>."""
    out = []
    for c in calls_in(f.node, include_nested=True):
        cal = model.resolve_call(f, c)
        if cal.kind == "lib" and cal.lib:
            if cal.lib.startswith("numpy.random.") and cal.lib.split(".")[2] not in LEGACY_OK:
                out.append((c, cal.lib))
            if cal.lib.startswith("random.") and cal.lib.count(".") == 1:
                out.append((c, cal.lib))
    return out


def run(ctx):  # noqa: C901
    m = ctx.model
    ctx.rule("R-RNG", "generators draw only from their own default_rng(seed); no legacy global RNG in toqito/rand and its callees; no module-level Generator; nested generators receive seed")
    ctx.rule("R-THREAD", "seed / is_real reach the draws and nested generators")
    ctx.rule("R-SHAPE", "operands of + and @ have equal symbolic shapes")
    ctx.rule("R-KIND", "list-valued dimension arguments are reduced before being used as an array extent")
    ctx.rule("R-GUARD", "measure validates the state; pretty-good/bad measurements validate the prior")
    ctx.rule("R-COV", "Born rule and completeness use K rho Dagger(K) / Dagger(K) K")
    gens = [f for q, f in sorted(m.functions.items()) if f.module.name.startswith("toqito.rand.") and f.parent is None and f.cls is None and not f.name.startswith("_")]
    ctx.ob("R-RNG", "toqito.rand", "generators enumerated", len(gens) >= 9, f"{len(gens)} public generators: {[g.name for g in gens]}")
    # positive control: the matcher must find the legacy calls that do exist elsewhere in the library
    ctrl = []
    for q, f in m.functions.items():
        if not f.module.name.startswith("toqito.rand."):
            ctrl += legacy_rng_calls(m, f)
    ctx.ob("R-RNG", "toqito", "positive control: legacy-RNG matcher finds the known global-RNG sites outside toqito/rand", len(ctrl) >= 1,
           f"{len(ctrl)} sites, e.g. {ctrl[0][1]}" if ctrl else "the matcher found no legacy RNG call anywhere: it can no longer see the construct", required=True)
    closure = m.callees_closure(gens)
    for f in closure:
        bad = legacy_rng_calls(m, f)
        if f.module.name.startswith("toqito.rand.") or bad:
            ctx.ob("R-RNG", f, "no draw from the process-global RNG", not bad, "only Generator methods" if not bad else
                   f"`{unparse(bad[0][0])[:60]}` draws from the global RNG ({bad[0][1]}): the result depends on earlier calls and ignores `seed`", bad[0][0] if bad else None)
    # module-level generators
    for mod in m.modules.values():
        if mod.name.startswith("toqito.rand."):
            for st in mod.tree.body:
                if isinstance(st, (ast.Assign, ast.AnnAssign)) and "default_rng" in unparse(st):
                    ctx.ob("R-RNG", mod.name.split(".")[-1], "no module-level Generator", False, f"`{unparse(st)[:60]}` keeps RNG state across calls", st)
    for g in gens:
        has_seed = g.param("seed") is not None
        ctx.ob("R-RNG", g, "exposes seed", has_seed, "seed parameter" if has_seed else "the generator lost its `seed` parameter")
        if not has_seed:
            continue
        # the seed reaches the generator untouched: 0 is a legal seed, so a truthiness test (`if seed`, `seed or ...`, `x if seed else y`)
        # silently turns seed=0 into "no seed"; any other re-binding of `seed` is not followed (unknown)
        truthy = []
        for x in walk_no_nested(g.node):
            tests = []
            if isinstance(x, (ast.If, ast.IfExp, ast.While)):
                tests.append(x.test)
            if isinstance(x, ast.BoolOp):
                tests += x.values[:-1]
            for t_ in tests:
                while isinstance(t_, ast.UnaryOp) and isinstance(t_.op, ast.Not):
                    t_ = t_.operand
                if isinstance(t_, ast.Name) and t_.id == "seed":
                    truthy.append(x)
        rebinds = [x for x in walk_no_nested(g.node) if isinstance(x, (ast.Assign, ast.AugAssign, ast.AnnAssign)) and any(isinstance(y, ast.Name) and y.id == "seed" and isinstance(y.ctx, ast.Store) for y in ast.walk(x))]
        ctx.ob("R-RNG", g, "every integer seed (0 included) reaches the generator: no truthiness test, no re-binding of `seed`",
               False if truthy else None if rebinds else True,
               "seed is passed through untouched" if not truthy and not rebinds else
               (f"`{unparse(truthy[0])[:70]}` tests the truth value of `seed`: seed=0 is treated as 'no seed' and draws fresh entropy on every call" if truthy else
                f"`{unparse(rebinds[0])[:60]}` re-binds `seed` before it reaches the generator"), (truthy or rebinds or [None])[0], required=bool(truthy) or not rebinds)
        rngs = [c for c in calls_in(g.node) if m.resolve_call(g, c).key == "numpy.random.default_rng"]
        nested = [(c, cal) for c in calls_in(g.node) for cal in [m.resolve_call(g, c)] if cal.kind == "repo" and cal.func.module.name.startswith("toqito.rand.") and cal.func.param("seed") is not None]
        if not rngs and not nested:
            ctx.ob("R-RNG", g, "default_rng(seed) constructed", False, "no default_rng(seed) and no nested seeded generator: where do the draws come from?")
        for c in rngs:
            a = c.args[0] if c.args else next((kw.value for kw in c.keywords if kw.arg == "seed"), None)
            ok = isinstance(a, ast.Name) and a.id == "seed"
            ctx.ob("R-RNG", g, "default_rng receives exactly the caller's seed", ok, "default_rng(seed)" if ok else
                   f"`{unparse(c)}` does not seed the generator with `seed`: equal seeds no longer reproduce the object", c)
        for c, cal in nested:
            b = m.bind(c, cal.func)
            a = b.get("seed")
            ok = isinstance(a, ast.Name) and a.id == "seed"
            ctx.ob("R-RNG", g, f"nested generator {cal.func.name} receives seed", ok, "seed forwarded" if ok else f"`{unparse(c)[:60]}` does not forward `seed`", c)
            if cal.func.param("is_real") is not None and g.param("is_real") is not None:
                a2 = b.get("is_real")
                ok2 = isinstance(a2, ast.Name) and a2.id == "is_real"
                ctx.ob("R-THREAD", g, f"is_real->{cal.func.name}.is_real", ok2, "forwarded" if ok2 else "is_real not forwarded to the nested generator", c)
        # every draw goes through the local generator object
        gen_names = {n.targets[0].id for n in walk_no_nested(g.node) if isinstance(n, ast.Assign) and isinstance(n.targets[0], ast.Name) and isinstance(n.value, ast.Call) and
                     m.resolve_call(g, n.value).key == "numpy.random.default_rng"}
        if g.param("is_real") is not None:
            r_live(ctx, g, "is_real")
            # the imaginary part is added exactly when not is_real
            Nn = Normalizer(m, g, inline=False)
            okim = False
            for n in walk_no_nested(g.node):
                if isinstance(n, ast.If) and Nn(n.test) == ("not", ("n", "is_real")) and "1j" in unparse(n):
                    okim = True
            if any("1j" in unparse(s) for s in g.node.body):
                ctx.ob("R-THREAD", g, "imaginary part added iff not is_real", okim, "if not is_real: + 1j * draw" if okim else "the real/complex switch is inverted or gone")
    # Schmidt-rank branch of random_state_vector: the swap's dim list must cut kron(a, b) where a and b end
    rsv = m.func("random_state_vector.random_state_vector")
    from ..shapes import ShapeEval as _SE, kron_dims_factorise
    se_ = _SE(m, rsv)
    nsw = 0
    for c, cal in calls_from(m, rsv, "swap.swap"):
        b = m.bind(c, cal.func)
        if not isinstance(b.get("rho"), ast.AST) or not isinstance(b.get("dim"), ast.AST):
            continue
        nsw += 1
        ok, det = kron_dims_factorise(se_, se_.N(b["rho"]), se_.N(b["dim"]), c.lineno)
        ctx.ob("R-SHAPE", rsv, "swap dim list factorises the Kronecker operands (k x d_A | k x d_B)", ok, det, c, required=ok is not None)
        st, dt = se_.N(b["sys"]), se_.N(b["dim"])
        okl, detl = None, f"sys={unparse(b['sys'])} dim={unparse(b['dim'])} not literal lists"
        if st[0] == "list" and len(st) == 3 and all(x[0] == "c" and isinstance(x[1], int) for x in st[1:]) and dt[0] == "list":
            i, j = st[1][1] - 1, st[2][1] - 1  # swap takes 1-based positions
            lay = list(dt[1:])
            if 0 <= i < len(lay) and 0 <= j < len(lay):
                lay[i], lay[j] = lay[j], lay[i]
                want = [("n", "k_param"), ("n", "k_param"), ("sub", ("n", "dim"), ("c", 0)), ("sub", ("n", "dim"), ("c", 1))]
                okl = lay == want
                detl = "layout after the swap is [k, k, d_A, d_B]" if okl else \
                    f"layout after the swap is {[show(x) for x in lay]}: <psi| (x) I contracts the first k*k block and leaves d_A (x) d_B in the order of `dim` only for [k, k, dim[0], dim[1]]"
            else:
                okl, detl = False, f"sys={unparse(b['sys'])} is outside the {len(lay)} listed subsystems (1-based)"
        ctx.ob("R-LAYOUT", rsv, "after the swap the two ancillas come first, then d_A, d_B in the order of `dim`", okl, detl, c, required=okl is not None)
    if not nsw:
        ctx.ob("R-SHAPE", rsv, "swap dim list factorises the Kronecker operands (k x d_A | k x d_B)", None, "no swap(kron(..), sys, dim) call in the Schmidt-rank branch", required=False)
    # shapes
    rdm = m.func("random_density_matrix.random_density_matrix")
    se = ShapeEval(m, rdm)
    issues = se.check_all_assignments()
    if issues:
        op, xa, sa, xb, sb, line = issues[0]
        ctx.ob("R-SHAPE", rdm, "operands of + / @ have equal symbolic shapes", False,
               f"`{show(xa)[:50]}` has shape ({', '.join(show(s) for s in sa)}) but `{show(xb)[:50]}` has shape ({', '.join(show(s) for s in sb)}) under `{op}` "
               "(operator precedence: U + (I @ G)); fails whenever k_param != dim")
    else:
        ctx.ob("R-SHAPE", rdm, "operands of + / @ have equal symbolic shapes", True, "no definite mismatch")
    for g in gens:
        if g is rdm:
            continue
        iss = ShapeEval(m, g).check_all_assignments()
        ctx.ob("R-SHAPE", g, "operands of + / @ have equal symbolic shapes", not iss, "no definite mismatch" if not iss else f"{iss[0][0]} mismatch: {show(iss[0][1])[:40]} vs {show(iss[0][3])[:40]}")
    # list-valued dim used as an extent
    for g in gens:
        for p in g.params:
            ann = unparse(p.annotation) if p.annotation is not None else ""
            if "list" in ann and "int" in [x.strip() for x in ann.split("|")] and p.name.startswith("dim"):
                _list_extent(ctx, g, p.name)
    # rho = G G^+ / Tr
    Nr = Normalizer(m, rdm, inline=False)
    okr = any(isinstance(n, ast.Assign) and Nr(n.value) == ("@", (("n", "gin"), ("dag", ("n", "gin")))) for n in walk_no_nested(rdm.node))
    rets, _ = return_terms(m, rdm, inline=False)
    okt = any(t[0] == "call" and t[1] == "numpy.divide" and t[2][1] == ("call", "numpy.trace", (t[2][0],), ()) for _, _, t in rets)
    ctx.ob("R-COV", rdm, "rho == G Dagger(G) / Tr", okr and okt, "PSD by construction, unit trace" if okr and okt else "the G G^+ / trace construction changed")
    ru = m.func("random_unitary.random_unitary")
    Nu = Normalizer(m, ru, inline=False)
    sq = any(flw.conds(ff) and Nu(flw.conds(ff)[-1][0]) == ("cmp", "!=", ("sub", ("n", "dim"), ("c", 0)), ("sub", ("n", "dim"), ("c", 1))) for _, ff in flw.flow(ru.node).raises)
    ctx.ob("R-GUARD", ru, "square dimensions required", sq, "dim[0] != dim[1] raises" if sq else "guard missing")
    sgn = any(isinstance(n, ast.Assign) and Nu(n.value) == ("call", "numpy.sign", (("call", "numpy.diag", (("n", "r_mat"),), ()),), ()) for n in walk_no_nested(ru.node))
    rets, _ = return_terms(m, ru, inline=False)
    okq = any(t == ("@", (("n", "q_mat"), ("call", "numpy.diag", (("n", "r_mat"),), ()))) for _, _, t in rets)
    ctx.ob("R-PRED", ru, "Haar correction: Q @ diag(sign(diag(R)))", sgn and okq, "QR with sign fix" if sgn and okq else "the sign correction of the QR factor changed")
    rp = m.func("random_psd_operator.random_psd_operator")
    Np = Normalizer(m, rp, inline=False)
    rets, _ = return_terms(m, rp, inline=False)
    okp = any(t[0] == "@" and len(t[1]) == 3 and t[1][2] == ("dag", t[1][0]) and t[1][1] == ("call", "numpy.diag", (("call", "numpy.abs", (("n", "eigenvals"),), ()),), ()) for _, _, t in rets)
    ctx.ob("R-COV", rp, "PSD operator == Q diag(|eig|) Dagger(Q)", okp, "non-negative spectrum in an orthonormal frame" if okp else "construction changed")
    rs = m.func("random_states.random_states")
    from .. import pmatch
    fn_ = pmatch.find(rs.node, ["_S /= np.linalg.norm(_S, axis=1)[:, np.newaxis]", "_S = _S / np.linalg.norm(_S, axis=1)[:, np.newaxis]", "_S /= np.linalg.norm(_S, axis=1, keepdims=True)",
                                "_S = _S / np.linalg.norm(_S, axis=1, keepdims=True)", "_S /= np.linalg.norm(_S, axis=1)[:, None]", "_S = _S / np.linalg.norm(_S, axis=1)[:, None]"])
    wrong_axis = pmatch.find(rs.node, ["_S /= np.linalg.norm(_S, axis=0)[_I]", "_S /= np.linalg.norm(_S)", "_S = _S / np.linalg.norm(_S)", "_S /= np.linalg.norm(_S, axis=0)"])
    okn = True if fn_ else False if (wrong_axis or not pmatch.has_call(m, rs, "numpy.linalg.norm")) else None
    ctx.ob("R-PRED", rs, "each sample normalised to a unit vector", okn, "every row divided by its own norm" if okn else "rows are not divided by their own norms (axis=1, broadcast over columns)" if okn is False else "normalisation not recognised", required=okn is not None)
    rc = m.func("random_circulant_gram_matrix.random_circulant_gram_matrix")
    rets, Nc = return_terms(m, rc, inline=False)
    okc = any(t[0] == "real" and t[1][0] == "@" and len(t[1][1]) == 3 and t[1][1][0] == ("dag", t[1][1][2]) for _, _, t in rets) or \
        any("dag" in repr(t) and "dft_mat" in repr(t) for _, _, t in rets)
    ctx.ob("R-COV", rc, "circulant Gram == Dagger(F) D F", okc, "diagonalised by the DFT" if okc else "construction changed")

    # ---- measurements ------------------------------------------------------------------------------------
    ms = m.func("measure.measure")
    r_guard_pred(ctx, ms, "is_density", "state")
    Nm = Normalizer(m, ms, inline=False)
    n_sw = 0
    for n in walk_no_nested(ms.node):
        if isinstance(n, ast.Assign) and isinstance(n.targets[0], ast.Name) and n.targets[0].id == "result":
            t = Nm(n.value)
            sw = kraus_sandwich_terms(t)
            ok = bool(sw) and all(o for o, _ in sw) and t[1][1] == ("n", "state")
            n_sw += 1
            ctx.ob("R-COV", ms, f"Born rule operand K rho Dagger(K) [{'single' if 'measurement' in repr(t) else 'list'}]", ok, "K @ state @ K^+" if ok else f"{show(t)[:70]}", n)
    ctx.ob("R-COV", ms, "both the single-operator and the list branch apply K rho K^+", n_sw == 2, f"{n_sw} sites")
    comp = [n for n in walk_no_nested(ms.node) if isinstance(n, ast.Assign) and isinstance(n.targets[0], ast.Name) and n.targets[0].id == "completeness"]
    okc = False
    if comp:
        t = Nm(comp[0].value)
        cm = [s for s in subterms(t) if isinstance(s, tuple) and s and s[0] == "comp"]
        okc = bool(cm) and cm[0][2][0][0] == "@" and cm[0][2][0][1][0] == ("dag", cm[0][2][0][1][1]) and cm[0][3][0][1] == ("n", "measurement")
    ctx.ob("R-COV", ms, "completeness == sum Dagger(K) K over all operators", okc, "sum K^+ K" if okc else "completeness sum changed")
    pr = [n for n in walk_no_nested(ms.node) if isinstance(n, ast.Assign) and isinstance(n.targets[0], ast.Name) and n.targets[0].id == "prob"]
    okpr = len(pr) == 2 and all(Nm(n.value) == ("real", ("call", "numpy.trace", (("n", "result"),), ())) for n in pr)
    ctx.ob("R-PRED", ms, "probability == Re Tr(K rho K^+)", okpr, "trace of the unnormalised post-state" if okpr else "probability formula changed")
    ps = [n for n in walk_no_nested(ms.node) if isinstance(n, ast.Assign) and isinstance(n.targets[0], ast.Name) and n.targets[0].id == "post_state" and isinstance(n.value, ast.BinOp)]
    prn = {n.targets[0].id for n in pr}
    okps = len(ps) == 2 and all(isinstance(n.value.op, ast.Div) and isinstance(n.value.right, ast.Name) and n.value.right.id in prn and Nm(n.value.left) == ("n", "result") for n in ps)
    ctx.ob("R-PRED", ms, "post-measurement state normalised by its probability", okps, "result / prob" if okps else "normalisation changed")
    r_effect_free(ctx, ms, ["state", "measurement"])
    for nm in ("pretty_good_measurement", "pretty_bad_measurement"):
        f = m.func(f"{nm}.{nm}")
        Nf = Normalizer(m, f, inline=False)
        gs = [Nf(flw.conds(ff)[-1][0]) for _, ff in flw.flow(f.node).raises if flw.conds(ff)]
        okl = any(t[0] == "cmp" and t[1] == "!=" and repr(t).count("builtins.len") == 2 for t in gs)
        oks = any(t[0] == "not" and "numpy.isclose" in repr(t) and "builtins.sum" in repr(t) and "('c', 1)" in repr(t) for t in gs)
        ctx.ob("R-GUARD", f, "len(states) == len(probs) and sum(probs) ~ 1", okl and oks, "both raising guards" if okl and oks else "a prior-validation guard is missing")
        fdp = pmatch.find(f.node, ["probs = _N * [1 / _N]", "probs = [1 / _N] * _N", "probs = np.ones(_N) / _N", "probs = np.full(_N, 1 / _N)"])
        okd = None
        if fdp:
            tn_ = Normalizer(m, f, inline=True)(ast.parse(ast.unparse(fdp[0][0].value), mode="eval").body)
            okd = "('call', 'builtins.len', (('n', 'states'),), ())" in repr(tn_)
        elif not any(isinstance(n, ast.Assign) and isinstance(n.targets[0], ast.Name) and n.targets[0].id == "probs" for n in walk_no_nested(f.node)):
            okd = False
        ctx.ob("R-THREAD", f, "default prior uniform", okd, "n * [1/n] with n = len(states)" if okd else "default prior is not uniform over the states" if okd is False else "default prior not recognised", required=okd is not None)
        r_effect_free(ctx, f, ["states", "probs"])
    pg = m.func("pretty_good_measurement.pretty_good_measurement")
    Ng = Normalizer(m, pg, inline=False)
    okpw = any(isinstance(n, ast.Call) and m.resolve_call(pg, n).key == "scipy.linalg.fractional_matrix_power" and len(n.args) == 2 and Ng(n.args[1]) in (("c", -0.5), ("neg", ("c", 0.5))) or
               (isinstance(n, ast.Call) and m.resolve_call(pg, n).key == "scipy.linalg.fractional_matrix_power" and "Fraction(-1, 2)" in repr(Ng(n.args[1]))) for n in walk_no_nested(pg.node))
    ctx.ob("R-PRED", pg, "rho^(-1/2) via fractional_matrix_power(., -1/2)", okpw, "inverse square root" if okpw else "exponent changed")
    rets, _ = return_terms(m, pg, inline=False)
    oke = False
    for rn, facts, t in rets:
        if t[0] == "comp":
            e = t[2][0]
            i = t[3][0][0]
            oke = e[0] == "@" and len(e[1]) == 3 and e[1][0] == e[1][2] == ("n", "p_var_sqrt") and ("sub", ("n", "probs"), i) in e[1][1][1] and ("sub", ("n", "states"), i) in e[1][1][1] \
                and t[3][0][1] == ("call", "builtins.range", (("n", "n"),), ())
    ctx.ob("R-ENUM", pg, "G_i == S (p_i rho_i) S with the same i, all i", oke, "sandwich with matching indices" if oke else "element formula or index pairing changed")
    pv = [n for n in walk_no_nested(pg.node) if isinstance(n, ast.Assign) and isinstance(n.targets[0], ast.Name) and n.targets[0].id == "p_var"]
    okv = False
    pw_arg = None
    for n_ in walk_no_nested(pg.node):
        if isinstance(n_, ast.Call) and m.resolve_call(pg, n_).key == "scipy.linalg.fractional_matrix_power" and n_.args:
            pw_arg = Normalizer(m, pg, inline=True)(n_.args[0])
    if pv or pw_arg is not None:
        tv_ = Ng(pv[0].value) if pv else pw_arg
        if tv_[0] == "n" and pw_arg is not None:
            tv_ = pw_arg
        cm_ = [s_ for s_ in subterms(tv_) if isinstance(s_, tuple) and s_ and s_[0] == "comp"]
        if tv_[0] == "call" and tv_[1] in ("builtins.sum", "numpy.sum") and cm_:
            i_ = cm_[0][3][0][0]
            e_ = cm_[0][2][0]
            okv = e_[0] == "*" and ("sub", ("n", "probs"), i_) in e_[1] and ("sub", ("n", "states"), i_) in e_[1] and len(e_[1]) == 2 and cm_[0][3][0][1] in (("call", "builtins.range", (("n", "n"),), ()), ("call", "builtins.range", (("call", "builtins.len", (("n", "states"),), ()),), ()))
    ctx.ob("R-ENUM", pg, "average state == sum_i p_i rho_i over all i", okv, "same-index pairing" if okv else "average state changed")
    pb = m.func("pretty_bad_measurement.pretty_bad_measurement")
    rets, _ = return_terms(m, pb, inline=False)
    okb = False
    for rn, facts, t in rets:
        if t[0] == "comp":
            e = t[2][0]
            okb = e[0] == "*" and ("/", ("c", 1), ("+", (("c", -1), ("n", "n")))) in e[1] and any(x[0] == "+" and any(y[0] == "neg" and y[1][0] == "sub" and y[1][1] == ("n", "pbm") for y in x[1]) for x in e[1])
    ctx.ob("R-PRED", pb, "B_i == (I - G_i) / (n - 1)", okb, "complement of the pretty good measurement" if okb else "formula changed")
    r_thread(ctx, pb, "probs", "pretty_good_measurement.pretty_good_measurement")
    r_thread(ctx, pb, "states", "pretty_good_measurement.pretty_good_measurement")
    ip = m.func("is_povm.is_povm")
    Ni = Normalizer(m, ip, inline=False)
    res = flw.flow(ip.node)
    psd = any(rn is not None and Ni(rn.value) == ("c", False) and any(x[0] == "inloop" for x in facts) and any(pol and "is_positive_semidefinite" in repr(Ni(t)) and Ni(t)[0] == "not" for t, pol in flw.conds(facts)) for rn, facts in res.returns)
    tot = any(rn is not None and Ni(rn.value) == ("c", False) and any(pol and Ni(t)[0] == "not" and "numpy.allclose" in repr(Ni(t)) and "numpy.identity" in repr(Ni(t)) and "mat_sum" in repr(Ni(t)) for t, pol in flw.conds(facts)) for rn, facts in res.returns)
    ctx.ob("R-PRED", ip, "POVM == every element PSD and the elements sum to I", psd and tot, "both tests" if psd and tot else "a test is missing")


def _list_extent(ctx, f, pname):
    """A parameter declared list | int must not be used as an array extent while it may still be a list."""
    m = ctx.model
    hits = []

    def walk(body, may_list):
        for st in body:
            if isinstance(st, ast.If):
                t = unparse(st.test)
                if t == f"isinstance({pname}, int)":
                    walk(st.body, False)
                    walk(st.orelse, may_list)
                    # after `if isinstance(p, int): p = [p, p]` the parameter is a list on both paths
                    continue
                if t == f"isinstance({pname}, list)":
                    walk(st.body, may_list)
                    walk(st.orelse, False)
                    continue
                walk(st.body, may_list)
                walk(st.orelse, may_list)
                continue
            if isinstance(st, (ast.For, ast.While, ast.With)):
                walk(st.body, may_list)
                continue
            if isinstance(st, ast.Assign) and any(isinstance(t, ast.Name) and t.id == pname for t in st.targets):
                v = unparse(st.value)
                if v.startswith("int(") or "np.prod" in v or "numpy.prod" in v:
                    may_list = False
                continue
            if may_list:
                for n in ast.walk(st):
                    if isinstance(n, ast.Call) and isinstance(n.func, ast.Attribute) and n.func.attr in ("random", "standard_normal", "normal", "zeros", "ones", "empty", "identity", "eye") and n.args:
                        a = n.args[0]
                        els = a.elts if isinstance(a, ast.Tuple) else [a]
                        if any(isinstance(e, ast.Name) and e.id == pname for e in els):
                            hits.append(n)
            if isinstance(st, (ast.Return, ast.Raise)):
                return
    walk(f.node.body, True)
    ctx.ob("R-KIND", f, f"{pname}: list alternative reduced before use as an array extent", not hits,
           "no raw use as an extent" if not hits else f"`{unparse(hits[0])[:60]}` uses `{pname}` as an array extent although it is declared to accept a list (TypeError for a list)",
           hits[0] if hits else None)
