"""C20 -- channel distance measures (structural clauses)."""

from __future__ import annotations

import ast
from fractions import Fraction

from .. import flow as flw
from ..model import calls_in, unparse, walk_no_nested
from ..norm import Normalizer, calls_to, kwarg, mentions_name, show, subterms
from ..rules import calls_from, r_effect_free, r_guard_pred, r_thread, return_terms
from ..sdp import Skeleton, psd_ok
from ..symshape import monomial, same_monomial


def run(ctx):  # noqa: C901
    m = ctx.model
    ctx.rule("R-SHAPE", "local dimensions handed to partial_trace multiply to the operand's size (dimension algebra in normal form)")
    ctx.rule("R-NORM", "CP shortcut of the cb trace norm is the operator (Schatten-inf) norm of Phi*(I)")
    ctx.rule("R-PRED", "delegation skeletons: diamond distance and cb spectral norm")
    ctx.rule("R-SDP", "Watrous' program and the channel-fidelity program: cones, block constraints, senses, returned value")
    ctx.rule("R-THREAD", "solver / **kwargs / eps reach the solve call")
    ctx.rule("R-GUARD", "squareness / equal-shape validation")
    cb = m.func("completely_bounded_trace_norm.completely_bounded_trace_norm")
    dd = m.func("diamond_distance.diamond_distance")
    cs = m.func("completely_bounded_spectral_norm.completely_bounded_spectral_norm")
    cf = m.func("channel_fidelity.channel_fidelity")
    fs = m.func("channel_metrics.fidelity_of_separability.fidelity_of_separability")

    # ---- delegation ------------------------------------------------------------------------------
    rets, N = return_terms(m, dd, inline=True)
    ok, other = False, []
    for rn, facts, t in rets:
        a = dict(t[3]).get("phi") if t[0] == "call" and str(t[1]).endswith("completely_bounded_trace_norm") else None
        this = a in (("+", tuple(sorted([("n", "choi_1"), ("neg", ("n", "choi_2"))], key=repr))), ("+", tuple(sorted([("n", "choi_2"), ("neg", ("n", "choi_1"))], key=repr))))
        if this:
            ok = True
        elif a is not None:
            ok, other = False, []
            break
        else:
            other.append(rn)
    # a return that computes the distance some other way (a closed-form shortcut) cannot be related to the definition by this
    # analysis: it is neither accepted nor reported as wrong -- the obligation becomes undecided (exit 2)
    ctx.ob("R-PRED", dd, "diamond distance == cb trace norm of the Choi difference", (None if other and ok else ok),
           "completely_bounded_trace_norm(J1 - J2)" if ok and not other else
           (f"`{unparse(other[0])[:70]}` (line {other[0].lineno}) returns a value not obtained from completely_bounded_trace_norm(J1 - J2): "
            "a shortcut formula is not decidable here and has to be re-confirmed by review") if other and ok else "delegation changed", other[0] if other else None)
    rets, N = return_terms(m, cs, inline=True)
    ok = False
    for rn, facts, t in rets:
        a = dict(t[3]).get("phi") if t[0] == "call" and str(t[1]).endswith("completely_bounded_trace_norm") else None
        ok = a is not None and a[0] == "call" and str(a[1]).endswith("dual_channel") and dict(a[3]).get("phi_op") == ("n", "phi")
    ctx.ob("R-PRED", cs, "cb spectral norm == cb trace norm of the dual map", ok, "completely_bounded_trace_norm(dual_channel(phi))" if ok else "delegation changed")

    # ---- cb trace norm ---------------------------------------------------------------------------------
    Nn = Normalizer(m, cb, inline=False)
    res = flw.flow(cb.node)
    sq = any(flw.conds(ff) and Nn(flw.conds(ff)[-1][0]) == ("cmp", "!=", *sorted([("n", "dim_lx"), ("n", "dim_ly")], key=repr)) for _, ff in res.raises)
    ctx.ob("R-GUARD", cb, "square Choi matrix required", sq, "dim_lx != dim_ly raises" if sq else "guard missing")
    Ni = Normalizer(m, cb, inline=True)
    for rn, facts in res.returns:
        if rn is None:
            continue
        conds = [(Nn(t), pol) for t, pol in flw.conds(facts)]
        v = Ni(rn.value)
        if any(pol and t[0] == "call" and str(t[1]).endswith("is_quantum_channel") for t, pol in conds):
            ctx.ob("R-PRED", cb, "channels have cb trace norm 1", v == ("c", 1), "return 1" if v == ("c", 1) else f"returns {show(v)}", rn)
        elif any(pol and t[0] == "call" and str(t[1]).endswith("is_completely_positive") for t, pol in conds):
            # class of the norm applied to Phi*(I)
            tn = calls_to(v, "trace_norm")
            sp = [c for c in calls_to(v, "numpy.linalg.norm") if kwarg(c, "ord") == ("c", 2)] + calls_to(v, "picos.SpectralNorm")
            if tn and not sp:
                ctx.ob("R-NORM", cb, "CP shortcut: operator norm of Phi*(I)", False,
                       "the shortcut returns trace_norm(Phi*(I)) (Schatten-1); for completely positive maps the cb trace norm is the operator norm (Schatten-inf) of Phi*(I)", rn)
            elif sp:
                ctx.ob("R-NORM", cb, "CP shortcut: operator norm of Phi*(I)", True, "spectral norm", rn)
            else:
                ctx.ob("R-NORM", cb, "CP shortcut: operator norm of Phi*(I)", None, f"returns {show(v)[:80]}", rn, required=False)
            okd = "dual_channel" in repr(v) and "apply_channel" in repr(v)
            ctx.ob("R-PRED", cb, "CP shortcut applies the dual map to the identity", okd, "apply_channel(eye, dual_channel(phi))" if okd else "operand changed", rn)
    sk = Skeleton(m, cb)
    from ..sdp import r_hermitian_vars
    r_hermitian_vars(ctx, cb, sk)
    if sk.probs:
        p = sk.probs[0]
        ctx.ob("R-SDP", cb, "objective sense == min", p.sense == "min", p.sense or "?")
        for nm in ("y0", "y1"):
            ok, det, nd = psd_ok(sk, nm)
            ctx.ob("R-SDP", cb, f"{nm} >= 0", ok, det, nd)
            v = next((x for x in sk.vars if x.name == nm), None)
            shn = Nn(v.node.value.args[1]) if v is not None and isinstance(v.node, ast.Assign) and len(v.node.value.args) > 1 else None
            okh = v is not None and v.attrs.get("hermitian") == ("c", True) and shn == ("tuple", ("n", "dim_lx"), ("n", "dim_lx"))
            ctx.ob("R-SDP", cb, f"{nm} Hermitian of the Choi size", okh, "HermitianVariable(dim_lx, dim_lx)" if okh else "declaration changed")
        blk = [c for c in sk.reaching()[0] if c.rel == ">>" and c.rhs == ("c", 0) and c.lhs == ("n", "a_var")]
        okb = False
        for n in walk_no_nested(cb.node):
            if isinstance(n, ast.Assign) and isinstance(n.targets[0], ast.Name) and n.targets[0].id == "a_var":
                t = Nn(n.value)
                if t[0] == "call" and t[1] == "picos.block":
                    rows = t[2][0]
                    if rows[0] == "list" and len(rows) == 3:
                        (a11, a12), (a21, a22) = rows[1][1:], rows[2][1:]
                        okb = a11 == ("n", "y0") and a22 == ("n", "y1") and a12 == ("neg", ("n", "phi")) and a21 == ("neg", ("dag", ("n", "phi")))
        ctx.ob("R-SDP", cb, "[[Y0, -J], [-J^+, Y1]] >= 0", bool(blk) and okb, "block constraint" if blk and okb else "block constraint missing or altered")
        ot = p.objective
        Nf = Normalizer(m, cb, inline=True)
        ot = Nf(p.objective_node) if p.objective_node is not None else ot
        sps = calls_to(ot, "picos.SpectralNorm") if ot else []
        okn = len(sps) == 2 and ot[0] == "+"
        okpt = okn and all(s[2][0][0] == "call" and isinstance(s[2][0][1], tuple) and s[2][0][1][2] == "partial_trace" and s[2][0][2] == (("c", 1),) for s in sps)
        ctx.ob("R-NORM", cb, "objective == ||Tr_1 Y0||_inf + ||Tr_1 Y1||_inf", bool(okn and okpt), "spectral norms of the partial traces over subsystem 1" if okn and okpt else f"objective {show(ot)[:90] if ot else '?'}")
        # local dimension = sqrt(Choi size)
        dimdef = [n for n in walk_no_nested(cb.node) if isinstance(n, ast.Assign) and isinstance(n.targets[0], ast.Name) and n.targets[0].id == "dim"]
        okdim = bool(dimdef) and same_monomial(("*", (Nn(dimdef[0].value), Nn(dimdef[0].value))), ("n", "dim_lx")) is True
        ctx.ob("R-SHAPE", cb, "local dimension squared == Choi size", okdim, "dim = round(sqrt(dim_lx))" if okdim else "the local dimension is not the square root of the Choi size")
        rets, _ = return_terms(m, cb, inline=False)
        half = ("*", tuple(sorted([("c", Fraction(1, 2)), ("attr", ("n", "sdp"), "value")], key=repr)))
        vals = [(rn_, t) for rn_, _, t in rets if "'value'" in repr(t)]
        okv = any(t == half for _, t in vals)
        others = [(rn_, t) for rn_, t in vals if t != half]
        # a second program (another formulation behind a guard) whose optimum is returned with another scaling cannot be related to the
        # definition by this analysis: undecided, not accepted
        ctx.ob("R-SDP", cb, "value == optimum / 2", (None if others else True) if okv else False,
               "sdp.value / 2" if okv and not others else
               (f"`{unparse(others[0][0])[:60]}` (line {others[0][0].lineno}) returns the optimum of a different programme / scaling next to the reference SDP: not decidable here"
                if okv else "scaling changed"), others[0][0] if others else None)
        oks = any(any(kw.arg == "solver" and unparse(kw.value) == "solver" for kw in c.keywords) and any(kw.arg is None and unparse(kw.value) == "kwargs" for kw in c.keywords) for c in sk.solves)
        ctx.ob("R-THREAD", cb, "solver and **kwargs reach solve", oks, "forwarded" if oks else "solver options dropped")
        d = sk.dangling()
        ctx.ob("R-SDP", cb, "S1 every constraint reaches the problem", not d, "ok" if not d else "dropped")
    r_effect_free(ctx, cb, ["phi"])
    r_effect_free(ctx, dd, ["choi_1", "choi_2"])
    r_effect_free(ctx, cs, ["phi"])

    # ---- channel fidelity -----------------------------------------------------------------------------------
    Nc = Normalizer(m, cf, inline=False)
    res = flw.flow(cf.node)
    gs = [Nc(flw.conds(ff)[-1][0]) for _, ff in res.raises if flw.conds(ff)]
    oke = any(t[0] == "cmp" and t[1] == "!=" and "choi_1" in repr(t) and "choi_2" in repr(t) and "shape" in repr(t) for t in gs)
    okq = any(t == ("cmp", "!=", *sorted([("n", "choi_dim_x"), ("n", "choi_dim_y")], key=repr)) for t in gs)
    ctx.ob("R-GUARD", cf, "equal shapes and square", oke and okq, "both raising guards" if oke and okq else "a shape guard is missing")
    sk = Skeleton(m, cf)
    r_hermitian_vars(ctx, cf, sk)
    Ni = Normalizer(m, cf, inline=True)
    if sk.probs:
        p = sk.probs[0]
        ctx.ob("R-SDP", cf, "objective sense == max", p.sense == "max", p.sense or "?")
        ctx.ob("R-SDP", cf, "objective == lambda", p.objective == ("n", "lam"), "Maximize(lam)")
        lamv = next((v for v in sk.vars if v.name == "lam"), None)
        ctx.ob("R-SDP", cf, "lambda >= 0", lamv is not None and lamv.attrs.get("nonneg") == ("c", True), "nonneg=True")
        reach = sk.reaching()[0]
        blk = [c for c in reach if c.rel == ">>" and c.rhs == ("c", 0) and c.lhs[0] == "call" and c.lhs[1] == "cvxpy.bmat"]
        okb = False
        if blk:
            rows = blk[0].lhs[2][0]
            if rows[0] == "list" and len(rows) == 3:
                (a11, a12), (a21, a22) = rows[1][1:], rows[2][1:]
                okb = {repr(a11), repr(a22)} == {repr(("n", "choi_1")), repr(("n", "choi_2"))} and {repr(a12), repr(a21)} == {repr(("n", "q_var")), repr(("dag", ("n", "q_var")))}
        ctx.ob("R-SDP", cf, "[[J1, Q^+], [Q, J2]] >= 0", okb, "block constraint" if okb else "block constraint missing or altered")
        lin = [c for c in reach if c.rel in ("<=", ">=", ">>", "<<") and "lam" in repr(c.sides())]
        okl, whyl = False, "missing or altered"
        hi = ("c", None)
        if lin:
            c = lin[0]
            lo, hi = (c.lhs, c.rhs) if c.rel in ("<=", "<<") else (c.rhs, c.lhs)
            hi = Nc(Ni.env.single[hi[1]]) if hi[0] == "n" and hi[1] in Ni.env.single else hi
            # Hermitian part of T = Tr_out Q:  (T + T^+) / 2  (T may be a local or the partial_trace call itself)
            herm = None
            if hi[0] == "*" and ("c", Fraction(1, 2)) in hi[1] and len(hi[1]) == 2:
                sm = [x for x in hi[1] if x != ("c", Fraction(1, 2))][0]
                if sm[0] == "+" and len(sm[1]) == 2:
                    a, b = sm[1]
                    if a == ("dag", b):
                        herm = b
                    elif b == ("dag", a):
                        herm = a
            if herm is not None and herm[0] == "n" and herm[1] in Ni.env.single:
                herm = Nc(Ni.env.single[herm[1]])
            lam_i = lo[0] == "*" and ("n", "lam") in lo[1] and any(x[0] == "call" and x[1] in ("numpy.identity", "numpy.eye") for x in lo[1]) and len(lo[1]) == 2
            if c.rel in ("<=", ">="):
                whyl = (f"`{c.rel}` between cvxpy matrix expressions compares entry by entry: it forces the off-diagonal entries of Re Tr_out Q to be >= 0 and is not "
                        "the Loewner order lam*I <= Re(Tr_out Q) of the definition (identity channel vs a real rotation by 0.4: 0.0013 instead of cos 0.4)")
            elif herm is None:
                whyl = (f"the bounded operator `{show(hi)[:70]}` is not the Hermitian part (T + T^+)/2 of T = Tr_out Q"
                        + (": the entrywise real part is a different operator for complex Q" if "cvxpy.real" in repr(hi) else ""))
            elif not lam_i:
                whyl = f"lower side `{show(lo)[:60]}` is not lam * identity(dim)"
            elif not ("partial_trace" in repr(herm) and "q_var" in repr(herm)):
                whyl = f"`{show(herm)[:60]}` is not a partial trace of Q"
            else:
                okl, whyl = True, "(T + T^+)/2 >> lam * I with T = partial_trace(Q, [1], [d, d])"
            hi = herm if herm is not None else hi
            # dimension algebra: dims [d, d] of a (c, c) operand
            pt = [s for s in subterms(hi) if isinstance(s, tuple) and s and s[0] == "call" and str(s[1]).endswith("partial_trace.partial_trace")]
            if pt:
                d = dict(pt[0][3])
                dims = d.get("dim")
                qv = next((v for v in sk.vars if v.name == "q_var"), None)
                if dims is not None and dims[0] == "list" and qv is not None and qv.shape is not None and qv.shape[0] == "tuple":
                    prod = ("*", tuple(Ni(ast.parse(show(x), mode="eval").body) if False else _inl(Ni, cf, x) for x in dims[1:]))
                    size = _inl(Ni, cf, qv.shape[1])
                    sm = same_monomial(prod, size)
                    ctx.ob("R-SHAPE", cf, "partial_trace dims multiply to the operand size", sm if sm is not None else None,
                           f"prod({show(dims)}) == {show(size)}" if sm else
                           f"partial_trace(q_var, ., {show(dims)}): the product of the local dimensions is {show(prod)[:80]} while q_var is {show(size)} x {show(size)} "
                           "(log2 of the Choi size is its square root only for sizes 4 and 16)", pt[0] if False else None, required=sm is not None)
                ok1 = d.get("sys") == ("list", ("c", 1))
                ctx.ob("R-BASE", cf, "the output factor (subsystem 1, 0-based) is traced", ok1, "partial_trace(Q, [1], [d, d])" if ok1 else f"sys {show(d.get('sys'))}")
            else:
                # cvxpy's own atom: partial_trace(expr, dims, axis=0) traces out subsystem `axis`
                cpt = [s for s in subterms(hi) if isinstance(s, tuple) and s and s[0] == "call" and s[1] in ("cvxpy.partial_trace", "cvxpy.atoms.affine.partial_trace.partial_trace")]
                if cpt:
                    kw = dict(cpt[0][3])
                    ax = kw.get("axis", cpt[0][2][2] if len(cpt[0][2]) > 2 else ("c", 0))
                    ok1 = ax == ("c", 1)
                    ctx.ob("R-BASE", cf, "the output factor (subsystem 1, 0-based) is traced", ok1, "cvxpy.partial_trace(Q, [d, d], axis=1)" if ok1 else
                           f"cvxpy.partial_trace(..., axis={show(ax)}) traces out subsystem {show(ax)} (its default is 0, the INPUT factor): the constraint becomes lam*I <= Re Tr_in Q, "
                           "which changes the value for every non-unital channel")
                else:
                    ctx.ob("R-BASE", cf, "the output factor (subsystem 1, 0-based) is traced", None, "no partial trace of Q found in the bounded operator")
        ctx.ob("R-SDP", cf, "lambda I <= Re Tr_out Q in the Loewner order (Re = Hermitian part)", okl, whyl, lin[0].node if lin and hasattr(lin[0], "node") else None)
        d = sk.dangling()
        ctx.ob("R-SDP", cf, "S1 every constraint reaches the problem", not d, "ok" if not d else "dropped")
        oke2 = any(any(kw.arg == "eps" and unparse(kw.value) == "eps" for kw in c.keywords) for c in sk.solves)
        ctx.ob("R-THREAD", cf, "eps->solve(eps=)", oke2, "forwarded" if oke2 else "eps ignored")
        rets, _ = return_terms(m, cf, inline=False)
        ctx.ob("R-SDP", cf, "S3 returns the optimum", all("solve" in repr(t) for _, _, t in rets), "problem.solve(...)")
    r_effect_free(ctx, cf, ["choi_1", "choi_2"])

    # ---- channel fidelity of separability ------------------------------------------------------------------------
    for pred, arg in (("is_density", "psi"), ("is_pure", "psi")):
        r_guard_pred(ctx, fs, pred, arg)
    Nf = Normalizer(m, fs, inline=False)
    res = flw.flow(fs.node)
    okl = any(flw.conds(ff) and "builtins.len" in repr(Nf(flw.conds(ff)[-1][0])) and "psi_dims" in repr(Nf(flw.conds(ff)[-1][0])) for _, ff in res.raises)
    ctx.ob("R-GUARD", fs, "tripartite dims required", okl, "len(psi_dims) == 3 enforced" if okl else "guard missing")
    sk = Skeleton(m, fs)
    r_hermitian_vars(ctx, fs, sk)
    if sk.probs:
        p = sk.probs[0]
        ctx.ob("R-SDP", fs, "objective sense == max", p.sense == "max", p.sense or "?")
        reach = sk.reaching()[0]
        ok, det, nd = psd_ok(sk, "choi")
        ctx.ob("R-SDP", fs, "Choi variable >= 0", ok, det, nd)
        tp = [c for c in reach if c.rel == "==" and any(x[0] == "call" and x[1] == "picos.I" and x[2] == (("n", "dim_r"),) for x in (c.lhs, c.rhs)) and "picos.partial_trace" in repr(c.sides())]
        ctx.ob("R-SDP", fs, "trace preserving: Tr_out S == I_R", bool(tp), "present" if tp else "missing")
        sy = [c for c in reach if c.rel == "==" and ("n", "choi") in (c.lhs, c.rhs) and "sym_choi" in repr(c.sides())]
        ctx.ob("R-SDP", fs, "k-extendibility: S invariant under the symmetric projector", bool(sy), "present" if sy else "missing")
        ppt = [c for c in reach if c.rel == ">>" and c.rhs == ("c", 0) and c.lhs[0] == "call" and c.lhs[1] == "picos.partial_transpose" and c.loops]
        ctx.ob("R-SDP", fs, "PPT constraints for the extension copies", bool(ppt), "inside the loop" if ppt else "missing or hoisted")
        d = sk.dangling()
        ctx.ob("R-SDP", fs, "S1 every constraint reaches the problem", not d, "ok" if not d else "dropped")
        rets, _ = return_terms(m, fs, inline=False)
        okr = any(t == ("+", tuple(sorted([("c", -1), ("*", tuple(sorted([("c", 2), ("attr", ("n", "solution"), "value")], key=repr)))], key=repr))) for _, _, t in rets)
        ctx.ob("R-SDP", fs, "value == 2 * optimum - 1", okr, "2 * solution.value - 1" if okr else "returned value changed")
        oks = any(any(kw.arg == "solver" and unparse(kw.value) == "solver_option" for kw in c.keywords) for c in sk.solves)
        ctx.ob("R-THREAD", fs, "solver_option->solve(solver=)", oks, "used" if oks else "ignored")
    # the state arrives ordered (B, A, R) with dims psi_dims; it is permuted to (R, A, B) with THOSE dims -- the dims list is
    # reversed only afterwards (value of `psi_dims` at the call must still be the caller's list)
    from ..rules import value_at
    Nfs = Normalizer(m, fs, inline=False)
    for c_, cal_ in calls_from(m, fs, "permute_systems.permute_systems"):
        b_ = m.bind(c_, cal_.func)
        if isinstance(b_.get("input_mat"), ast.Name) and b_["input_mat"].id == "psi":
            dt_ = Nfs(b_["dim"]) if isinstance(b_.get("dim"), ast.AST) else None
            dv_ = value_at(m, fs, dt_[1], c_, Nfs) if dt_ is not None and dt_[0] == "n" else dt_
            okd_ = dv_ == ("n", "psi_dims")
            okp_ = Nfs(b_["perm"]) == ("list", ("c", 2), ("c", 1), ("c", 0)) if isinstance(b_.get("perm"), ast.AST) else False
            ctx.ob("R-ORDER", fs, "psi is permuted (B,A,R) -> (R,A,B) with the caller's dims, before the dims list is reversed", None if dv_ is None else bool(okd_ and okp_),
                   "permute_systems(psi, [2, 1, 0], psi_dims) on the unreversed dims" if okd_ and okp_ else
                   f"at the call the dims are {show(dv_)[:70] if dv_ else '?'} and the permutation {unparse(b_['perm']) if isinstance(b_.get('perm'), ast.AST) else '?'}: the subsystem sizes handed to "
                   "permute_systems do not describe the state's current ordering (only harmless when dim_B == dim_R)", c_, required=dv_ is not None)
    if not any(isinstance(m.bind(c_, cal_.func).get("input_mat"), ast.Name) and m.bind(c_, cal_.func)["input_mat"].id == "psi" for c_, cal_ in calls_from(m, fs, "permute_systems.permute_systems")):
        ctx.ob("R-ORDER", fs, "psi is permuted (B,A,R) -> (R,A,B) with the caller's dims, before the dims list is reversed", False,
               "psi is no longer permuted to the (R, A, B) ordering the programme assumes")
    # after the permutation the dims list describes (R, A, B): psi_dims is re-bound to [dim_r, dim_a, dim_b], unpacked from (dim_b, dim_a, dim_r)
    rev = [n for n in walk_no_nested(fs.node) if isinstance(n, ast.Assign) and isinstance(n.targets[0], ast.Name) and n.targets[0].id == "psi_dims" and isinstance(n.value, ast.List)]
    unp = [n for n in walk_no_nested(fs.node) if isinstance(n, ast.Assign) and isinstance(n.targets[0], ast.Tuple) and isinstance(n.value, ast.Name) and n.value.id == "psi_dims"]
    okrev = bool(rev) and bool(unp) and [unparse(e) for e in rev[0].value.elts] == [unparse(e) for e in unp[0].targets[0].elts][::-1]
    ctx.ob("R-ORDER", fs, "the dims list is reversed together with the state", okrev, "psi_dims = reversed unpacking" if okrev else "psi_dims is not re-bound to the reversed dimensions after the permutation")
    # PPT constraints on the Choi state: cumulative subsystem lists [1], [1, 2], ..., [1..k]
    acc = [n for n in walk_no_nested(fs.node) if isinstance(n, (ast.Assign, ast.AugAssign)) and "sys" in {x.id for x in ast.walk(n) if isinstance(x, ast.Name) and isinstance(x.ctx, ast.Store)}
           and any(isinstance(p_, ast.For) and any(x is n for x in ast.walk(p_)) for p_ in walk_no_nested(fs.node))]
    ctx.ob("R-SDP", fs, "PPT constraints range over the cumulative subsystem lists [1..i], i = 1..k", bool(acc), "sys grows by one copy per constraint" if acc else
           "the subsystem list is not extended inside the loop: every PPT constraint is the (trivial) transpose of no subsystem")
    okk = False
    for c_, cal_ in calls_from(m, fs, "symmetric_projection.symmetric_projection"):
        b_ = m.bind(c_, cal_.func)
        if isinstance(b_.get("p_val"), ast.Name) and b_["p_val"].id == "k" and isinstance(b_.get("dim"), ast.Name) and b_["dim"].id == "dim_a":
            okk = True
    ctx.ob("R-THREAD", fs, "extension level k reaches the symmetric projector", okk, "symmetric_projection(dim_a, k)" if okk else "level not threaded")


def _inl(Ni, f, t):
    """inline single-assignment locals appearing as bare names inside t"""
    if isinstance(t, tuple):
        if len(t) == 2 and t[0] == "n" and t[1] in Ni.env.single:
            return Ni(Ni.env.single[t[1]])
        return tuple(_inl(Ni, f, x) if isinstance(x, tuple) else x for x in t)
    return t
