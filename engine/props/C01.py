"""C01 -- subsystem permutation is exactly tensor-factor relabelling (structural clauses)."""

from __future__ import annotations

import ast

from .. import flow as flw
from ..dataflow import origins
from ..layout import has_reversal, reshape_sites
from ..model import calls_in, unparse, walk_no_nested
from ..norm import Normalizer, calls_to, mentions_name, show, subterms
from ..rules import (calls_from, expand_at, path_conds, r_bind_literal, r_effect_free, r_live, r_thread, value_at)


def _flag_polarity(conds, flag):
    """+1 if the path condition implies flag is truthy, -1 if falsy, 0 if not governed."""
    for t, pol in conds:
        if t == ("n", flag):
            return 1 if pol else -1
        if t == ("not", ("n", flag)):
            return -1 if pol else 1
        if t[0] == "cmp" and t[1] in ("==", "is") and ("n", flag) in (t[2], t[3]):
            other = t[3] if t[2] == ("n", flag) else t[2]
            if other == ("c", True):
                return 1 if pol else -1
            if other == ("c", False):
                return -1 if pol else 1
    return 0


def run(ctx):
    m = ctx.model
    ctx.rule("R-SIB", "the inv_perm branch applies argsort to exactly the axes expression of the forward branch; "
                      "sparse and dense branches gather with the same row permutation")
    ctx.rule("R-LAYOUT", "reversed subsystem dims <=> order='F' reshape; axes are the reversal-conjugate of perm; "
                         "flattening uses the same (column-major) order")
    ctx.rule("R-THREAD", "perm / inv_perm / row and column dims reach both recursive calls; swap forwards dim, row_only")
    ctx.rule("R-BIND", "permutation_operator / swap_operator call down with row_only=True literal flags")
    ctx.rule("R-BASE", "swap.sys is 1-based and decremented exactly once before indexing perm")
    ctx.rule("R-EFFECT", "no store into the caller's array")
    ctx.rule("R-LIVE", "each documented option can influence the result")
    ctx.rule("R-GUARD", "perm validity and dimension agreement are checked before the gather")

    ps = m.func("permute_systems.permute_systems")
    N = Normalizer(m, ps)
    Nn = Normalizer(m, ps, inline=False)

    # ---- vector branch: transposes --------------------------------------------------------
    tr = [c for c in calls_in(ps.node) if m.resolve_call(ps, c).key == "numpy.transpose" and len(c.args) >= 2]
    fwd, inv = [], []
    for c in tr:
        pol = _flag_polarity(path_conds(m, ps, c, Nn), "inv_perm")
        (inv if pol > 0 else fwd if pol < 0 else fwd).append(c)
        if pol == 0:
            inv.append(c)
    merged = None
    if len(tr) == 1 and isinstance(tr[0].args[1], ast.Name):
        # one transpose site whose axes are a local: `axes = F(perm)` and, under `if inv_perm:`, `axes = np.argsort(axes)`
        an = tr[0].args[1].id
        dfs_ = [d for d in walk_no_nested(ps.node) if isinstance(d, ast.Assign) and len(d.targets) == 1 and isinstance(d.targets[0], ast.Name) and d.targets[0].id == an
                and d.lineno < tr[0].lineno]
        fw_ = [d for d in dfs_ if _flag_polarity(path_conds(m, ps, d, Nn), "inv_perm") == 0]
        iv_ = [d for d in dfs_ if _flag_polarity(path_conds(m, ps, d, Nn), "inv_perm") > 0]
        if len(fw_) == 1 and len(iv_) == 1 and fw_[0].lineno < iv_[0].lineno:
            a_f_ = N(fw_[0].value)
            ivv = iv_[0].value
            if isinstance(ivv, ast.Call) and m.resolve_call(ps, ivv).key == "numpy.argsort" and len(ivv.args) == 1 and isinstance(ivv.args[0], ast.Name) and ivv.args[0].id == an:
                merged = (a_f_, ("call", "numpy.argsort", (a_f_,), ()), fw_[0], iv_[0])
    if merged is not None:
        ctx.ob("R-SIB", ps, "inverse-axes==argsort(forward-axes)", True, f"inverse axes = argsort({show(merged[0])}) (re-bound under inv_perm)", merged[3])
        ctx.ob("R-SIB", ps, "both-branches-transpose-same-array", True, "one transpose site serves both directions", tr[0])
    elif not tr:
        ctx.ob("R-SIB", ps, "inverse-axes==argsort(forward-axes)", None,
               "no np.transpose(array, axes) site found in permute_systems (vector branch rewritten?)", required=False)
    else:
        if not inv or not fwd:
            ctx.ob("R-SIB", ps, "inverse-axes==argsort(forward-axes)", False,
                   "the axes transposition is not specialised on inv_perm in both polarities")
        else:
            a_f = N(fwd[0].args[1])
            a_i = N(inv[0].args[1])
            want = ("call", "numpy.argsort", (a_f,), ())
            if a_i == want:
                ctx.ob("R-SIB", ps, "inverse-axes==argsort(forward-axes)", True,
                       f"inverse axes = argsort({show(a_f)})", inv[0])
            elif a_i == a_f:
                ctx.ob("R-SIB", ps, "inverse-axes==argsort(forward-axes)", False,
                       "the inverse branch uses the same axes as the forward branch: inv_perm has no effect on vectors", inv[0])
            elif a_f == ("call", "numpy.argsort", (a_i,), ()):
                ctx.ob("R-SIB", ps, "inverse-axes==argsort(forward-axes)", False,
                       "argsort is applied on the forward branch instead of the inverse branch (forward and inverse exchanged)", fwd[0])
            elif not calls_to(a_i, "numpy.argsort") and mentions_name(a_i, "perm"):
                ctx.ob("R-SIB", ps, "inverse-axes==argsort(forward-axes)", False,
                       f"inverse axes {show(a_i)} are not the argsort (inverse permutation) of the forward axes {show(a_f)}", inv[0])
            else:
                ctx.ob("R-SIB", ps, "inverse-axes==argsort(forward-axes)", None,
                       f"unrecognised inverse axes {show(a_i)}", inv[0], required=False)
        # transposed operand is the same reshaped array in both branches
        ops = {repr(N(c.args[0])) for c in tr}
        ctx.ob("R-SIB", ps, "both-branches-transpose-same-array", len(ops) == 1,
               "forward and inverse branch transpose the same reshaped index array" if len(ops) == 1 else
               "forward and inverse branch transpose different arrays", tr[0])

    # ---- layout of the vector branch -------------------------------------------------------
    og = origins(ps)
    rs = [r for r in reshape_sites(m, ps) if r["kind"] in ("reshape",) and r["shape"]]
    dim_rs = [r for r in rs if any(og.derives_from(s, "dim") for s in r["shape"])]
    layout_rev = None
    for r in dim_rs:
        sh = N(r["shape"][0]) if len(r["shape"]) == 1 else ("tuple",) + tuple(N(s) for s in r["shape"])
        rev = has_reversal(sh)
        layout_rev = rev
        if rev and r["order"] == "F":
            ctx.ob("R-LAYOUT", ps, "reshape(dims reversed)<=>order=F", True, "reversed dims with order='F'", r["node"])
        elif (not rev) and r["order"] == "C":
            ctx.ob("R-LAYOUT", ps, "reshape(dims reversed)<=>order=F", True, "dims in order with row-major reshape", r["node"])
        else:
            ctx.ob("R-LAYOUT", ps, "reshape(dims reversed)<=>order=F", False,
                   f"reshape to per-subsystem axes uses {'reversed' if rev else 'unreversed'} dims with order='{r['order']}': "
                   "the Kronecker index convention (row-major over dims == column-major over reversed dims) is broken", r["node"])
    if not dim_rs:
        ctx.ob("R-LAYOUT", ps, "reshape(dims reversed)<=>order=F", None, "no reshape driven by `dim` found", required=False)
    # axes conjugation
    if fwd and layout_rev is not None:
        a_f = merged[0] if merged is not None else N(fwd[0].args[1])
        axes_rev = has_reversal(a_f)
        # complement: (n-1) - perm  <=> a sum containing neg(perm-ish) and len(perm)
        compl = any(isinstance(s, tuple) and s and s[0] == "neg" and mentions_name(s, "perm") for s in subterms(a_f))
        uses_perm = mentions_name(a_f, "perm")
        if not uses_perm:
            ctx.ob("R-LAYOUT", ps, "axes==reversal-conjugate(perm)", False, f"transposition axes {show(a_f)} do not depend on perm", fwd[0])
        elif layout_rev and axes_rev and compl:
            # (len(perm) - 1) - perm[::-1] : the constant must be len(perm) - 1
            a_x = a_f
            for nm in sorted({s[1] for s in subterms(a_f) if isinstance(s, tuple) and len(s) == 2 and s[0] == "n"} - {"perm"}):
                v = value_at(m, ps, nm, fwd[0], Nn)
                if v is not None:
                    a_x = _sub1(a_x, nm, v)
            a_x = _renorm_add(N, a_x)
            ok = _complement_const_ok(a_x)
            ctx.ob("R-LAYOUT", ps, "axes==reversal-conjugate(perm)", ok,
                   "axes = (n-1) - reversed(perm) on reversed/F layout" if ok else
                   f"axes {show(a_f)}: the complement constant is not len(perm) - 1", fwd[0])
        elif (not layout_rev) and not axes_rev and not compl:
            ctx.ob("R-LAYOUT", ps, "axes==reversal-conjugate(perm)", True, "axes = perm on unreversed/C layout", fwd[0])
        else:
            ctx.ob("R-LAYOUT", ps, "axes==reversal-conjugate(perm)", False,
                   f"layout is {'reversed/F' if layout_rev else 'plain/C'} but axes {show(a_f)} "
                   f"{'lack' if layout_rev else 'have'} the reversal-conjugation (n-1 - perm[::-1])", fwd[0])
    # flatten: the transposed array goes through vec (column-major) when the layout is F
    if tr:
        flat_ok = None
        for c in tr:
            # find enclosing call
            parent = _parent_call(ps.node, c)
            if parent is None:
                continue
            cal = m.resolve_call(ps, parent)
            if cal.kind == "repo" and cal.func.name == "vec":
                flat_ok = bool(layout_rev)
            elif isinstance(parent.func, ast.Attribute) and parent.func.attr in ("ravel", "flatten", "reshape"):
                order = next((kw.value.value for kw in parent.keywords if kw.arg == "order" and isinstance(kw.value, ast.Constant)), "C")
                flat_ok = (order == "F") == bool(layout_rev)
            if flat_ok is False:
                ctx.ob("R-LAYOUT", ps, "flatten-order==reshape-order", False,
                       "the permuted index array is flattened in a different memory order than it was reshaped with", parent)
                break
        if flat_ok is not False:
            ctx.ob("R-LAYOUT", ps, "flatten-order==reshape-order", flat_ok,
                   "flattened with vec (column-major) matching the order='F' reshape" if flat_ok else "flattening not recognised",
                   required=False)

    # ---- recursion threading ---------------------------------------------------------------
    from ..rules import r_sparse_safe
    ctx.rule("R-KIND", "a possibly sparse operand is indexed only on paths where it has been made dense")
    r_sparse_safe(ctx, ps, "input_mat")
    rec = calls_from(m, ps, "permute_systems.permute_systems")
    if len(rec) < 2:
        ctx.ob("R-THREAD", ps, "two recursive index-vector calls", None if not rec else False,
               f"expected a row and a column recursive call, found {len(rec)}", required=False)
    else:
        r_thread(ctx, ps, "perm", "permute_systems.permute_systems", min_sites=2)
        r_thread(ctx, ps, "inv_perm", "permute_systems.permute_systems", min_sites=2)
        # row call gets dim[0], column call gets dim[1]; gather positions agree
        roles = {}
        for c, cal in rec:
            b = m.bind(c, cal.func)
            d = b.get("dim")
            idx = _first_index(d)
            tgt = _assigned_name(ps.node, c)
            roles[tgt] = (idx, c, b)
        gathers = {k: v for k, v in _gathers(ps.node).items() if k in roles}
        for name, (idx, c, b) in roles.items():
            pos = gathers.get(name)
            if pos is None or idx is None:
                ctx.ob("R-THREAD", ps, f"dim-row/col->{name}", None, "gather position or dim index not recognised", c, required=False)
                continue
            ok = all(p == idx for p in pos)
            ctx.ob("R-THREAD", ps, f"dim[{idx}]->{'rows' if idx == 0 else 'columns'}", ok,
                   f"index vector built from dim[{idx}] is used to gather axis {sorted(set(pos))}" +
                   ("" if ok else ": row dimensions drive the column gather or vice versa"), c)
            # the index vector length is the matching matrix dimension
            va = b.get("input_mat")
            vt = N(va) if isinstance(va, ast.AST) else None
            if vt is not None and vt[0] == "n":
                vt = value_at(m, ps, vt[1], c, N) or vt
            if vt is not None:
                want = ("sub", ("n", "input_mat_dims"), ("c", idx))
                has = any(s == want for s in subterms(vt))
                other = any(s == ("sub", ("n", "input_mat_dims"), ("c", 1 - idx)) for s in subterms(vt))
                ctx.ob("R-THREAD", ps, f"index-vector-length[{idx}]", True if has and not other else False if other else None,
                       f"index vector ranges over input_mat_dims[{idx}]" if has and not other else
                       f"index vector for axis {idx} ranges over the other axis' length" if other else "index vector extent not recognised", c,
                       required=False)
            # 4th argument: the index vector itself must be fully permuted (row_only False)
            ro = b.get("row_only")
            if isinstance(ro, ast.AST):
                rt = N(ro)
                ctx.ob("R-BIND", ps, f"recursive-call[{idx}].row_only==False", rt == ("c", False),
                       "recursive index-vector call passes row_only=False" if rt == ("c", False) else f"row_only={show(rt)}", c)
        # sparse and dense branch gather with the same permutation
        rows = [g for g in _gather_nodes(ps.node) if g[1] == 0 and g[0] in roles]
        names = {g[0] for g in rows}
        # each arm of the sparse / dense split performs the row gather (a missing arm leaves the result unbound for that representation)
        for n_ in walk_no_nested(ps.node):
            if isinstance(n_, ast.If) and "issparse" in unparse(n_.test) and n_.orelse:
                arms = []
                for blk in (n_.body, n_.orelse):
                    arms.append(any(g[1] == 0 and g[0] in roles for s_ in blk for g in _gather_nodes(s_)) or
                                any(isinstance(x, ast.BinOp) and isinstance(x.op, ast.MatMult) for s_ in blk for x in ast.walk(s_)))
                if any(arms):
                    ctx.ob("R-SIB", ps, "both the sparse and the dense arm gather the rows", all(arms), "row gather in both arms" if all(arms) else
                           f"the {'sparse' if not arms[0] else 'dense'} arm no longer gathers the rows: the permuted matrix is unbound (or unpermuted) for that representation", n_)
        if rows:
            ctx.ob("R-SIB", ps, "sparse/dense-gather-agree", len(names) == 1,
                   f"{len(rows)} row gather(s) all index with `{sorted(names)[0]}`" if len(names) == 1 else
                   f"row gathers use different index vectors {sorted(names)}", rows[0][2])
    # selection-matrix form of the gather: G = sparse((1, (R, C))) and G @ X gives Y[R[k]] = X[C[k]]; a gather Y[k] = X[p[k]]
    # needs R = identity index, C = p.  With R = p, C = identity it is the scatter Y[p[k]] = X[k], i.e. the INVERSE permutation.
    perm_names = {_assigned_name(ps.node, c) for c, _ in rec} - {None}
    ident_names = set()
    for n in walk_no_nested(ps.node):
        if isinstance(n, ast.Assign) and len(n.targets) == 1 and isinstance(n.targets[0], ast.Name):
            t = N(n.value)
            if "builtins.range" in repr(t) or "numpy.arange" in repr(t):
                if not any(nm in repr(t) for nm in perm_names):
                    ident_names.add(n.targets[0].id)
    for n in walk_no_nested(ps.node):
        if isinstance(n, ast.Call) and getattr(n.func, "attr", getattr(n.func, "id", "")) in ("csr_matrix", "coo_matrix", "csc_matrix", "coo_array", "csr_array", "csc_array") and n.args \
                and isinstance(n.args[0], ast.Tuple) and len(n.args[0].elts) == 2 and isinstance(n.args[0].elts[1], ast.Tuple) and len(n.args[0].elts[1].elts) == 2:
            R, C = n.args[0].elts[1].elts
            rn, cn = (R.id if isinstance(R, ast.Name) else None), (C.id if isinstance(C, ast.Name) else None)
            if rn in perm_names and (cn in ident_names or isinstance(C, ast.Call)):
                ctx.ob("R-PAIR", ps, "selection matrix gathers (rows = identity index, columns = permutation index)", False,
                       f"`{unparse(n)[:80]}` puts the permutation index `{rn}` on the ROW side: G @ X then scatters (Y[p[k]] = X[k]), which is the inverse permutation -- "
                       "sparse inputs are permuted differently from dense ones whenever the index map is not an involution", n)
            elif cn in perm_names and (rn in ident_names or isinstance(R, ast.Call)):
                ctx.ob("R-PAIR", ps, "selection matrix gathers (rows = identity index, columns = permutation index)", True, f"G[k, {cn}[k]] = 1", n)
            else:
                ctx.ob("R-PAIR", ps, "selection matrix gathers (rows = identity index, columns = permutation index)", None, f"`{unparse(n)[:60]}` not recognised", n, required=False)
    # row_only governs the column gather
    cg = [g for g in _gather_nodes(ps.node) if g[1] == 1 and g[0] in {_assigned_name(ps.node, c) for c, _ in rec}]
    if cg:
        pol = _flag_polarity(path_conds(m, ps, cg[0][2], Nn), "row_only")
        ctx.ob("R-SIB", ps, "column-gather-iff-not-row_only", pol == -1,
               "columns are permuted exactly when row_only is false" if pol == -1 else
               "the column gather is not governed by `not row_only`", cg[0][2])
    # the vector branch permutes the entries of a 1-by-X or X-by-1 operand along its long axis.  For a 1-by-X MATRIX (2-D, one row) with row_only the
    # long axis is the column axis, which row_only leaves alone: that case has to leave the branch unpermuted (F64: apply_channel on a
    # one-column Choi matrix calls swap(phi.T, .., row_only=True))
    vb = [n for n in walk_no_nested(ps.node) if isinstance(n, ast.If) and unparse(n.test) == "is_vec" and any(isinstance(x, ast.Return) for x in ast.walk(n))]
    if vb:
        hon = None
        for t in ast.walk(vb[-1]):
            if isinstance(t, ast.If) and any(isinstance(x, ast.Name) and x.id == "row_only" for x in ast.walk(t.test)):
                for r_ in t.body:
                    if isinstance(r_, ast.Return) and r_.value is not None and not any(isinstance(c_, ast.Call) and getattr(c_.func, "attr", getattr(c_.func, "id", "")) in
                                                                                       ("transpose", "reshape", "permute_systems", "vec") for c_ in ast.walk(r_.value)):
                        hon = t
        ctx.ob("R-THREAD", ps, "vector branch: a one-row matrix with row_only is returned unpermuted", hon is not None,
               "row_only is tested inside the vector branch and exits without a permutation" if hon is not None else
               "the vector branch never looks at `row_only`: a 1-by-X matrix has its entries permuted along the COLUMN axis although only rows were to move -- "
               "apply_channel(X, J) for a one-column Choi matrix J (a map on column vectors) then returns wrong values", vb[-1])
    for p in ("perm", "dim", "row_only", "inv_perm"):
        r_live(ctx, ps, p)
    r_effect_free(ctx, ps, ["input_mat", "perm", "dim"])

    # ---- guards -----------------------------------------------------------------------------
    res = flw.flow(ps.node)
    have_perm_guard = False
    have_dim_guard = False
    for rz, facts in res.raises:
        cs = flw.conds(facts)
        if not cs:
            continue
        t = Nn(cs[-1][0])
        if calls_to(t, "builtins.sorted") and mentions_name(t, "perm"):
            have_perm_guard = True
        if mentions_name(t, "prod_dim_r") or mentions_name(t, "prod_dim_c"):
            have_dim_guard = True
    ctx.ob("R-GUARD", ps, "perm-is-permutation-checked", have_perm_guard,
           "sorted(perm) is compared with range(n) and a mismatch raises" if have_perm_guard else
           "no raising guard validates that perm is a permutation")
    ctx.ob("R-GUARD", ps, "dims-match-size-checked", have_dim_guard or None,
           "product of dims is compared with the array size" if have_dim_guard else "dimension guard not recognised", required=False)

    # ---- swap --------------------------------------------------------------------------------
    sw = m.func("swap.swap")
    Ns = Normalizer(m, sw)
    r_thread(ctx, sw, "dim", "permute_systems.permute_systems")
    r_thread(ctx, sw, "row_only", "permute_systems.permute_systems")
    r_thread(ctx, sw, "rho", "permute_systems.permute_systems", formal="input_mat")
    r_thread(ctx, sw, "sys", "permute_systems.permute_systems", formal="perm")
    r_effect_free(ctx, sw, ["rho", "sys", "dim"])
    # decrement exactly once; transposition
    decs = 0
    trans = None
    perm_names = set()
    for c, cal in calls_from(m, sw, "permute_systems.permute_systems"):
        a = m.bind(c, cal.func).get("perm")
        if isinstance(a, ast.Name):
            perm_names.add(a.id)
    for n in ast.walk(sw.node):
        if isinstance(n, ast.Assign) and len(n.targets) == 1:
            t = n.targets[0]
            if isinstance(t, ast.Name) and t.id == "sys":
                v = Normalizer(m, sw, inline=False)(n.value)
                if v[0] == "+" and ("c", -1) in v[1] and any(mentions_name(x, "sys") for x in v[1]):
                    decs += 1
                elif v[0] == "+" and mentions_name(v, "sys") and any(x[0] == "c" and x[1] not in (-1,) for x in v[1]):
                    decs += 100
            if isinstance(t, ast.Subscript) and isinstance(t.value, ast.Name) and t.value.id in perm_names:
                trans = n
    ctx.ob("R-BASE", sw, "sys-decremented-once", decs == 1,
           "1-based `sys` is converted to 0-based exactly once" if decs == 1 else
           f"1-based `sys` is not converted to 0-based exactly once (found {decs if decs < 100 else 'a different offset'})")
    if trans is not None:
        Nn2 = Normalizer(m, sw, inline=False)
        lhs = Nn2(trans.targets[0])
        rhs = Nn2(trans.value)
        ok = (lhs[0] == "sub" and rhs[0] == "sub" and lhs[1] == rhs[1] and
              rhs[2] == ("sub", lhs[2], ("slice", ("c", None), ("c", None), ("c", -1))))
        ctx.ob("R-SIB", sw, "perm[sys]=perm[reversed sys]", ok,
               "the two selected positions of the identity permutation are exchanged" if ok else
               f"`{unparse(trans)}` is not the exchange of the two selected entries", trans)
    else:
        ctx.ob("R-SIB", sw, "perm[sys]=perm[reversed sys]", None, "transposition statement not recognised", required=False)
    # scalar dim on a vector: the side of total size 1 has local dimensions (1, 1), not (dim, 1/dim) -- otherwise every 1-D /
    # column vector with a scalar dim is rejected as "dim does not divide" (F49)
    scal = [nd for nd in walk_no_nested(sw.node) if isinstance(nd, ast.If) and "isinstance(dim, int)" in unparse(nd.test)]
    if scal:
        okv = False
        # the expansion may sit in a module-local helper called from the scalar branch: look there as well (one level)
        scopes = [scal[0]]
        helpers_ = []
        for c_ in ast.walk(scal[0]):
            if isinstance(c_, ast.Call):
                g_ = getattr(m.resolve_call(sw, c_), "func", None)
                if g_ is not None and g_.module is sw.module and g_ is not sw:
                    helpers_.append(g_)
                    scopes.append(g_.node)
        for st in [x for sc_ in scopes for x in ast.walk(sc_)]:
            if isinstance(st, ast.Assign) and isinstance(st.targets[0], ast.Subscript) and isinstance(st.targets[0].value, ast.Name) and st.targets[0].value.id == "dim" \
                    and isinstance(st.value, ast.Constant) and st.value.value == 1:
                sel = st.targets[0].slice
                cmpn = [x for x in ast.walk(sel) if isinstance(x, ast.Compare) and len(x.ops) == 1 and isinstance(x.ops[0], ast.Eq)]
                if cmpn and "rho_dims" in unparse(cmpn[0]) and any(isinstance(x, ast.Constant) and x.value == 1 for x in ast.walk(cmpn[0])):
                    # must precede the divisibility raise
                    raises = [r for sc_ in scopes for r in ast.walk(sc_) if isinstance(r, ast.Raise) and any(r is y for y in ast.walk(sc_)) and any(st is y for y in ast.walk(sc_))]
                    okv = all(st.lineno < r.lineno for r in raises)
            if isinstance(st, ast.IfExp) and isinstance(st.test, ast.Compare) and isinstance(st.test.ops[0], ast.Eq) and \
                    any(isinstance(x, ast.Constant) and x.value == 1 for x in ast.walk(st.test)) and unparse(st.body).replace(" ", "") in ("[1,1]", "(1,1)"):
                okv = True
        if not okv and helpers_ and not any("dim" in unparse(x) and "/" in unparse(x) for x in ast.walk(scal[0]) if isinstance(x, ast.Assign)):
            okv = None  # the expansion is delegated and was not recognised in the helper
        ctx.ob("R-KIND", sw, "scalar dim: a side of total size 1 (vector input) gets local dimensions 1", okv,
               "rows of the expanded table whose total is 1 are set to 1 before the divisibility test" if okv else
               "the scalar expansion [dim, total/dim] is applied to a side of size 1 as well: for a 1-D or column vector total/dim = 1/dim is not an integer, "
               "so swap(v, sys, d) raises InvalidDim for every vector", scal[0])
    else:
        ctx.ob("R-KIND", sw, "scalar dim: a side of total size 1 (vector input) gets local dimensions 1", None, "no isinstance(dim, int) branch", required=False)
    for p in ("sys", "dim", "row_only"):
        r_live(ctx, sw, p)

    # ---- operators ----------------------------------------------------------------------------
    po = m.func("permutation_operator.permutation_operator")
    from ..rules import r_index_label_layout
    for f_ in (po, m.func("swap_operator.swap_operator"), m.func("swap.swap")):
        r_index_label_layout(ctx, f_)
    # every return of permutation_operator is the row-permuted identity obtained from permute_systems, or an index-label computation the
    # rule above decides; anything else is not decided
    rets_po = [n for n in walk_no_nested(po.node) if isinstance(n, ast.Return) and n.value is not None]
    other = [r for r in rets_po if "permute_systems" not in unparse(r.value) and not any(
        isinstance(d, ast.Assign) and isinstance(d.targets[0], ast.Name) and isinstance(r.value, ast.Name) and d.targets[0].id == r.value.id and "permute_systems" in unparse(d.value)
        for d in walk_no_nested(po.node))]
    lab_ok = all(any(o.function == po.short and o.construct.startswith("index-label permutation") and o.status == "discharged" for o in ctx.obs) for _ in other) if other else True
    ctx.ob("R-BIND", po, "every return is permute_systems(identity, ..) or a decided index-label permutation", True if not other else (True if lab_ok else None),
           "single delegation" if not other else f"{len(other)} return(s) outside the delegation", other[0] if other else None, required=not other or lab_ok)
    r_bind_literal(ctx, po, "permute_systems.permute_systems", "row_only", True)
    r_thread(ctx, po, "perm", "permute_systems.permute_systems")
    r_thread(ctx, po, "dim", "permute_systems.permute_systems")
    r_thread(ctx, po, "inv_perm", "permute_systems.permute_systems")
    _identity_operand(ctx, po, "permute_systems.permute_systems", "input_mat")
    so = m.func("swap_operator.swap_operator")
    r_bind_literal(ctx, so, "swap.swap", "row_only", True)
    r_bind_literal(ctx, so, "swap.swap", "sys", ("list", ("c", 1), ("c", 2)))
    r_thread(ctx, so, "dim", "swap.swap")
    _identity_operand(ctx, so, "swap.swap", "rho")
    for p in ("is_sparse",):
        r_live(ctx, po, p)
        r_live(ctx, so, p)


def _complement_const_ok(a_f):
    """(len(perm) - 1) - perm[::-1]: the additive part other than neg(perm...) must normalise to len(perm)-1."""
    if a_f[0] != "+":
        return None
    rest = [x for x in a_f[1] if not (x[0] == "neg" and mentions_name(x, "perm"))]
    # accepted: len(perm) + (-1)
    want = {repr(("call", "builtins.len", (("n", "perm"),), ())), repr(("c", -1))}
    got = {repr(x) for x in rest}
    if got == want:
        return True
    if all(x[0] in ("c", "call") for x in rest):
        return False
    return None


def _sub1(t, name, val):
    if t == ("n", name):
        return val
    if isinstance(t, tuple):
        return tuple(_sub1(x, name, val) if isinstance(x, tuple) else x for x in t)
    return t


def _renorm_add(N, t):
    if isinstance(t, tuple) and t and t[0] == "+":
        return N._add([_renorm_add(N, x) for x in t[1]])
    return t


def _parent_call(root, node):
    for n in ast.walk(root):
        if isinstance(n, ast.Call):
            for a in list(n.args) + [k.value for k in n.keywords]:
                if a is node:
                    return n
        if isinstance(n, ast.Attribute) and n.value is node:
            # x.T etc: climb
            p = _parent_call(root, n)
            if p is not None:
                return p
    return None


def _first_index(d):
    """dim[0][:] / dim[0] / dim[0, :] -> 0"""
    n = d
    while isinstance(n, ast.Subscript):
        inner = n.value
        if isinstance(inner, ast.Name):
            sl = n.slice
            if isinstance(sl, ast.Constant) and isinstance(sl.value, int):
                return sl.value
            if isinstance(sl, ast.Tuple) and sl.elts and isinstance(sl.elts[0], ast.Constant):
                return sl.elts[0].value
            return None
        n = inner
    return None


def _assigned_name(root, call):
    for n in ast.walk(root):
        if isinstance(n, ast.Assign) and n.value is call and isinstance(n.targets[0], ast.Name):
            return n.targets[0].id
    return None


def _gather_nodes(root):
    """(index name, axis, node) for fancy-index gathers X[name, :] / X[:, name]."""
    out = []
    for n in ast.walk(root):
        if isinstance(n, ast.Subscript) and isinstance(n.slice, ast.Tuple) and len(n.slice.elts) == 2 and isinstance(n.ctx, ast.Load):
            a, b = n.slice.elts
            if isinstance(a, ast.Name) and isinstance(b, ast.Slice):
                out.append((a.id, 0, n))
            elif isinstance(b, ast.Name) and isinstance(a, ast.Slice):
                out.append((b.id, 1, n))
    return out


def _gathers(root):
    out = {}
    for name, axis, _ in _gather_nodes(root):
        out.setdefault(name, []).append(axis)
    return out


def _identity_operand(ctx, f, callee, formal):
    m = ctx.model
    N = Normalizer(m, f)
    for c, cal in calls_from(m, f, callee):
        b = m.bind(c, cal.func)
        a = b.get(formal)
        if not isinstance(a, ast.AST):
            continue
        t = N(a)
        ids = [s for s in subterms(t) if isinstance(s, tuple) and s and s[0] == "call" and s[1] in
               ("numpy.identity", "numpy.eye", "scipy.sparse.identity", "scipy.sparse.eye")]
        ok = bool(ids) and all(mentions_name(s, "dim") for s in ids)
        ctx.ob("R-BIND", f, f"{callee.split('.')[-1]}.{formal}==identity(prod(dim))", ok if ids else None,
               "the operator is a row-permuted identity of size prod(dim)" if ok else
               "the permuted operand is not an identity of size prod(dim)", c, required=bool(ids))
