"""C03 -- partial transpose and realignment exchange exactly the stated indices (structural clauses)."""

from __future__ import annotations

import ast

from ..dataflow import origins
from ..effects import effects_on_params
from ..layout import reshape_sites
from ..model import calls_in, unparse, walk_no_nested
from ..norm import Normalizer, mentions_name, show, subterms
from ..rules import calls_from, r_bind_literal, r_effect_free, r_live, r_thread, value_at
from ..symshape import same_monomial, strip_casts


def run(ctx):
    m = ctx.model
    ctx.rule("R-PAIR", "permute -> operate -> un-permute: the closing call uses the same perm with the inverse flag and dims derived from the forward dims")
    ctx.rule("R-SHAPE", "the 4-axis transpose exchanges exactly the two axes of the selected subsystems; the final shape regroups the transposed axes")
    ctx.rule("R-LAYOUT", "one memory order for both reshapes, consistent with selected-first permutation")
    ctx.rule("R-THREAD", "cvxpy branch recurses with the caller's (sys, dim)")
    ctx.rule("R-BIND", "realignment = row-swap, partial transpose of the first factor with crossed dims, row-swap")
    ctx.rule("R-EFFECT", "no store into the caller's matrix")
    pt = m.func("partial_transpose.partial_transpose")
    N = Normalizer(m, pt)
    Nn = Normalizer(m, pt, inline=False)
    og = origins(pt)

    calls = calls_from(m, pt, "permute_systems.permute_systems")
    if len(calls) < 2:
        ctx.ob("R-PAIR", pt, "forward/closing permute pair", False if calls else None,
               f"expected a forward and a closing permute_systems call, found {len(calls)}", required=bool(calls))
    else:
        calls.sort(key=lambda cc: cc[0].lineno)
        (fc, fcal), (cc, ccal) = calls[0], calls[-1]
        fb, cb = m.bind(fc, fcal.func), m.bind(cc, ccal.func)
        # same perm
        pf, pc = fb.get("perm"), cb.get("perm")
        same = isinstance(pf, ast.AST) and isinstance(pc, ast.AST) and Nn(pf) == Nn(pc)
        # equivalent closing form: the inverse permutation spelled out, argsort(perm), with the inverse flag clear
        alt = False
        if not same and isinstance(pf, ast.AST) and isinstance(pc, ast.AST):
            tpc = Normalizer(m, pt, inline=True)(pc)
            while tpc[0] == "call" and ((isinstance(tpc[1], tuple) and tpc[1][0] == "attr" and tpc[1][2] == "tolist") or tpc[1] in ("builtins.list", "numpy.array", "numpy.asarray")):
                tpc = tpc[1][1] if isinstance(tpc[1], tuple) else tpc[2][0]
            tpf = Normalizer(m, pt, inline=True)(pf)
            if tpc[0] == "call" and tpc[1] == "numpy.argsort" and tpc[2]:
                a0 = tpc[2][0]
                while a0[0] == "call" and a0[1] in ("numpy.array", "numpy.asarray", "builtins.list") and a0[2]:
                    a0 = a0[2][0]
                alt = a0 == tpf or a0 == Nn(pf)
            same = alt
        stores_between = []
        if same and isinstance(pf, ast.Name):
            for n in ast.walk(pt.node):
                if isinstance(n, (ast.Assign, ast.AugAssign)) and fc.lineno < n.lineno < cc.lineno:
                    tg = n.targets if isinstance(n, ast.Assign) else [n.target]
                    for t in tg:
                        b = t
                        while isinstance(b, (ast.Subscript, ast.Attribute)):
                            b = b.value
                        if isinstance(b, ast.Name) and b.id == pf.id:
                            stores_between.append(n)
                if isinstance(n, ast.Call) and isinstance(n.func, ast.Attribute) and isinstance(n.func.value, ast.Name) and \
                        n.func.value.id == pf.id and n.func.attr in ("extend", "append", "reverse", "sort", "insert", "pop") and \
                        fc.lineno < n.lineno < cc.lineno:
                    stores_between.append(n)
        ctx.ob("R-PAIR", pt, "closing perm == forward perm", bool(same and not stores_between),
               "the closing call un-permutes with the permutation used to permute" if same and not stores_between else
               "the closing call uses a different (or modified) permutation than the forward call", cc)
        inv = cb.get("inv_perm")
        t = N(inv) if isinstance(inv, ast.AST) else ("c", False)
        okinv = (t == ("c", False)) if alt else (t == ("c", True))
        ctx.ob("R-PAIR", pt, "closing call inv_perm==True", okinv,
               ("inverse permutation argsort(perm) passed, flag clear" if alt else "inverse flag set") if okinv else
               f"closing call has inv_perm={show(t)}" + (" on top of argsort(perm): the permutation is applied forwards again" if alt else ": subsystems are not returned to their places"), cc)
        finv = fb.get("inv_perm")
        t2 = N(finv) if isinstance(finv, ast.AST) else ("c", False)
        ctx.ob("R-PAIR", pt, "forward call inv_perm==False", t2 == ("c", False), "forward flag clear" if t2 == ("c", False) else f"forward call has inv_perm={show(t2)}", fc)
        ro = cb.get("row_only")
        t3 = N(ro) if isinstance(ro, ast.AST) else ("c", False)
        ctx.ob("R-PAIR", pt, "closing call row_only==False", t3 == ("c", False), "rows and columns are both returned" if t3 == ("c", False) else f"row_only={show(t3)}", cc)
        # closing dims: dim[:, perm] of the row/column-flipped (on sys) forward dims
        flip = None
        permd = None
        for n in ast.walk(pt.node):
            if isinstance(n, ast.Assign) and fc.lineno < n.lineno < cc.lineno:
                t0 = n.targets[0]
                if isinstance(t0, ast.Subscript) and isinstance(t0.value, ast.Name) and t0.value.id == "dim":
                    flip = n
                elif isinstance(t0, ast.Name) and t0.id == "dim" and not (isinstance(n.value, ast.Call) and not isinstance(n.value.func, ast.Attribute) and False):
                    # (a plain copy `dim = np.array(dim)` / `dim.copy()` is neither the flip nor the re-ordering)
                    is_copy = isinstance(n.value, ast.Call) and unparse(n.value).replace(" ", "") in ("np.array(dim)", "dim.copy()", "np.copy(dim)", "np.array(dim,copy=True)")
                    if not is_copy:
                        permd = n
        if flip is not None:
            from .. import flow as flw
            hitf = flw.find_stmt_of(pt.node, flip)
            fconds = [(t_, pol) for t_, pol in flw.conds(hitf[1])] if hitf else []
            hitc = flw.find_stmt_of(pt.node, cc)
            cconds = {(unparse(t_), pol) for t_, pol in flw.conds(hitc[1])} if hitc else set()
            extra = [(t_, pol) for t_, pol in fconds if (unparse(t_), pol) not in cconds]
            ctx.ob("R-PAIR", pt, "the row/column exchange of the dims runs on every path to the closing call", not extra,
                   "unconditional" if not extra else
                   f"the exchange only happens when `{unparse(extra[0][0])[:60]}` is {extra[0][1]}: on the other paths the closing permutation is given the un-exchanged dims "
                   "(wrong whenever the selected subsystems have individually different row and column dimensions, e.g. dims [[2,3],[3,2]])", flip)
            lhs, rhs = Nn(flip.targets[0]), Nn(flip.value)
            okf = rhs[0] == "call" and rhs[1] in ("numpy.flipud",) and rhs[2] and rhs[2][0] == lhs and \
                lhs[2] == ("tuple", ("slice", ("c", None), ("c", None), ("c", None)), ("n", "sys"))
            okf = okf or (rhs[0] == "sub" and lhs[0] == "sub" and rhs[1] == lhs[1] and "slice" in repr(rhs[2]) and "-1" in repr(rhs[2])
                          and mentions_name(lhs, "sys") and mentions_name(rhs, "sys"))
            ctx.ob("R-PAIR", pt, "row/column dims exchanged on sys only", bool(okf),
                   "dims of the transposed subsystems swap their row and column extents" if okf else
                   f"`{unparse(flip)}` is not the row/column exchange restricted to `sys`", flip)
        else:
            ctx.ob("R-PAIR", pt, "row/column dims exchanged on sys only", False,
                   "the dims handed to the closing permutation are not updated for the transposed subsystems (rectangular operators break)", cc)
        if permd is not None:
            r = Nn(permd.value)
            okp = r[0] == "sub" and r[1] == ("n", "dim") and mentions_name(r[2], "perm") and r[2][0] == "tuple" and r[2][1][0] == "slice"
            ctx.ob("R-PAIR", pt, "closing dims == dims[:, perm]", bool(okp),
                   "closing dims are the forward dims in permuted order" if okp else f"`{unparse(permd)}` is not dims[:, perm]", permd)
        else:
            ctx.ob("R-PAIR", pt, "closing dims == dims[:, perm]", False, "closing dims are not re-ordered by perm", cc)
        # selected subsystems first
        if isinstance(pf, ast.Name):
            ext = [n for n in ast.walk(pt.node) if isinstance(n, ast.Call) and isinstance(n.func, ast.Attribute) and
                   isinstance(n.func.value, ast.Name) and n.func.value.id == pf.id and n.func.attr == "extend" and n.lineno < fc.lineno]
            init = None
            for n in ast.walk(pt.node):
                if isinstance(n, ast.Assign) and isinstance(n.targets[0], ast.Name) and n.targets[0].id == pf.id and n.lineno < fc.lineno:
                    init = n
            if init is not None and ext:
                it = Nn(init.value)
                ok = mentions_name(it, "sys") and not mentions_name(it, "set_diff") and not mentions_name(Nn(ext[0].args[0]), "sys")
                ctx.ob("R-LAYOUT", pt, "perm = selected ++ rest", ok,
                       "the selected subsystems are moved to the front" if ok else "perm does not start with the selected subsystems", init)
            else:
                ctx.ob("R-LAYOUT", pt, "perm = selected ++ rest", None, "construction of perm not recognised", required=False)
        r_thread(ctx, pt, "rho", "permute_systems.permute_systems", formal="input_mat", min_sites=2)

    # reshape chain
    rs = [r for r in reshape_sites(m, pt) if r["kind"] == "reshape" and r["shape"]]
    four = [r for r in rs if isinstance(r["shape"][0], (ast.List, ast.Tuple)) and len(r["shape"][0].elts) == 4]
    two = [r for r in rs if isinstance(r["shape"][0], (ast.List, ast.Tuple)) and len(r["shape"][0].elts) == 2]
    tr = [c for c in calls_in(pt.node) if m.resolve_call(pt, c).key == "numpy.transpose" and len(c.args) == 2]
    tr += [c for c in calls_in(pt.node) if isinstance(c.func, ast.Attribute) and c.func.attr == "transpose" and len(c.args) >= 1
           and m.resolve_call(pt, c).kind != "lib"]
    if not four or not two or not tr:
        ctx.ob("R-SHAPE", pt, "reshape-chain", None, "4-axis reshape / transpose / 2-axis reshape chain not found", required=False)
    else:
        r4, r2, t = four[0], two[0], tr[0]
        s4 = [N(e) for e in r4["shape"][0].elts]
        s2 = [N(e) for e in r2["shape"][0].elts]
        axn = t.args[1] if m.resolve_call(pt, t).key == "numpy.transpose" else t.args[0]
        axes = [e.value for e in axn.elts] if isinstance(axn, (ast.List, ast.Tuple)) and all(isinstance(e, ast.Constant) for e in axn.elts) else None
        ctx.ob("R-LAYOUT", pt, "both reshapes same order", r4["order"] == r2["order"],
               f"order='{r4['order']}' for both" if r4["order"] == r2["order"] else f"orders {r4['order']} / {r2['order']} differ", r2["node"])
        if axes is None or sorted(axes) != [0, 1, 2, 3]:
            ctx.ob("R-SHAPE", pt, "transpose axes literal", None, "literal axes not found", required=False)
        else:
            # which axes belong to the selected subsystems: extents deriving from dim[., sys]
            sel = [i for i, s in enumerate(s4) if _is_selected_extent(s, pt, og)]
            if len(sel) != 2:
                ctx.ob("R-SHAPE", pt, "selected axes identified", None, f"selected-subsystem axes not identified ({sel})", required=False)
            else:
                a, b = sel
                want = list(range(4))
                want[a], want[b] = want[b], want[a]
                ctx.ob("R-SHAPE", pt, "transpose exchanges exactly the selected row/column axes", axes == want,
                       f"axes {axes} exchange axis {a} (rows of S) with axis {b} (columns of S) and nothing else" if axes == want else
                       f"axes {axes} are not the exchange of the selected-subsystem axes {a} and {b} (expected {want})", t)
                # with selected-first permutation: F order puts the selected factor on the slow axes (1, 3); C order on (0, 2)
                okl = (sel == [1, 3]) if r4["order"] == "F" else (sel == [0, 2])
                ctx.ob("R-LAYOUT", pt, "selected factor axes match memory order", okl,
                       f"selected-first permutation with order='{r4['order']}' puts S on axes {sel}" if okl else
                       f"with selected-first permutation and order='{r4['order']}' the selected factor is not on axes {sel}", r4["node"])
            ts = [s4[i] for i in axes]
            ok = same_monomial(s2[0], ("*", (ts[0], ts[1]))) and same_monomial(s2[1], ("*", (ts[2], ts[3])))
            ctx.ob("R-SHAPE", pt, "2-axis shape == transposed factorisation", bool(ok),
                   "rows/columns regroup the transposed axes" if ok else
                   f"final shape [{show(s2[0])}, {show(s2[1])}] is not the regrouping of axes {axes}", r2["node"])

    rec = calls_from(m, pt, "partial_transpose.partial_transpose")
    if rec:
        r_thread(ctx, pt, "sys", "partial_transpose.partial_transpose")
        r_thread(ctx, pt, "dim", "partial_transpose.partial_transpose")
        ctx.ob("R-THREAD", pt, "result re-packed by np_array_as_expr", bool(calls_from(m, pt, "np_array_as_expr")),
               "transposed array is re-packed" if calls_from(m, pt, "np_array_as_expr") else "np_array_as_expr no longer applied")
    for n in ast.walk(pt.node):
        if isinstance(n, ast.Assign) and isinstance(n.targets[0], ast.Name) and n.targets[0].id == "sys":
            t = Nn(n.value)
            if t[0] == "list" and all(x[0] == "c" for x in t[1:]):
                ctx.ob("R-BASE", pt, "default sys == [1]", t == ("list", ("c", 1)),
                       "omitted sys transposes the second subsystem" if t == ("list", ("c", 1)) else f"default sys {show(t)}", n)
    for p in ("sys", "dim"):
        r_live(ctx, pt, p)
    # `dim` included: the swapped row/column dimensions written into the caller's ndarray made a second identical call
    # raise InvalidDim (or, for dimension tables with equal totals, silently use other dimensions) -- F47
    r_effect_free(ctx, pt, ["rho", "sys", "dim"])
    from ..rules import r_index_array_dtype
    r_index_array_dtype(ctx, pt, "sys")

    convs = [c_ for c_, cal_ in calls_from(m, pt, "expr_as_np_array.expr_as_np_array")]
    if convs:
        extra = [c_ for c_ in convs if len(c_.args) + len(c_.keywords) != 1]
        ctx.ob("R-THREAD", pt, "the Variable is converted entry by entry with no structural assumption", not extra,
               "expr_as_np_array(variable)" if not extra else
               f"`{unparse(extra[0])[:60]}` promises a Hermitian / symmetric variable to the converter: a general Variable is unpacked with mirrored entries", extra[0] if extra else None)
    # ---- the Variable path goes through the same two conversion helpers as partial_trace's --------------
    from .C02 import _helpers
    _helpers(ctx)

    # ---- realignment ---------------------------------------------------------------------------
    ra = m.func("realignment.realignment")
    Nr = Normalizer(m, ra)
    sw = calls_from(m, ra, "swap.swap")
    ptc = calls_from(m, ra, "partial_transpose.partial_transpose")
    ctx.ob("R-BIND", ra, "two row-swaps around one partial transpose", len(sw) == 2 and len(ptc) == 1,
           "swap, partial_transpose, swap" if len(sw) == 2 and len(ptc) == 1 else f"{len(sw)} swaps / {len(ptc)} partial transposes")
    if len(sw) == 2 and len(ptc) == 1:
        r_bind_literal(ctx, ra, "swap.swap", "row_only", True, min_sites=2)
        r_bind_literal(ctx, ra, "swap.swap", "sys", ("list", ("c", 1), ("c", 2)), min_sites=2)
        r_bind_literal(ctx, ra, "partial_transpose.partial_transpose", "sys", ("list", ("c", 0)))
        sw.sort(key=lambda cc: cc[0].lineno)
        b1 = m.bind(sw[0][0], sw[0][1].func)
        b2 = m.bind(sw[1][0], sw[1][1].func)
        bp = m.bind(ptc[0][0], ptc[0][1].func)
        ogr = origins(ra)
        chain_ok = ogr.derives_from(bp["rho"], "input_mat") and any(x is sw[0][0] for x in _defs_reaching(ra, bp["rho"])) and \
            any(x is ptc[0][0] for x in _defs_reaching(ra, b2["rho"]))
        ctx.ob("R-BIND", ra, "swap -> partial_transpose -> swap data chain", bool(chain_ok),
               "each stage consumes the previous stage's output" if chain_ok else "the three stages are not chained", ptc[0][0])
        D = lambda i, j: ("sub", ("sub", ("n", "dim"), ("c", i)), ("c", j))  # noqa: E731
        want_x = ("call", "numpy.array", (("list", ("list", D(0, 1), D(0, 0)), ("list", D(1, 0), D(1, 1))),), ())
        want_y = ("call", "numpy.array", (("list", ("list", D(1, 0), D(0, 0)), ("list", D(0, 1), D(1, 1))),), ())
        tx = _resolve(m, ra, Nr, bp["dim"], ptc[0][0])
        ty = _resolve(m, ra, Nr, b2["dim"], sw[1][0])
        t1 = Nr(b1["dim"])
        ctx.ob("R-BIND", ra, "first swap uses the operator's own dims", t1 == ("n", "dim"),
               "first swap gets `dim`" if t1 == ("n", "dim") else f"first swap gets {show(t1)}", sw[0][0])
        if _is_index_table(tx):
            ctx.ob("R-BIND", ra, "partial-transpose dims are the row-swapped dims [[d01,d00],[d10,d11]]", tx == want_x,
                   "crossed dims match the row-swapped operator" if tx == want_x else f"dims {show(tx)} do not describe the row-swapped operator", ptc[0][0])
        else:
            ctx.ob("R-BIND", ra, "partial-transpose dims are the row-swapped dims [[d01,d00],[d10,d11]]", None, "dims not an index table", required=False)
        if _is_index_table(ty):
            ctx.ob("R-BIND", ra, "closing swap dims [[d10,d00],[d01,d11]]", ty == want_y,
                   "closing dims match the partially transposed operator" if ty == want_y else f"dims {show(ty)} do not describe the partially transposed operator", sw[1][0])
        else:
            ctx.ob("R-BIND", ra, "closing swap dims [[d10,d00],[d01,d11]]", None, "dims not an index table", required=False)
    # every return is the closing swap of the chain -- or a direct regrouping of the four tensor indices that can be verified
    _realign_returns(ctx, ra, sw, ptc)
    # default dims: row dimensions (first row) are both sqrt(#rows), column dimensions (second row) both sqrt(#cols)
    Nn = Normalizer(m, ra, inline=False)
    dflt = None
    for nd_ in walk_no_nested(ra.node):
        if isinstance(nd_, ast.If) and unparse(nd_.test).replace(" ", "") in ("dimisNone", "Noneisdim"):
            for st in nd_.body:
                if isinstance(st, ast.Assign) and isinstance(st.targets[0], ast.Name) and st.targets[0].id == "dim":
                    dflt = st
    if dflt is not None:
        t = Nn(dflt.value)
        rd = None
        for nd_ in walk_no_nested(ra.node):
            if isinstance(nd_, ast.Assign) and isinstance(nd_.targets[0], ast.Name) and nd_.lineno < dflt.lineno:
                v = Nn(nd_.value)
                if v[0] == "call" and v[1] in ("numpy.round", "numpy.around", "numpy.rint") and "numpy.sqrt" in repr(v):
                    rd = nd_.targets[0].id
        okd, whyd = None, "default dims not a literal 2 x 2 table over the rounded square roots"
        if rd is not None and t[0] == "call" and t[1] == "numpy.array" and t[2] and t[2][0][0] == "list" and len(t[2][0]) == 3 and \
                all(r[0] == "list" and len(r) == 3 for r in t[2][0][1:]):
            R0, R1 = ("sub", ("n", rd), ("c", 0)), ("sub", ("n", rd), ("c", 1))
            rows = [tuple(_strip_int(x) for x in r[1:]) for r in t[2][0][1:]]
            okd = rows == [(R0, R0), (R1, R1)]
            whyd = "[[sqrt(rows), sqrt(rows)], [sqrt(cols), sqrt(cols)]]" if okd else \
                f"default table {show(t)[:80]}: the first row must hold the two row dimensions (both sqrt(#rows)) and the second the two column dimensions"
        elif rd is not None and ("T" in repr(t) or "transpose" in repr(t)) and show(t).count(rd) == 1:
            okd = False
            whyd = (f"`{unparse(dflt)[:60]}` is the column [[sqrt(rows)], [sqrt(cols)]], which the vector branch reads as the local dimensions (r, c) of *both* rows and "
                    "columns: a rectangular operator (4 x 9) gets dims [[2, 3], [2, 3]] instead of [[2, 2], [3, 3]] and is rejected")
        ctx.ob("R-KIND", ra, "omitted dim: rows split as (sqrt r, sqrt r), columns as (sqrt c, sqrt c)", okd, whyd, dflt, required=okd is not None)
    r_live(ctx, ra, "dim")
    r_effect_free(ctx, ra, ["input_mat", "dim"])


def _resolve(m, f, Nr, node, at):
    t = _strip_int(Nr(node))
    for _ in range(3):
        if t[0] == "n":
            v = value_at(m, f, t[1], at, Normalizer(m, f, inline=False))
            if v is None:
                break
            t = _strip_int(_inline_names(v, Nr))
        else:
            break
    return t


def _inline_names(t, Nr):
    return t


def _strip_int(t):
    while t[0] == "call" and t[1] in ("numpy.int_", "numpy.int64", "builtins.int") and t[2]:
        t = t[2][0]
    if t[0] == "call" and isinstance(t[1], tuple) and t[1][0] == "attr" and t[1][2] == "astype":
        t = t[1][1]
    return t


def _is_index_table(t):
    return t[0] == "call" and t[1] == "numpy.array" and t[2] and t[2][0][0] == "list" and len(t[2][0]) == 3


def _defs_reaching(f, node):
    """Call nodes whose result is assigned to the name `node` (flow-insensitive)."""
    out = []
    if isinstance(node, ast.Name):
        for n in ast.walk(f.node):
            if isinstance(n, ast.Assign) and isinstance(n.targets[0], ast.Name) and n.targets[0].id == node.id:
                out.append(n.value)
    else:
        out.append(node)
    return out


def _is_selected_extent(s, pt, og):
    """Does this axis extent equal the product of the selected subsystems' dims (prod(dim[., sys]))?"""
    s = strip_casts(s)
    if s[0] == "call" and s[1] == "numpy.prod" and s[2]:
        a = s[2][0]
        return a[0] == "sub" and mentions_name(a[2], "sys")
    return False


def _call_parts(t):
    """normalised call -> (name, receiver-or-None, positional args, kwargs dict) for method and function spellings"""
    if t[0] != "call":
        return None
    if isinstance(t[1], tuple) and t[1][0] == "attr":
        return t[1][2], t[1][1], list(t[2]), dict(t[3])
    if isinstance(t[1], str) and t[1].startswith("numpy.") and t[2]:
        return t[1].split(".", 1)[1], t[2][0], list(t[2][1:]), dict(t[3])
    return None


def _extents(args):
    if len(args) == 1 and args[0][0] in ("tuple", "list"):
        return list(args[0][1:])
    return list(args)


def _realign_returns(ctx, ra, sw, ptc):
    """A return that does not come out of the swap / partial_transpose / swap chain is accepted only as
    reshape(transpose(reshape(X, (a, b, c, d)), (0, 2, 1, 3)), (a*c, b*d)): rows (a, b), columns (c, d) -> rows (a, c), columns (b, d)."""
    m = ctx.model
    Ni = Normalizer(m, ra, inline=True)
    closing = {id(c) for c, _ in sw}
    key = "every return is the closing swap of the chain (or a verified direct regrouping)"
    verdict, why, where = True, "the only return is the closing swap", None
    for rn in [n for n in walk_no_nested(ra.node) if isinstance(n, ast.Return) and n.value is not None]:
        if id(rn.value) in closing:
            continue
        if isinstance(rn.value, ast.Name):
            dfs = [n.value for n in walk_no_nested(ra.node) if isinstance(n, ast.Assign) and len(n.targets) == 1 and isinstance(n.targets[0], ast.Name) and n.targets[0].id == rn.value.id]
            if dfs and all(id(d) in closing for d in dfs):
                continue
        t = Ni(rn.value)
        res = _regroup_verdict(t)
        where = rn
        if res[0] is False:
            verdict, why = False, res[1]
            break
        if res[0] is None and verdict is True:
            verdict, why = None, f"`{unparse(rn)[:70]}` bypasses the swap / partial_transpose / swap chain with a form that is not decided here ({res[1]})"
        elif res[0] is True and verdict is True:
            why = "closing swap, and a direct regrouping with verified extents"
    ctx.ob("R-LAYOUT", ra, key, verdict, why, where)


def _regroup_verdict(t):
    p3 = _call_parts(t)
    if not p3 or p3[0] != "reshape":
        return None, "not a reshape"
    s2 = _extents(p3[2])
    p2 = _call_parts(p3[1])
    if not p2 or p2[0] != "transpose":
        return None, "no transpose under the final reshape"
    perm = _extents(p2[2])
    p1 = _call_parts(p2[1])
    if not p1 or p1[0] != "reshape" or p1[1] != ("n", "input_mat"):
        return None, "innermost step is not a reshape of the input"
    if any(k in d for d in (p1[3], p3[3]) for k in ("order",)):
        return None, "explicit order"
    s1 = _extents(p1[2])
    if len(s1) != 4 or len(perm) != 4 or not all(x[0] == "c" for x in perm):
        return None, "not a four-index regrouping"
    perm = [x[1] for x in perm]
    rows_in, cols_in = ("*", (s1[0], s1[1])), ("*", (s1[2], s1[3]))
    # final extents; the input's own shape stands for (rows_in, cols_in)
    if len(s2) == 1 and s2[0] == ("attr", ("n", "input_mat"), "shape"):
        s2 = [rows_in, cols_in]
    s2 = [rows_in if x == ("sub", ("attr", ("n", "input_mat"), "shape"), ("c", 0)) else cols_in if x == ("sub", ("attr", ("n", "input_mat"), "shape"), ("c", 1)) else x for x in s2]
    if len(s2) != 2:
        return None, "final shape is not a matrix"
    ax = [s1[i] for i in perm]
    split = None
    undec = False
    for k in (1, 2, 3):
        a = ("*", tuple(ax[:k])) if k > 1 else ax[0]
        b = ("*", tuple(ax[k:])) if 4 - k > 1 else ax[3]
        ra_ = True if s2[0] == ("c", -1) else same_monomial(a, s2[0])
        rb_ = True if s2[1] == ("c", -1) else same_monomial(b, s2[1])
        if ra_ is None or rb_ is None:
            undec = True
        elif ra_ and rb_:
            split = k
    if split is None:
        if undec:
            return None, "extents not comparable"
        return False, (f"the regrouped array with axes {[show(x) for x in ax]} is reshaped to ({show(s2[0])}, {show(s2[1])}), which is not a product of consecutive axes: "
                       f"the realignment of a ({show(rows_in)} x {show(cols_in)}) operator has shape ({show(s1[0])}*{show(s1[2])}, {show(s1[1])}*{show(s1[3])}); with unequal local "
                       "dimensions the entries are folded across block boundaries (the result is not vec(A) vec(B)^T)")
    if perm != [0, 2, 1, 3] or split != 2:
        return False, f"axes {perm} split after {split}: rows must be (row_A, col_A) and columns (row_B, col_B), i.e. transpose (0, 2, 1, 3) split in the middle"
    return True, "verified"
