"""C07 -- nonlocal game: classical value is exact, values are ordered, the object is not modified (structural clauses)."""

from __future__ import annotations

import ast

from ..dataflow import origins
from ..model import DEFAULT, MISSING, calls_in, unparse, walk_no_nested
from ..norm import Normalizer, mentions_name, show, subterms
from ..rules import calls_from, r_effect_free, r_thread, return_terms, value_at
from ..sdp import Skeleton, psd_ok, range_role, shape_roles, sum_constraints
from ..symshape import same_monomial


def decoder_of(model, f):
    """A mixed-radix decoder inside f:  `number, r = divmod(number, base)` in a loop of `digits` steps.
    Returns dict(counter=<param>, base=<param>, digits=<param>, index=<array name>) in terms of f's parameters."""
    N = Normalizer(model, f)
    og = origins(f)
    for lp in walk_no_nested(f.node):
        if not isinstance(lp, ast.For):
            continue
        for st in lp.body:
            if isinstance(st, ast.Assign) and isinstance(st.value, ast.Call) and isinstance(st.value.func, ast.Name) and \
                    st.value.func.id == "divmod" and len(st.value.args) == 2 and isinstance(st.targets[0], ast.Tuple):
                q, r = st.targets[0].elts
                num, base = st.value.args
                if not (isinstance(q, ast.Name) and isinstance(num, ast.Name) and q.id == num.id):
                    continue
                base_t = N(base)
                it = N(lp.iter)
                digits_t = None
                # range(digits - 1, -1, -1)  or range(digits)
                if it[0] == "call" and it[1] == "builtins.range":
                    a = it[2]
                    if len(a) == 1:
                        digits_t = a[0]
                    elif len(a) == 3 and a[1] == ("c", -1) and a[2] == ("c", -1) and a[0][0] == "+" and ("c", -1) in a[0][1]:
                        rest = [x for x in a[0][1] if x != ("c", -1)]
                        digits_t = rest[0] if len(rest) == 1 else None
                counter = None
                v = value_at(model, f, num.id, lp, Normalizer(model, f, inline=False))
                if v is not None and v[0] == "n":
                    counter = v[1]
                # which array receives the digits
                idx = None
                for s2 in lp.body:
                    if isinstance(s2, ast.Assign) and isinstance(s2.targets[0], ast.Subscript) and isinstance(s2.targets[0].value, ast.Name) \
                            and isinstance(s2.value, ast.Name) and isinstance(r, ast.Name) and s2.value.id == r.id:
                        idx = s2.targets[0].value.id
                        slot = N(s2.targets[0].slice)
                        loopvar = lp.target.id if isinstance(lp.target, ast.Name) else None
                        slot_ok = slot == ("n", loopvar)
                    else:
                        continue
                return {"counter": counter, "base": base_t, "digits": digits_t, "index": idx, "node": st, "loop": lp,
                        "slot_ok": idx is not None and slot_ok}
    return None


def _chase(m, f, t, at, N):
    for _ in range(5):
        if t is not None and t[0] == "n":
            v = value_at(m, f, t[1], at, N)
            if v is None or v == t:
                break
            t = v
        else:
            break
    return t


def run(ctx):  # noqa: C901
    m = ctx.model
    ctx.rule("R-DEF", "from_bcs_game: the referee draws a constraint uniformly, then a variable of it uniformly")
    ctx.rule("R-EFFECT", "no method of NonlocalGame other than __init__ writes self.* or through an alias of it; helpers do not write their array argument")
    ctx.rule("R-ENUM", "(a) the strategy counter ranges over base**digits of its decoder; (b) the enumerated player's answer depends on the question and the other player best-responds per question; product-game odometers run n**reps steps")
    ctx.rule("R-SDP", "see-saw, non-signalling and NPA programs: every constraint reaches the problem, POVM families are PSD and complete for every question, marginal consistency families present, objective sense")
    ctx.rule("R-BIND", "random_povm receives (dim, inputs, outputs) in that order; process_iteration receives extents matching the array layout")
    cls = [c for c in m.classes.values() if c.name == "NonlocalGame"][0]
    cv = cls.methods["classical_value"]
    pi = cls.methods["process_iteration"]

    # ---- purity of every method ---------------------------------------------------------------
    for name, meth in sorted(cls.methods.items()):
        if name == "__init__":
            continue
        params = [p.name for p in meth.params if p.name not in ("self", "cls") and p.annotation is not None and "ndarray" in unparse(p.annotation)]
        r_effect_free(ctx, meth, params, self_is_owner=True)
        if not params:
            from ..effects import effects_on_params
            es = [e for e in effects_on_params(m, meth, [], self_is_owner=True) if e.target.startswith("self:")]
            ctx.ob("R-EFFECT", meth, "no-write:self", not es, "game object unchanged" if not es else f"`{es[0].text}` modifies the game object", es[0].node if es else None)

    # ---- classical value -------------------------------------------------------------------------
    dec = decoder_of(m, pi)
    if dec is None or dec["counter"] is None or dec["digits"] is None:
        ctx.ob("R-ENUM", pi, "mixed-radix decoder found", None, "divmod decoder not recognised", required=False)
    else:
        ctx.ob("R-ENUM", pi, "decoder writes digit j to slot j", bool(dec["slot_ok"]), "b_ind[j] = remainder" if dec["slot_ok"] else "digits are stored in the wrong slots", dec["node"])
        Ncv = Normalizer(m, cv, inline=False)
        # call sites (direct and via starmap tuples)
        sites = []
        for c, cal in calls_from(m, cv, "NonlocalGame.process_iteration"):
            sites.append(("direct", c, list(c.args)))
        for n in walk_no_nested(cv.node):
            if isinstance(n, ast.Call) and isinstance(n.func, ast.Attribute) and n.func.attr in ("starmap", "map") and len(n.args) == 2:
                fn = m.resolve_expr(cv, n.args[0])
                if fn and fn[0] == "func" and fn[1] is pi and isinstance(n.args[1], ast.ListComp) and isinstance(n.args[1].elt, ast.Tuple):
                    sites.append(("starmap", n.args[1], list(n.args[1].elt.elts)))
        pnames = [p.name for p in pi.params]
        if not sites:
            ctx.ob("R-ENUM", cv, "strategy enumeration call sites", None, "no call to process_iteration", required=False)
        for kind, node, args in sites:
            if len(args) != len(pnames):
                ctx.ob("R-BIND", cv, f"{kind}: arity", False, f"{len(args)} arguments for {len(pnames)} parameters", node)
                continue
            b = dict(zip(pnames, args))
            def actual(t):
                # substitute formals by actual terms
                if t[0] == "n" and t[1] in b:
                    return Ncv(b[t[1]])
                return t
            base_a, digits_a = actual(dec["base"]), actual(dec["digits"])
            # the counter's range
            cnt = b[dec["counter"]]
            bound = None
            if isinstance(cnt, ast.Name) and kind == "starmap":
                for g in node.generators:
                    if isinstance(g.target, ast.Name) and g.target.id == cnt.id:
                        t = Ncv(g.iter)
                        if t[0] == "call" and t[1] == "builtins.range" and len(t[2]) == 1:
                            bound = t[2][0]
                            bound = _chase(m, cv, bound, node, Ncv)
            elif isinstance(cnt, ast.Name):
                for lp in ast.walk(cv.node):
                    tgt = it = None
                    if isinstance(lp, (ast.For, ast.comprehension)):
                        tgt, it = lp.target, lp.iter
                    if tgt is not None and isinstance(tgt, ast.Name) and tgt.id == cnt.id and any(x is node or x is cnt for x in ast.walk(lp)):
                        t = Ncv(it)
                        if t[0] == "call" and t[1] == "builtins.range" and len(t[2]) == 1:
                            bound = t[2][0]
                            bound = _chase(m, cv, bound, node, Ncv)
            want = ("**", base_a, digits_a)
            if bound is None:
                ctx.ob("R-ENUM", cv, f"{kind}: counter ranges over base**digits", None, "loop bound not recognised", node, required=False)
            else:
                ok = bound == want
                ctx.ob("R-ENUM", cv, f"{kind}: counter ranges over base**digits", ok,
                       f"range({show(bound)}) matches the decoder capacity {show(want)}" if ok else
                       f"the strategy counter ranges over {show(bound)} but is decoded as {show(dec['digits'])} digits in base {show(dec['base'])} "
                       f"= {show(want)}: strategies are missed (or repeated) whenever the two differ", node)
            _layout_check(ctx, cv, pi, dec, b, node, kind)
        # both call sites pass the same arguments
        if len(sites) == 2:
            a1 = [Ncv(x) for x in sites[0][2]]
            a2 = [Ncv(x) for x in sites[1][2]]
            ctx.ob("R-SIB", cv, "parallel and serial branch pass the same arguments", a1 == a2,
                   "both branches evaluate the same strategies" if a1 == a2 else "the two branches call process_iteration differently", sites[1][1])
    # weighting by the question distribution
    _weighting(ctx, cv)
    # the value is the maximum over all strategies
    maxes = [n for n in walk_no_nested(cv.node) if isinstance(n, ast.Call) and isinstance(n.func, ast.Name) and n.func.id == "max"]
    mins = [n for n in walk_no_nested(cv.node) if isinstance(n, ast.Call) and isinstance(n.func, ast.Name) and n.func.id == "min"]
    ctx.ob("R-ENUM", cv, "value = max over strategies", bool(maxes) and not mins, f"{len(maxes)} max reductions" if maxes and not mins else "the reduction over strategies is not a maximum")
    # best response in process_iteration: amax over answers, sum over questions -- checked in _layout_check

    # ---- product game constructor ---------------------------------------------------------------
    _product_game(ctx, cls.methods["__init__"])

    # ---- BCS game ----------------------------------------------------------------------------------
    _bcs(ctx, cls.methods["from_bcs_game"])
    _odometer(ctx)

    # ---- quantum lower bound (see-saw) ------------------------------------------------------------
    qv = cls.methods["quantum_value_lower_bound"]
    roles = shape_roles(m, qv)
    for c, cal in calls_from(m, qv, "random_povm.random_povm"):
        b = m.bind(c, cal.func)
        Nq = Normalizer(m, qv, inline=False)
        ok_d = isinstance(b.get("dim"), ast.AST) and Nq(b["dim"]) == ("n", "dim")
        ri = roles.get(b["num_inputs"].id) if isinstance(b.get("num_inputs"), ast.Name) else None
        ro = roles.get(b["num_outputs"].id) if isinstance(b.get("num_outputs"), ast.Name) else None
        ctx.ob("R-BIND", qv, "random_povm(dim, #questions, #answers) for Bob", ok_d and ri == "B_in" and ro == "B_out",
               "starting POVMs have the declared dimension, one per question of Bob, with Bob's number of answers" if ok_d and ri == "B_in" and ro == "B_out" else
               f"random_povm receives dim={unparse(b['dim']) if isinstance(b.get('dim'), ast.AST) else '?'}, num_inputs role {ri}, num_outputs role {ro}", c)
    r_thread(ctx, qv, "dim", "NonlocalGame.__optimize_alice")
    r_thread(ctx, qv, "dim", "NonlocalGame.__optimize_bob")
    rets, _ = return_terms(m, qv, inline=False)
    okmax = all(any(isinstance(n, ast.Call) and isinstance(n.func, ast.Name) and n.func.id == "max" for n in ast.walk(qv.node)) for _ in [0])
    ctx.ob("R-SDP", qv, "reported bound is the best value seen", okmax, "max over iterations" if okmax else "no max reduction")
    # data flow: alice step receives bob's operators and vice versa
    chain_ok = False
    for n in walk_no_nested(qv.node):
        if isinstance(n, ast.While):
            src = unparse(n)
            chain_ok = "__optimize_alice(dim, bob_povms)" in src.replace("self.", "") and "__optimize_bob(dim, alice_povms)" in src.replace("self.", "")
    og = origins(qv)
    for c, cal in calls_from(m, qv, "NonlocalGame.__optimize_bob"):
        a = m.bind(c, cal.func).get("alice_povms")
        names = og.names_in(a) if isinstance(a, ast.AST) else set()
        srcs = set()
        for n in walk_no_nested(qv.node):
            if isinstance(n, ast.Assign) and isinstance(n.value, ast.Call) and m.resolve_call(qv, n.value).key.endswith("__optimize_alice"):
                srcs |= {x.id for x in ast.walk(n.targets[0]) if isinstance(x, ast.Name)}
        ctx.ob("R-THREAD", qv, "Bob's step consumes Alice's optimised measurements", bool(names & srcs), "alternation is chained" if names & srcs else "Bob's step does not receive Alice's result", c)

    for nm, who in (("__optimize_alice", "A"), ("__optimize_bob", "B")):
        _seesaw(ctx, cls.methods["_NonlocalGame" + nm] if "_NonlocalGame" + nm in cls.methods else cls.methods[nm], who)
    _nonsignaling(ctx, cls.methods["nonsignaling_value"])
    _npa(ctx, cls.methods["commuting_measurement_value_upper_bound"])


# -------------------------------------------------------------------------------------------------
def _layout_check(ctx, cv, pi, dec, b, node, kind):
    """Track which extent sits on which axis of the 4-d array handed to process_iteration and compare with how
    process_iteration indexes it."""
    m = ctx.model
    arr_formal = None
    Np = Normalizer(m, pi, inline=False)
    # the subscript X[:, :, e2, e3] in process_iteration
    sub = None
    for n in walk_no_nested(pi.node):
        if isinstance(n, ast.Subscript) and isinstance(n.value, ast.Name) and pi.param(n.value.id) is not None and \
                isinstance(n.slice, ast.Tuple) and len(n.slice.elts) == 4 and isinstance(n.ctx, ast.Load):
            sub = n
            arr_formal = n.value.id
    if sub is None:
        ctx.ob("R-ENUM", pi, "strategy subscript [:, :, b(y), y]", None, "4-axis subscript not found", required=False)
        return
    e = sub.slice.elts
    free = [i for i, x in enumerate(e) if isinstance(x, ast.Slice)]
    fixed = [i for i in range(4) if i not in free]
    if len(fixed) != 2:
        ctx.ob("R-ENUM", pi, "strategy subscript [:, :, b(y), y]", None, "subscript shape not recognised", required=False)
        return
    # question axis: a bare loop variable over range(F); answer axis: index[question]
    q_axis = a_axis = None
    q_ext = None
    for i in fixed:
        if isinstance(e[i], ast.Name):
            for lp in walk_no_nested(pi.node):
                if isinstance(lp, ast.For) and isinstance(lp.target, ast.Name) and lp.target.id == e[i].id:
                    t = Np(lp.iter)
                    if t[0] == "call" and t[1] == "builtins.range" and len(t[2]) == 1:
                        q_axis, q_ext, q_var = i, t[2][0], e[i].id
    for i in fixed:
        if i != q_axis:
            a_axis = i
    if q_axis is None:
        ctx.ob("R-ENUM", pi, "strategy subscript [:, :, b(y), y]", None, "question axis not recognised", required=False)
        return
    at = Np(e[a_axis])
    dep = mentions_name(at, q_var) and mentions_name(at, dec["index"])
    ctx.ob("R-ENUM", pi, "enumerated player's answer is a function of the question", dep,
           f"answer index {show(at)} is looked up by the question index `{q_var}`" if dep else
           f"answer index {show(at)} does not depend on the question `{q_var}`: only constant answer strategies are enumerated", sub)
    Ni = Normalizer(m, pi, inline=True)
    q_ext_i = Ni(ast.parse(show(q_ext)).body[0].value) if False else q_ext
    # extents in terms of formals: digits == question extent
    okq = _inl(Ni, pi, q_ext) == dec["digits"]
    ctx.ob("R-ENUM", pi, "one digit per question", okq, "the question loop runs over `digits` questions" if okq else
           f"question loop extent {show(q_ext)} differs from the number of decoded digits {show(dec['digits'])}", sub)
    # accumulator shape and reductions
    acc_shape = None
    for n in walk_no_nested(pi.node):
        if isinstance(n, ast.Assign) and isinstance(n.value, ast.Call) and m.resolve_call(pi, n.value).key == "numpy.zeros" and n.value.args \
                and isinstance(n.value.args[0], ast.Tuple) and len(n.value.args[0].elts) == 2:
            acc_shape = [Np(x) for x in n.value.args[0].elts]
    # layout at the call
    layout = _track_layout(ctx, cv, b[arr_formal])
    if layout is None:
        ctx.ob("R-ENUM", cv, f"{kind}: array layout tracked", None, "layout of the 4-d array not recognised", node, required=False)
        return
    Ncv = Normalizer(m, cv, inline=False)
    act = {k: Ncv(v) for k, v in b.items()}
    def A(t):
        return act.get(t[1], t) if t[0] == "n" else t
    want_ans, want_q = layout[a_axis], layout[q_axis]
    got_ans, got_q = A(dec["base"]), A(_inl(Ni, pi, q_ext))
    ok = got_ans == ("n", want_ans) and got_q == ("n", want_q)
    ctx.ob("R-BIND", cv, f"{kind}: decoder base/digits are the extents of the indexed axes", ok,
           f"axis {a_axis} has extent `{want_ans}` = base, axis {q_axis} has extent `{want_q}` = digits" if ok else
           f"array axes ({a_axis},{q_axis}) have extents ({want_ans},{want_q}) but the decoder uses base {show(got_ans)} and {show(got_q)} digits", node)
    if acc_shape is not None:
        got = [A(x) for x in acc_shape]
        want = [("n", layout[i]) for i in free]
        ctx.ob("R-BIND", cv, f"{kind}: accumulator shape matches the free axes", got == want,
               f"accumulator is ({layout[free[0]]}, {layout[free[1]]})" if got == want else f"accumulator {[show(x) for x in got]} vs free axes {[layout[i] for i in free]}", node)
        # amax over the answer axis of the other player, sum over the rest
        roles = _cv_roles(ctx, cv)
        for n in walk_no_nested(pi.node):
            if isinstance(n, ast.Call) and m.resolve_call(pi, n).key in ("numpy.amax", "numpy.max") and n.args:
                ax = next((kw.value for kw in n.keywords if kw.arg == "axis"), n.args[1] if len(n.args) > 1 else None)
                if ax is None or not isinstance(ax, ast.Constant):
                    ctx.ob("R-ENUM", pi, "best response: max over the other player's answers per question", False if ax is None else None,
                           "amax without an axis maximises over questions as well" if ax is None else "axis not literal", n)
                else:
                    name = layout[free[ax.value]] if ax.value in (0, 1) else None
                    role = roles.get(name)
                    okr = role is not None and role.endswith("_out")
                    ctx.ob("R-ENUM", pi, "best response: max over the other player's answers per question", okr,
                           f"amax over axis {ax.value} (`{name}`, answers), summed over questions" if okr else
                           f"amax runs over axis {ax.value} whose extent `{name}` is the number of questions", n)
        sums = [n for n in walk_no_nested(pi.node) if isinstance(n, ast.Call) and m.resolve_call(pi, n).key == "numpy.sum"]
        ctx.ob("R-ENUM", pi, "per-question optima are summed", bool(sums), "np.sum over questions" if sums else "no sum over questions")


def _inl(Ni, f, t):
    # inline single-assignment locals of f in a non-inlined term
    if t[0] == "n" and t[1] in Ni.env.single:
        return Ni(Ni.env.single[t[1]])
    return t


def _cv_roles(ctx, cv):
    """name -> role for classical_value; names are re-bound after the role swap but keep denoting
    (answers, answers, questions, questions) by position."""
    roles = {}
    for n in walk_no_nested(cv.node):
        if isinstance(n, ast.Assign) and isinstance(n.targets[0], ast.Tuple) and isinstance(n.value, ast.Attribute) and n.value.attr == "shape" \
                and len(n.targets[0].elts) == 4:
            for pos, e in enumerate(n.targets[0].elts):
                if isinstance(e, ast.Name):
                    roles.setdefault(e.id, ("P_out", "Q_out", "P_in", "Q_in")[pos])
    return roles


def _track_layout(ctx, cv, arr_node):
    """Layout of the 4-d array at the call: per axis the extent *name* (must be the same on every path) and the
    semantic *role* (A_out, B_out, A_in, B_in; may differ between paths by the player swap)."""
    if not isinstance(arr_node, ast.Name):
        return None
    arr = arr_node.id
    ROLES = ["A_out", "B_out", "A_in", "B_in"]

    def step(st, state):
        lay, rol = state
        if isinstance(st, ast.Assign) and isinstance(st.targets[0], ast.Name) and st.targets[0].id == arr and isinstance(st.value, ast.Call):
            k = ctx.model.resolve_call(cv, st.value).key
            is_copy = (k in ("numpy.copy", "numpy.array", "numpy.asarray", "numpy.asarray_chkfinite", "numpy.ascontiguousarray") and st.value.args) or \
                (isinstance(st.value.func, ast.Attribute) and st.value.func.attr == "copy" and not st.value.args) or \
                (isinstance(st.value.func, ast.Attribute) and st.value.func.attr == "astype" and not isinstance(st.value.func.value, ast.Call))
            if is_copy:
                src = st.value.func.value if isinstance(st.value.func, ast.Attribute) and st.value.func.attr in ("copy", "astype") and \
                    k not in ("numpy.copy",) else st.value.args[0]
                for n in walk_no_nested(cv.node):
                    if isinstance(n, ast.Assign) and isinstance(n.targets[0], ast.Tuple) and isinstance(n.value, ast.Attribute) and \
                            n.value.attr == "shape" and unparse(n.value.value) == unparse(src) and n.lineno < st.lineno:
                        return ([e.id if isinstance(e, ast.Name) else None for e in n.targets[0].elts], list(ROLES))
                return (None, None)
            if k == "numpy.transpose" and len(st.value.args) == 2 and isinstance(st.value.args[0], ast.Name) and st.value.args[0].id == arr \
                    and isinstance(st.value.args[1], (ast.Tuple, ast.List)) and lay is not None:
                ax = [e.value for e in st.value.args[1].elts if isinstance(e, ast.Constant)]
                if sorted(ax) == list(range(len(lay))):
                    return ([lay[i] for i in ax], [rol[i] for i in ax])
                return (None, None)
            return (None, None)
        if isinstance(st, ast.Assign) and isinstance(st.targets[0], ast.Tuple) and isinstance(st.value, ast.Attribute) and st.value.attr == "shape" \
                and isinstance(st.value.value, ast.Name) and st.value.value.id == arr and lay is not None:
            return ([e.id if isinstance(e, ast.Name) else None for e in st.targets[0].elts], rol)
        return state

    def run(body, states):
        for st in body:
            if isinstance(st, ast.If):
                a = run(st.body, list(states))
                b = run(st.orelse, list(states))
                states = a + [x for x in b if x not in a]
            elif isinstance(st, (ast.For, ast.While, ast.With)):
                continue
            else:
                states = [step(st, s0) for s0 in states]
                uniq = []
                for x in states:
                    if x not in uniq:
                        uniq.append(x)
                states = uniq
        return states

    states = run(cv.node.body, [(None, None)])
    if any(s0[0] is None for s0 in states):
        return None
    names = {tuple(s0[0]) for s0 in states}
    if len(names) != 1:
        a, b = sorted(names)[:2]
        ctx.ob("R-ENUM", cv, "role swap keeps extent names attached to their axes", False,
               f"after the conditional role swap the axes are {list(a)} on one path and {list(b)} on the other: the extents passed to "
               "process_iteration no longer describe the array", cv.node)
        return None
    ctx.ob("R-ENUM", cv, "role swap keeps extent names attached to their axes", True, f"layout at the call: {list(next(iter(names)))}")
    # every path: axes (0,1) = (answers, questions) of one player, axes (2,3) = (answers, questions) of the other
    bad = None
    for _, rol in states:
        p0, k0 = rol[0].split("_")
        p1, k1 = rol[1].split("_")
        p2, k2 = rol[2].split("_")
        p3, k3 = rol[3].split("_")
        if not (p0 == p1 and p2 == p3 and p0 != p2 and (k0, k1, k2, k3) == ("out", "in", "out", "in")):
            bad = rol
    ctx.ob("R-ENUM", cv, "axes are (answers, questions) of one player then (answers, questions) of the other on every path", bad is None,
           f"paths: {[s0[1] for s0 in states]}" if bad is None else
           f"on one path the array handed to process_iteration is laid out as {bad}: a player's answers are indexed by the other player's questions", cv.node)
    return list(next(iter(names)))


def _as_load(node):
    import copy

    c = copy.deepcopy(node)
    for x in ast.walk(c):
        if hasattr(x, "ctx"):
            x.ctx = ast.Load()
    return c


def _weighting(ctx, cv):
    m = ctx.model
    N = Normalizer(m, cv, inline=False)
    roles = _cv_roles(ctx, cv)
    found = False
    for lp in walk_no_nested(cv.node):
        if isinstance(lp, ast.For):
            for n in ast.walk(lp):
                if isinstance(n, ast.AugAssign) and isinstance(n.op, ast.Mult) and isinstance(n.target, ast.Subscript) and isinstance(n.target.slice, ast.Tuple) and \
                        len(n.target.slice.elts) == 4 and "prob_mat" in unparse(n.value):
                    # `A[s] *= p`  ==  `A[s] = A[s] * p`
                    orig = n
                    n = ast.copy_location(ast.Assign(targets=[n.target], value=ast.BinOp(left=_as_load(n.target), op=ast.Mult(), right=n.value)), n)
                    ast.fix_missing_locations(n)
                    n._orig = orig
                if isinstance(n, ast.Assign) and isinstance(n.targets[0], ast.Subscript) and isinstance(n.targets[0].slice, ast.Tuple) and \
                        len(n.targets[0].slice.elts) == 4 and "prob_mat" in unparse(n.value):
                    found = True
                    lhs = N(n.targets[0])
                    rhs = N(n.value)
                    qs = [unparse(x) for x in n.targets[0].slice.elts[2:]]
                    probs = [s for s in subterms(rhs) if isinstance(s, tuple) and s and s[0] == "sub" and s[1] == ("attr", ("n", "self"), "prob_mat")]
                    okp = bool(probs) and probs[0][2] == ("tuple", ("n", qs[0]), ("n", qs[1]))
                    oks = rhs[0] == "*" and lhs in rhs[1]
                    ctx.ob("R-ENUM", cv, "V(a,b|x,y) weighted by pi(x,y) of the same question pair", bool(okp and oks),
                           f"slice [:, :, {qs[0]}, {qs[1]}] scaled by prob_mat[{qs[0]}, {qs[1]}]" if okp and oks else
                           f"`{unparse(n)[:90]}` does not scale the slice by the probability of its own question pair", n)
                    # loops cover all questions
                    loops = []
                    for l2 in walk_no_nested(cv.node):
                        if isinstance(l2, ast.For) and any(x is n or x is getattr(n, "_orig", None) for x in ast.walk(l2)):
                            loops.append(N(l2.iter))
                    # orientation: prob_mat is indexed (Alice question, Bob question); the copy must still be in that orientation, i.e.
                    # no re-orientation (transpose / swapaxes of the weighted array) may run before the weighting on any path
                    arr = n.targets[0].value.id if isinstance(n.targets[0].value, ast.Name) else None
                    early = []
                    for st in walk_no_nested(cv.node):
                        if isinstance(st, ast.Assign) and len(st.targets) == 1 and isinstance(st.targets[0], ast.Name) and st.targets[0].id == arr and st.lineno < n.lineno \
                                and isinstance(st.value, ast.Call) and (getattr(st.value.func, "attr", "") in ("transpose", "swapaxes", "moveaxis")):
                            axes = [a for a in st.value.args if isinstance(a, (ast.Tuple, ast.List))]
                            perm = [e.value for e in axes[0].elts if isinstance(e, ast.Constant)] if axes else None
                            # a transposition that leaves the two question axes (2, 3) where they are does not matter
                            if perm is None or len(perm) != 4 or perm[2:] != [2, 3]:
                                early.append(st)
                    # dtype: the buffer receives pi(x,y) * V, a real number, by item assignment; a buffer that inherits the dtype of the
                    # caller's predicate (np.copy(pred_mat), pred_mat.copy()) truncates the weighted entries when the predicate is an
                    # integer (0/1) array -- every entry becomes 0 and the value is reported as 0.
                    if arr is not None:
                        defs = [st for st in walk_no_nested(cv.node) if isinstance(st, ast.Assign) and len(st.targets) == 1 and
                                isinstance(st.targets[0], ast.Name) and st.targets[0].id == arr and st.lineno < n.lineno]
                        inherits = None
                        for st in defs:
                            v = st.value
                            txt = unparse(v)
                            floaty = any(isinstance(x, ast.Constant) and isinstance(x.value, (float, complex)) and not isinstance(x.value, bool) for x in ast.walk(v)) or \
                                any(isinstance(x, ast.BinOp) and isinstance(x.op, ast.Div) for x in ast.walk(v))
                            forced = None
                            for x in ast.walk(v):
                                if isinstance(x, ast.Call):
                                    for kw in x.keywords:
                                        if kw.arg == "dtype":
                                            forced = unparse(kw.value)
                                    if isinstance(x.func, ast.Attribute) and x.func.attr == "astype" and x.args:
                                        forced = unparse(x.args[0])
                                    kk = m.resolve_call(cv, x).key or ""
                                    if kk in ("numpy.array", "numpy.asarray", "numpy.zeros", "numpy.empty", "numpy.ones", "numpy.full") and len(x.args) >= 2:
                                        forced = unparse(x.args[1])
                            inexact = forced is not None and any(t in forced for t in ("float", "complex", "double", "inexact"))
                            reads_pred = any((isinstance(x, ast.Attribute) and x.attr == "pred_mat") or (isinstance(x, ast.Name) and x.id == "pred_mat") for x in ast.walk(v))
                            if reads_pred and not floaty and not inexact:
                                inherits = (st, forced)
                        ctx.ob("R-DTYPE", cv, "the weighted copy of the predicate is a floating-point array", inherits is None,
                               "the buffer is created with an explicit floating dtype (or by float arithmetic)" if inherits is None else
                               f"`{unparse(inherits[0])[:70]}` has the dtype of the caller's predicate"
                               + (f" (forced to `{inherits[1]}`)" if inherits[1] else "") +
                               f"; `{unparse(n)[:60]}` stores pi(x,y) * V into it: with an integer 0/1 predicate every weighted entry is truncated to 0 "
                               "and the classical value comes out 0", n)
                    uses_T = any(isinstance(x, ast.Attribute) and x.attr == "T" and "prob_mat" in unparse(x.value) for x in ast.walk(n.value))
                    if arr is not None:
                        ctx.ob("R-ORDER", cv, "the copy is weighted by pi(x, y) before any player swap re-orients its question axes", not early or None if uses_T else not early,
                               "weighting precedes every transposition of the question axes" if not early else
                               f"`{unparse(early[0])[:70]}` (line {early[0].lineno}) can run before the weighting: on that path axis 2 is Bob's question while prob_mat[{qs[0]}, {qs[1]}] "
                               "is still indexed (Alice, Bob) -- the distribution is applied transposed", n)
                    rr = sorted(roles.get(t[2][0][1], "?") for t in loops if t[0] == "call" and t[2] and t[2][0][0] == "n")
                    ctx.ob("R-ENUM", cv, "weighting covers every question pair", rr == ["P_in", "Q_in"],
                           "loops over all x and all y" if rr == ["P_in", "Q_in"] else f"weighting loops range over roles {rr}", n)
                    return
    if not found:
        ctx.ob("R-ENUM", cv, "V(a,b|x,y) weighted by pi(x,y) of the same question pair", None, "weighting statement not recognised", required=False)


def _product_game(ctx, init, role_names=("A_out", "B_out", "A_in", "B_in")):
    m = ctx.model
    N = Normalizer(m, init, inline=False)
    # names from pred_mat.shape
    roles = {}
    for n in walk_no_nested(init.node):
        if isinstance(n, ast.Assign) and isinstance(n.targets[0], ast.Tuple) and unparse(n.value) == "pred_mat.shape":
            for pos, e in enumerate(n.targets[0].elts):
                roles[e.id] = role_names[pos]
    if not roles:
        ctx.ob("R-ENUM", init, "product game construction", None, "reps branch not recognised", required=False)
        return
    inv = {v: k for k, v in roles.items()}
    # odometer loops
    for lp in walk_no_nested(init.node):
        if isinstance(lp, ast.For) and isinstance(lp.target, ast.Name):
            t = N(lp.iter)
            if t[0] == "call" and t[1] == "builtins.range" and len(t[2]) == 1 and t[2][0][0] == "**":
                basev, expv = t[2][0][1], t[2][0][2]
                # find the odometer update inside this loop whose counter name appears nowhere deeper
                upd = [s for s in lp.body if isinstance(s, ast.Assign) and isinstance(s.value, ast.Call) and m.resolve_call(init, s.value).key.endswith("update_odometer")]
                if not upd:
                    # the update for loop variable j sits at the end of j's body
                    continue
                # updates at the END of this loop body advance this loop's odometer
                u = upd[-1]
                lim = N(u.value.args[1]) if len(u.value.args) > 1 else None
                want = ("*", tuple(sorted([basev, ("call", "numpy.ones", (expv,), ())], key=repr)))
                ok = lim is not None and lim[0] == "*" and set(map(repr, lim[1])) == set(map(repr, want[1]))
                role = roles.get(basev[1]) if basev[0] == "n" else None
                ctx.ob("R-ENUM", init, f"odometer for loop `{lp.target.id}` runs {show(basev)}**{show(expv)} steps with limits {show(basev)}*ones({show(expv)})", ok,
                       "loop length equals the odometer's capacity" if ok else f"odometer limits {show(lim) if lim else '?'} do not match range({show(t[2][0])})", u)
                # the odometer updated here must be the one indexed on this loop's axis
                odo = u.targets[0].id if isinstance(u.targets[0], ast.Name) else None
                same = isinstance(u.value.args[0], ast.Name) and u.value.args[0].id == odo
                ctx.ob("R-ENUM", init, f"odometer `{odo}` is advanced once per step of `{lp.target.id}`", same, "x = update_odometer(x, ..)" if same else "odometer result assigned to a different name", u)
                # it must be the LAST statement of the loop body (after the inner work)
                ctx.ob("R-ENUM", init, f"odometer `{odo}` advanced after the body of `{lp.target.id}`", lp.body[-1] is u,
                       "advance at the end of the loop body" if lp.body[-1] is u else "odometer advanced before the loop body uses it", u)
    # slices: pred_mat[:, :, i_ind[k], j_ind[k]] and pred_mat2[:, :, i, j]
    for n in walk_no_nested(init.node):
        if isinstance(n, ast.Assign) and isinstance(n.targets[0], ast.Subscript) and isinstance(n.value, ast.Subscript) and \
                isinstance(n.value.value, ast.Name) and n.value.value.id == "pred_mat" and isinstance(n.value.slice, ast.Tuple):
            el = n.value.slice.elts
            ok = len(el) >= 4 and all(isinstance(e, ast.Slice) for e in el[:-2]) and isinstance(el[-2], ast.Subscript) and isinstance(el[-1], ast.Subscript) \
                and unparse(el[-2].slice) == unparse(el[-1].slice) == unparse(n.targets[0].slice) and unparse(el[-2].value) != unparse(el[-1].value)
            ctx.ob("R-ENUM", init, "factor k uses digit k of both question odometers", ok, "pred_mat[:, :, i_ind[k], j_ind[k]] -> to_tensor[k]" if ok else f"`{unparse(n)}`", n)
    r_thread(ctx, init, "reps", "tensor.tensor", formal=None) if False else None
    # prob tensor power
    okp = any(isinstance(n, ast.Call) and m.resolve_call(init, n).key.endswith("tensor.tensor") and len(n.args) == 2 and unparse(n.args[0]) == "prob_mat" and unparse(n.args[1]) == "reps"
              for n in walk_no_nested(init.node))
    ctx.ob("R-ENUM", init, "question distribution is the reps-fold tensor power", okp, "tensor(prob_mat, reps)" if okp else "prob_mat is not raised to the reps-th tensor power")


def _odometer(ctx):
    """update_odometer is a mixed-radix increment.  A carry may run through ALL digits ([0,1,1] -> [1,0,0]): the digit information has
    to travel n positions, which needs a loop (or recursion) over the digits, or a cumulative / index-arithmetic primitive
    (ravel_multi_index + unravel_index, cumprod, cumsum).  A single vectorised shift moves a carry by one position only."""
    m = ctx.model
    try:
        f = m.func("update_odometer.update_odometer")
    except KeyError:
        return
    loops = [n for n in ast.walk(f.node) if isinstance(n, (ast.For, ast.While))]
    rec = any(isinstance(n, ast.Call) and isinstance(n.func, ast.Name) and n.func.id == f.name for n in ast.walk(f.node))
    prim = [n for n in ast.walk(f.node) if isinstance(n, ast.Call) and getattr(n.func, "attr", getattr(n.func, "id", "")) in
            ("ravel_multi_index", "unravel_index", "cumprod", "cumsum", "accumulate", "divmod")]
    ok = bool(loops) or rec or bool(prim)
    ctx.ob("R-ENUM", f, "the carry of the mixed-radix increment can run through every digit (loop, recursion or cumulative primitive)", ok,
           f"{len(loops)} loop(s) over the digits" if loops else "index arithmetic" if prim else "recursion" if rec else
           "the increment is one vectorised step: a carry moves one position to the left and a carry it produces there is lost ([0,1,1] with limits 2,2,2 -> [0,0,0] "
           "instead of [1,0,0]); product games with three or more repetitions are assembled from the wrong index vectors")
    if loops:
        # the loop walks the digits from the last to the first
        lp = loops[0]
        it = unparse(lp.iter) if isinstance(lp, ast.For) else ""
        down = "reversed" in it or (it.startswith("range(") and it.rstrip(")").replace(" ", "").endswith("-1"))
        ctx.ob("R-ENUM", f, "digits are visited from the least significant (last) to the first", down or None,
               f"for .. in {it}" if down else f"loop `{it}` not recognised as a right-to-left walk", lp, required=False)
        # reset to 0 and carry into the left neighbour under the overflow test
        resets = [n for n in ast.walk(lp) if isinstance(n, ast.Assign) and isinstance(n.targets[0], ast.Subscript) and isinstance(n.value, ast.Constant) and n.value.value == 0]
        carries = [n for n in ast.walk(lp) if (isinstance(n, ast.AugAssign) and isinstance(n.op, ast.Add)) or
                   (isinstance(n, ast.Assign) and isinstance(n.targets[0], ast.Subscript) and isinstance(n.value, ast.BinOp) and isinstance(n.value.op, ast.Add)
                    and unparse(n.value.left) == unparse(n.targets[0]))]
        okc = bool(resets) and bool(carries)
        ctx.ob("R-ENUM", f, "an overflowing digit is reset to 0 and 1 is carried into its left neighbour", okc,
               "reset + carry inside the loop" if okc else "the reset or the carry is missing from the loop", lp)
        cmpn = [n for n in ast.walk(lp) if isinstance(n, ast.If) and isinstance(n.test, ast.Compare) and "upper_lim" in unparse(n.test)]
        okt = bool(cmpn) and isinstance(cmpn[0].test.ops[0], (ast.GtE,)) or (bool(cmpn) and isinstance(cmpn[0].test.ops[0], ast.LtE) and "upper_lim" in unparse(cmpn[0].test.left))
        ctx.ob("R-ENUM", f, "overflow test is digit >= limit (limits are exclusive)", bool(okt), unparse(cmpn[0].test) if cmpn else "no comparison with upper_lim", cmpn[0] if cmpn else None)


def _bcs(ctx, f):
    m = ctx.model
    N = Normalizer(m, f, inline=True)
    for n in walk_no_nested(f.node):
        if isinstance(n, ast.Assign) and isinstance(n.targets[0], ast.Subscript) and isinstance(n.targets[0].value, ast.Name) and \
                n.targets[0].value.id == "pred_mat" and isinstance(n.targets[0].slice, ast.Tuple) and len(n.targets[0].slice.elts) == 4:
            a, b, x, y = [Normalizer(m, f, inline=False)(e) for e in n.targets[0].slice.elts]
            bt = N(n.targets[0].slice.elts[1])
            if bt[0] == "n":
                bt = value_at(m, f, bt[1], n, Normalizer(m, f, inline=False)) or bt
            # b_ans = truth_assignment[y]: Bob's answer is Alice's assignment of the asked variable
            okb = bt[0] == "sub" and bt[2] == y
            ctx.ob("R-ENUM", f, "Bob's scored answer == Alice's assignment of the asked variable", okb,
                   "consistency: b = assignment[y]" if okb else f"Bob's answer index {show(bt)[:60]} is not Alice's value of variable y", n)
            # guarded by constraints[x][assignment] == 1
            from .. import flow as flw
            hit = flw.find_stmt_of(f.node, n)
            conds = [(Normalizer(m, f, inline=False)(t), pol) for t, pol in flw.conds(hit[1])] if hit else []
            okc = any(pol and t[0] == "cmp" and t[1] == "==" and ("c", 1) in (t[2], t[3]) and "constraints" in repr(t) and repr(x) in repr(t) for t, pol in conds)
            ctx.ob("R-ENUM", f, "scored only when constraint x is satisfied by the assignment", okc,
                   "pred = 1 iff constraints[x][assignment] == 1" if okc else "the satisfaction test of constraint x no longer guards the score", n)
    rets, Nr = return_terms(m, f, inline=False)
    for rn, facts, t in rets:
        ok = t[0] == "call" and "reps" in repr(t)
        ctx.ob("R-THREAD", f, "reps forwarded to the constructor", ok, "cls(prob, pred, reps)" if ok else "reps not forwarded", rn)
    # question distribution of a BCS game (Cleve-Mittal): a constraint uniformly at random, then uniformly one of the variables that
    # occur in it:  pi(j, .) = (1 / #constraints) * dep[j] / sum(dep[j]),  row by row
    N0 = Normalizer(m, f, inline=False)
    rows = [n for n in ast.walk(f.node) if isinstance(n, ast.Assign) and isinstance(n.targets[0], ast.Subscript) and isinstance(n.targets[0].value, ast.Name)
            and n.targets[0].value.id == "prob_mat" and isinstance(n.targets[0].slice, ast.Name)]
    okd, why = None, "row-wise construction of the distribution not found"
    if rows:
        st = rows[0]
        j = st.targets[0].slice.id
        loops = [lp for lp in walk_no_nested(f.node) if isinstance(lp, ast.For) and any(x is st for x in ast.walk(lp))]
        env = {}
        for lp in loops:
            for d in ast.walk(lp):
                if isinstance(d, ast.Assign) and len(d.targets) == 1 and isinstance(d.targets[0], ast.Name):
                    env[d.targets[0].id] = d.value
        def _exp(t, depth=0):
            if t[0] == "n" and t[1] in env and depth < 4:
                return _exp(N0(env[t[1]]), depth + 1)
            if isinstance(t, tuple):
                return tuple(_exp(x, depth) if isinstance(x, tuple) and x and isinstance(x[0], str) else
                             (tuple(_exp(y, depth) if isinstance(y, tuple) and y and isinstance(y[0], str) else y for y in x) if isinstance(x, tuple) else x) for x in t)
            return t
        t = _exp(N0(st.value))
        dep_j = ("sub", ("n", "dependent_variables"), ("n", j))
        flat = repr(t)
        uni = repr(("n", "num_constraints")) in flat and ("'/'" in flat or "Fraction" in flat or "-1" in flat)
        per_row = repr(dep_j) in flat and ("'sum'" in flat or "numpy.sum" in flat)
        rng_ok = any(N0(lp.iter) == ("call", "builtins.range", (("n", "num_constraints"),), ()) and isinstance(lp.target, ast.Name) and lp.target.id == j for lp in loops)
        okd = bool(uni and per_row and rng_ok)
        why = "pi(j, .) = 1/#constraints * dep[j] / sum(dep[j]) for every constraint j" if okd else \
            f"row {j} is `{unparse(st.value)[:60]}` -> {show(t)[:90]}: not (uniform constraint) x (uniform variable of that constraint)"
    else:
        whole = [n for n in ast.walk(f.node) if isinstance(n, ast.Assign) and len(n.targets) == 1 and isinstance(n.targets[0], ast.Name) and n.targets[0].id == "prob_mat"
                 and not (isinstance(n.value, ast.Call) and getattr(n.value.func, "attr", "") in ("zeros", "empty", "zeros_like"))]
        if whole:
            tw = N0(whole[-1].value)
            # dep / dep.sum(): uniform over (constraint, variable) PAIRS -- a constraint that mentions more variables is asked more often
            glob = tw[0] == "/" and tw[1] == ("n", "dependent_variables") and "sum" in repr(tw[2]) and "axis" not in repr(tw[2])
            if glob:
                okd, why = False, (f"`{unparse(whole[-1])[:70]}` normalises by the total number of (constraint, variable) pairs: the pair is drawn uniformly, so a constraint "
                                   "mentioning more variables is asked more often (for constraints of different sizes the game, and its classical value, change)")
    ctx.ob("R-DEF", f, "BCS question distribution: uniform constraint, then uniform variable of that constraint", okd, why, rows[0] if rows else None, required=okd is not None)


def _povm_family(ctx, f, sk, group, roles, q_role, a_role, target_desc, target_pred):
    ok, detail, node = psd_ok(sk, group)
    ctx.ob("R-SDP", f, f"{group}: every element PSD", ok, detail, node)
    scs = [s for s in sum_constraints(sk, group) if s["reaching"] and s["rel"] == "=="]
    good = False
    why = f"no reaching equality `sum over answers of {group} == {target_desc}`"
    node2 = None
    for s in scs:
        summed = [range_role(x, roles) for x in s["summed"]]
        free = [range_role(x, roles) for x in s["free"]]
        node2 = s["con"].node
        if not target_pred(s["other"]):
            why = f"the family sums to {show(s['other'])[:40]}, expected {target_desc}"
            continue
        if summed == [a_role] and free == [q_role]:
            good = True
        else:
            why = f"completeness sums over roles {summed} for each of {free}; expected a sum over all answers ({a_role}) for every question ({q_role})"
    if not scs:
        d = [s for s in sum_constraints(sk, group) if not s["reaching"]]
        if d:
            why = "the completeness constraint is constructed but never reaches the problem"
            node2 = d[0]["con"].node
    ctx.ob("R-SDP", f, f"{group}: sums to {target_desc} for every question", good,
           f"sum_a {group}[q, a] == {target_desc} for all q" if good else why, node2)


def _seesaw(ctx, f, who, role_names=("A_out", "B_out", "A_in", "B_in"), group_a="alice_povms", group_b="bob_povms", bob_target=None, check_shape=True):
    m = ctx.model
    sk = Skeleton(m, f)
    from ..sdp import r_full_range_families
    r_full_range_families(ctx, f, sk)
    roles = shape_roles(m, f, roles=role_names)
    group = group_a if who == "A" else group_b
    if not sk.probs:
        ctx.ob("R-SDP", f, "problem constructed", None, "no cvxpy.Problem", required=False)
        return
    p = sk.probs[0]
    ctx.ob("R-SDP", f, "objective sense == max", p.sense == "max", "Maximize(win)" if p.sense == "max" else f"objective sense is {p.sense}", p.node)
    d = sk.dangling()
    ctx.ob("R-SDP", f, "S1 every constraint reaches the problem", not d, "all constructed constraints are passed to Problem" if not d else
           f"{len(d)} constraint(s) never reach Problem, e.g. `{unparse(d[0].node)[:60]}`", d[0].node if d else None)
    if who == "A":
        _povm_family(ctx, f, sk, group, roles, "A_in", "A_out", "tau", lambda t: t == ("n", "tau"))
        ok, det, nd = psd_ok(sk, "tau")
        ctx.ob("R-SDP", f, "tau PSD", ok, det, nd)
        tr = [c for c in sk.reaching()[0] if c.rel == "==" and {repr(c.lhs), repr(c.rhs)} == {repr(("call", "cvxpy.trace", (("n", "tau"),), ())), repr(("c", 1))}]
        ctx.ob("R-SDP", f, "trace(tau) == 1", bool(tr), "tau is a density operator" if tr else "normalisation of tau missing")
    else:
        _povm_family(ctx, f, sk, group, roles, "B_in", "B_out", "identity", bob_target or
                     (lambda t: t[0] == "call" and t[1] in ("numpy.identity", "numpy.eye") and t[2] and t[2][0] == ("n", "dim")))
    # objective: every (x, y, a, b) term pi(x,y) V(a,b|x,y) <B_b^y, A_a^x>
    _objective_terms(ctx, f, sk, roles, (group_a, group_b))
    # S3 the returned value is this problem's optimum
    rets, N = return_terms(m, f, inline=True)
    oks = any("solve" in repr(t) for _, _, t in rets)
    ctx.ob("R-SDP", f, "S3 returns the optimum of this problem", oks, "problem.solve() is returned" if oks else "returned value does not come from problem.solve()")
    # variable shape (dim, dim)
    for v in sk.vars:
        if v.name == group and check_shape:
            oksh = v.shape == ("tuple", ("n", "dim"), ("n", "dim"))
            ctx.ob("R-SHAPE", f, f"{group} are dim x dim Hermitian", oksh and v.attrs.get("hermitian") == ("c", True),
                   "Variable((dim, dim), hermitian=True)" if oksh else f"shape {show(v.shape) if v.shape else '?'}", v.node)


def _objective_terms(ctx, f, sk, roles, groups, pred_positions=("A_out", "B_out", "A_in", "B_in")):
    """win += prob[x, y] * pred[a, b, x, y] * <...>: the subscripts must be (answers.., questions..) in the tensor's axis order
    and the loops must cover all four ranges."""
    m = ctx.model
    N = Normalizer(m, f, inline=False)
    n_terms = 0
    for n in walk_no_nested(f.node):
        if isinstance(n, ast.AugAssign) and isinstance(n.op, ast.Add) and "pred_mat" in unparse(n.value):
            n_terms += 1
            t = N(n.value)
            loops = {}
            for lp in walk_no_nested(f.node):
                if isinstance(lp, ast.For) and isinstance(lp.target, ast.Name) and any(x is n for x in ast.walk(lp)):
                    loops[lp.target.id] = range_role(repr(N(lp.iter)), roles)
            preds = [s for s in subterms(t) if isinstance(s, tuple) and s and s[0] == "sub" and s[1] == ("attr", ("n", "self"), "pred_mat")]
            probs = [s for s in subterms(t) if isinstance(s, tuple) and s and s[0] == "sub" and s[1] == ("attr", ("n", "self"), "prob_mat")]
            if not preds:
                continue
            idx = preds[0][2]
            if idx[0] == "tuple":
                idx = ("tuple",) + tuple(x for x in idx[1:] if x[0] != "slice")
            def _role(x):
                if x[0] == "n":
                    return loops.get(x[1])
                # answer function looked up at the question: f[x] has the answer role of x's player
                if x[0] == "sub" and x[2][0] == "n" and (loops.get(x[2][1]) or "").endswith("_in"):
                    return loops[x[2][1]][0] + "_out"
                return None
            got = tuple(_role(x) for x in idx[1:]) if idx[0] == "tuple" else ()
            ok = got == tuple(pred_positions)
            ctx.ob("R-ENUM", f, "predicate indexed V[a, b, x, y] by role", ok,
                   "subscripts are (Alice answer, Bob answer, Alice question, Bob question)" if ok else f"pred_mat subscripts have roles {got}", n)
            if probs:
                pidx = probs[0][2]
                gotp = tuple(loops.get(x[1]) if x[0] == "n" else None for x in pidx[1:]) if pidx[0] == "tuple" else ()
                okp = gotp == (pred_positions[2], pred_positions[3])
                ctx.ob("R-ENUM", f, "distribution indexed pi[x, y] by role", okp, "prob_mat[x, y]" if okp else f"prob_mat subscripts have roles {gotp}", n)
            cover = sorted({v for v in loops.values() if v} | {g_ for g_ in got if g_ and g_.endswith("_out") and g_ not in loops.values()})
            ctx.ob("R-ENUM", f, "objective sums over all questions and answers", cover == sorted(pred_positions),
                   "four nested loops over both players' questions and answers" if cover == sorted(pred_positions) else f"objective loops cover roles {cover}", n)
            # measurement operators indexed [question, answer] of the right player
            for g in groups:
                subs = [s for s in subterms(t) if isinstance(s, tuple) and s and s[0] == "sub" and s[1] == ("n", g)]
                if subs:
                    gi = subs[0][2]
                    gr = tuple(loops.get(x[1]) if x[0] == "n" else None for x in gi[1:]) if gi[0] == "tuple" else ()
                    want = ("A_in", "A_out") if g == groups[0] else ("B_in", "B_out")
                    ctx.ob("R-ENUM", f, f"{g} indexed [question, answer] of its own player", gr == want,
                           f"{g}[{want[0]}, {want[1]}]" if gr == want else f"{g} subscripts have roles {gr}", n)
            break
    if n_terms == 0:
        # is there an accumulation into the objective at all?  then it must be weighted by the predicate's VALUE
        from ..dataflow import origins
        og = origins(f)
        obj_names = set()
        for p in sk.probs:
            if p.objective_node is not None:
                obj_names |= og.of(p.objective_node)
        accs = [n for n in walk_no_nested(f.node) if isinstance(n, ast.AugAssign) and isinstance(n.target, ast.Name) and n.target.id in obj_names]
        if accs:
            ctx.ob("R-ENUM", f, "predicate indexed V[a, b, x, y] by role", False,
                   f"`{unparse(accs[0])[:80]}` accumulates the objective without the predicate value V(a,b|x,y) as a factor: every term counts as a full win "
                   "(fractional predicates are rounded up to 1)", accs[0])
        else:
            ctx.ob("R-ENUM", f, "predicate indexed V[a, b, x, y] by role", None, "objective accumulation not recognised", required=False)


def _nonsignaling(ctx, f, role_names=("A_out", "B_out", "A_in", "B_in")):
    m = ctx.model
    sk = Skeleton(m, f)
    from ..sdp import r_full_range_families
    r_full_range_families(ctx, f, sk)
    roles = shape_roles(m, f, roles=role_names)
    if not sk.probs:
        ctx.ob("R-SDP", f, "problem constructed", None, "no cvxpy.Problem", required=False)
        return
    p = sk.probs[0]
    ctx.ob("R-SDP", f, "objective sense == max", p.sense == "max", "Maximize" if p.sense == "max" else f"sense {p.sense}", p.node)
    d = sk.dangling()
    ctx.ob("R-SDP", f, "S1 every constraint reaches the problem", not d, "all constraints passed" if not d else f"`{unparse(d[0].node)[:60]}` never reaches Problem", d[0].node if d else None)
    ok, det, nd = psd_ok(sk, "k_var")
    ctx.ob("R-SDP", f, "K(a,b|x,y) >= 0 for every index", ok, det, nd)
    fam = {("k_var", "sigma"): (["B_out"], ["A_in", "A_out", "B_in"]), ("k_var", "rho"): (["A_out"], ["A_in", "B_in", "B_out"]),
           ("sigma", "tau"): (["A_out"], ["A_in"]), ("rho", "tau"): (["B_out"], ["B_in"])}
    for (grp, tgt), (summed_w, free_w) in fam.items():
        scs = [s for s in sum_constraints(sk, grp) if s["reaching"] and s["rel"] == "==" and mentions_name(s["other"], tgt)]
        good = False
        why = f"no reaching equality `sum {grp} == {tgt}`"
        nd = None
        for s in scs:
            summed = sorted(filter(None, (range_role(x, roles) for x in s["summed"])))
            free = sorted(filter(None, (range_role(x, roles) for x in s["free"])))
            nd = s["con"].node
            if summed == summed_w and free == free_w:
                good = True
            else:
                why = f"sum over {summed} for each {free}; expected sum over {summed_w} for each {free_w}"
        ctx.ob("R-SDP", f, f"marginal family: sum over {summed_w[0]} of {grp} == {tgt}", good, "present for every remaining index" if good else why, nd)
    ok, det, nd = psd_ok(sk, "tau")
    ctx.ob("R-SDP", f, "tau PSD", ok, det, nd)
    tr = [c for c in sk.reaching()[0] if c.rel == "==" and {repr(c.lhs), repr(c.rhs)} == {repr(("call", "cvxpy.trace", (("n", "tau"),), ())), repr(("c", 1))}]
    ctx.ob("R-SDP", f, "trace(tau) == 1", bool(tr), "normalised" if tr else "normalisation of tau missing")
    _objective_terms(ctx, f, sk, roles, ())
    rets, N = return_terms(m, f, inline=True)
    oks = any("solve" in repr(t) for _, _, t in rets)
    ctx.ob("R-SDP", f, "S3 returns the optimum of this problem", oks, "problem.solve() is returned" if oks else "returned value does not come from problem.solve()")


def _npa(ctx, f):
    m = ctx.model
    sk = Skeleton(m, f)
    from ..sdp import r_full_range_families
    r_full_range_families(ctx, f, sk)
    roles = shape_roles(m, f)
    if not sk.probs:
        ctx.ob("R-SDP", f, "problem constructed", None, "no cvxpy.Problem", required=False)
        return
    p = sk.probs[0]
    ctx.ob("R-SDP", f, "objective sense == max", p.sense == "max", "Maximize" if p.sense == "max" else f"sense {p.sense}", p.node)
    # the list returned by npa_constraints is the one handed to Problem
    npa_names = set()
    for n in walk_no_nested(f.node):
        if isinstance(n, ast.Assign) and isinstance(n.value, ast.Call) and m.resolve_call(f, n.value).key.endswith("npa_constraints"):
            npa_names |= {x.id for x in ast.walk(n.targets[0]) if isinstance(x, ast.Name)}
            b = m.bind(n.value, m.resolve_call(f, n.value).func)
            okk = isinstance(b.get("k"), ast.AST) and unparse(b["k"]) == "k"
            ctx.ob("R-THREAD", f, "hierarchy level k reaches npa_constraints", okk, "level forwarded" if okk else "level not forwarded", n)
            oka = isinstance(b.get("assemblage"), ast.Name) and b["assemblage"].id in {v.name for v in sk.vars}
            ctx.ob("R-THREAD", f, "the objective's variables are the ones constrained", oka, "npa_constraints(mat, k) on the objective's variables" if oka else "npa constraints are built for different variables", n)
    okc = bool(npa_names & set(p.containers))
    ctx.ob("R-SDP", f, "S1 NPA constraints reach the problem", okc, "Problem(objective, npa)" if okc else "the list returned by npa_constraints is not passed to Problem", p.node)
    # variable per question pair with shape (answers A, answers B)
    for v in sk.vars:
        rr = sorted(filter(None, (range_role(repr(it), roles) for _, it, _ in v.loops)))
        ctx.ob("R-SDP", f, "one correlation block per question pair", rr == ["A_in", "B_in"], "mat[x, y] for all x, y" if rr == ["A_in", "B_in"] else f"blocks declared over {rr}", v.node)
        sh = v.shape
        oksh = sh is not None and sh[0] == "tuple" and len(sh) == 3
        if oksh:
            r0 = [roles.get(x[1]) for x in sh[1:] if x[0] == "n"]
            N = Normalizer(m, f, inline=False)
            shn = N(v.node.value.args[0]) if isinstance(v.node, ast.Assign) and isinstance(v.node.value, ast.Call) and v.node.value.args else None
            r0 = [roles.get(x[1]) if x[0] == "n" else None for x in shn[1:]] if shn and shn[0] == "tuple" else r0
            ctx.ob("R-SHAPE", f, "block shape == (answers of Alice, answers of Bob)", r0 == ["A_out", "B_out"], "(alice_out, bob_out)" if r0 == ["A_out", "B_out"] else f"block shape roles {r0}", v.node)
    # objective entry mat[x, y][a, b]
    N = Normalizer(m, f, inline=False)
    for n in walk_no_nested(f.node):
        if isinstance(n, ast.AugAssign) and "pred_mat" in unparse(n.value):
            t = N(n.value)
            loops = {}
            for lp in walk_no_nested(f.node):
                if isinstance(lp, ast.For) and isinstance(lp.target, ast.Name) and any(x is n for x in ast.walk(lp)):
                    loops[lp.target.id] = range_role(repr(N(lp.iter)), roles)
            ent = [s for s in subterms(t) if isinstance(s, tuple) and s and s[0] == "sub" and s[1][0] == "sub" and s[1][1] == ("n", "mat")]
            if ent:
                outer = tuple(loops.get(x[1]) for x in ent[0][1][2][1:])
                inner = tuple(loops.get(x[1]) for x in ent[0][2][1:])
                ok = outer == ("A_in", "B_in") and inner == ("A_out", "B_out")
                ctx.ob("R-ENUM", f, "objective entry mat[x, y][a, b] by role", ok, "mat[x, y][a, b]" if ok else f"entry roles {outer} / {inner}", n)
    _objective_terms(ctx, f, sk, roles, ())
    rets, Nn = return_terms(m, f, inline=True)
    oks = any("solve" in repr(t) for _, _, t in rets)
    ctx.ob("R-SDP", f, "S3 returns the optimum of this problem", oks, "problem.solve() is returned" if oks else "returned value does not come from problem.solve()")


def run_npa(ctx):
    from .npa_common import check_npa

    check_npa(ctx)


_run_core = run


def run(ctx):  # noqa: F811
    _run_core(ctx)
    run_npa(ctx)
