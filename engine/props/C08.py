"""C08 -- XOR games and the Bell-inequality maximiser (structural clauses)."""

from __future__ import annotations

import ast
from fractions import Fraction

from .. import flow as flw
from ..model import DEFAULT, MISSING, calls_in, unparse, walk_no_nested
from ..norm import Normalizer, calls_to, kwarg, mentions_name, show, subterms
from ..rules import calls_from, r_effect_free, r_thread, return_terms
from ..sdp import Skeleton, psd_ok


def linear_in(t, sym):
    """term -> (a, b) with value a*sym + b, or None."""
    if t[0] == "c" and isinstance(t[1], (int, float)) and not isinstance(t[1], bool):
        return (Fraction(0), Fraction(t[1]))
    if t == ("n", sym):
        return (Fraction(1), Fraction(0))
    if t[0] == "+":
        a = b = Fraction(0)
        for x in t[1]:
            l = linear_in(x, sym)
            if l is None:
                return None
            a += l[0]
            b += l[1]
        return (a, b)
    if t[0] == "neg":
        l = linear_in(t[1], sym)
        return None if l is None else (-l[0], -l[1])
    if t[0] == "*":
        ls = [linear_in(x, sym) for x in t[1]]
        if any(l is None for l in ls):
            return None
        a, b = Fraction(0), Fraction(1)
        for l in ls:
            if l[0] != 0 and a != 0:
                return None
            a, b = (l[0] * b + a * l[1], b * l[1]) if True else (a, b)
        return (a, b)
    return None


def list_len_linear(t, sym):
    """[c] * k  or [c] + [d] * k  -> linear length."""
    if t[0] == "list":
        return (Fraction(0), Fraction(len(t) - 1))
    if t[0] == "*":
        lists = [x for x in t[1] if x[0] == "list"]
        rest = [x for x in t[1] if x[0] != "list"]
        if len(lists) == 1 and rest:
            k = linear_in(("*", tuple(rest)) if len(rest) > 1 else rest[0], sym)
            if k is None:
                return None
            n = len(lists[0]) - 1
            return (k[0] * n, k[1] * n)
    if t[0] == "+":
        tot = (Fraction(0), Fraction(0))
        for x in t[1]:
            l = list_len_linear(x, sym)
            if l is None:
                return None
            tot = (tot[0] + l[0], tot[1] + l[1])
        return tot
    return None


def _ge_for_all_m(lin, m0=1):
    """a*m + b >= 0 for every integer m >= m0"""
    a, b = lin
    return a >= 0 and a * m0 + b >= 0


def run(ctx):  # noqa: C901
    m = ctx.model
    ctx.rule("R-THREAD", "to_nonlocal_game passes the game's distribution and reps; classical / non-signalling values delegate to it; the quantum value is raised to reps")
    ctx.rule("R-ENUM", "the converted predicate is [f(x,y) == a xor b] over the whole 2 x 2 x q0 x q1 box; D = pi .* (-1)^f for every (x,y)")
    ctx.rule("R-SDP", "Tsirelson dual SDP skeleton; Bell maximiser: all PPT constraints reach the problem, W symmetric / unit trace / PSD")
    ctx.rule("R-BASE", "PPT partitions are converted to 0-based once; swap's 1-based literals lie in 1..len(dim) for every m >= 1")
    ctx.rule("R-GUARD", "constructor validates shape, non-negativity, normalisation with the stored tolerance")
    ctx.rule("R-EFFECT", "no method modifies the game object")
    cls = [c for c in m.classes.values() if c.name == "XORGame"][0]
    init, qv, cv, nsv, tn = (cls.methods[k] for k in ("__init__", "quantum_value", "classical_value", "nonsignaling_value", "to_nonlocal_game"))

    for name, meth in sorted(cls.methods.items()):
        if name == "__init__":
            continue
        from ..effects import effects_on_params
        es = [e for e in effects_on_params(m, meth, [], self_is_owner=True) if e.target.startswith("self:")]
        ctx.ob("R-EFFECT", meth, "no-write:self", not es, "game object unchanged" if not es else f"`{es[0].text}` modifies the game object", es[0].node if es else None)

    # ---- constructor guards ------------------------------------------------------------------------
    N = Normalizer(m, init, inline=False)
    res = flw.flow(init.node)
    g = {"shape": False, "nonneg": False, "sum1": False}
    for rz, facts in res.raises:
        cs = flw.conds(facts)
        if not cs:
            continue
        t = N(cs[-1][0])
        r = repr(t)
        tol_side = "('attr', ('n', 'self'), 'tol')" in r
        if "shape" in r and t[0] == "cmp" and t[1] == "!=":
            g["shape"] = True
        if "numpy.min" in r and tol_side and t[0] == "cmp" and t[1] == "<":
            # -min(prob) > tol   <=>  tol < -min
            g["nonneg"] = t[2] == ("attr", ("n", "self"), "tol") and t[3][0] == "neg"
        if "numpy.sum" in r and "numpy.abs" in r and tol_side and t[0] == "cmp" and t[1] == "<":
            ab = calls_to(t, "numpy.abs")
            g["sum1"] = t[2] == ("attr", ("n", "self"), "tol") and bool(ab) and ab[0][2][0][0] == "+" and ("c", -1) in ab[0][2][0][1]
    for k, v in g.items():
        ctx.ob("R-GUARD", init, f"raising guard: {k}", v, f"{k} validated against self.tol" if v else f"guard `{k}` missing, weakened or not using the tolerance")
    # tol stored: given value used, default otherwise
    stores = [n for n in walk_no_nested(init.node) if isinstance(n, ast.Assign) and unparse(n.targets[0]) == "self.tol"]
    given = any(unparse(n.value) == "tol" for n in stores)
    ctx.ob("R-THREAD", init, "tol->self.tol", given, "a supplied tolerance is stored and used" if given else "the `tol` argument is not stored: guards use a different tolerance")
    # guards come after the tolerance is set
    if stores and res.raises:
        first_raise = min(rz.lineno for rz, _ in res.raises)
        ctx.ob("R-GUARD", init, "tolerance stored before the guards run", max(n.lineno for n in stores) < first_raise,
               "self.tol is set before validation" if max(n.lineno for n in stores) < first_raise else "validation runs before self.tol is set")
    for attr in ("prob_mat", "pred_mat", "reps"):
        ok = any(isinstance(n, ast.Assign) and unparse(n.targets[0]) == f"self.{attr}" and unparse(n.value) == attr for n in walk_no_nested(init.node))
        ctx.ob("R-THREAD", init, f"{attr}->self.{attr}", ok, "stored" if ok else f"`{attr}` is not stored on the object")

    # ---- conversion ----------------------------------------------------------------------------------
    Nt = Normalizer(m, tn, inline=True)
    for c in calls_in(tn.node):
        cal = m.resolve_call(tn, c)
        if cal.kind == "class" and cal.cls.name == "NonlocalGame":
            b = m.bind(c, cal.func)
            okp = isinstance(b.get("prob_mat"), ast.AST) and unparse(b["prob_mat"]) == "self.prob_mat"
            okr = isinstance(b.get("reps"), ast.AST) and unparse(b["reps"]) == "self.reps"
            ctx.ob("R-THREAD", tn, "self.prob_mat->NonlocalGame.prob_mat", okp, "same question distribution" if okp else "the converted game uses a different distribution", c)
            ctx.ob("R-THREAD", tn, "self.reps->NonlocalGame.reps", okr, "same number of repetitions" if okr else
                   "`reps` is not forwarded: classical / non-signalling values are those of the single-shot game", c)
    stores = [n for n in walk_no_nested(tn.node) if isinstance(n, ast.Assign) and isinstance(n.targets[0], ast.Subscript) and
              isinstance(n.targets[0].slice, ast.Tuple) and len(n.targets[0].slice.elts) == 4]
    if stores:
        n = stores[0]
        idx = [unparse(e) for e in n.targets[0].slice.elts]
        loops = {}
        for lp in walk_no_nested(tn.node):
            if isinstance(lp, ast.For) and isinstance(lp.target, ast.Name) and any(x is n for x in ast.walk(lp)):
                loops[lp.target.id] = Nt(lp.iter)
        v = Normalizer(m, tn, inline=True)(n.value)
        a, b, x, y = idx
        want = ("cmp", "==", *sorted([("^", tuple(sorted([("n", a), ("n", b)], key=repr))), ("sub", ("attr", ("n", "self"), "pred_mat"), ("tuple", ("n", x), ("n", y)))], key=repr))
        ctx.ob("R-ENUM", tn, "V[a,b,x,y] == [f(x,y) == a xor b]", v == want, "predicate is the XOR condition" if v == want else f"stored predicate is {show(v)[:100]}", n)
        r2 = ("call", "builtins.range", (("c", 2),), ())
        okl = loops.get(a) == r2 and loops.get(b) == r2 and all(k in loops for k in (x, y))
        okq = okl and "prob_mat" in repr(loops.get(x)) and "prob_mat" in repr(loops.get(y)) and "('c', 0)" in repr(loops[x]) and "('c', 1)" in repr(loops[y])
        ctx.ob("R-ENUM", tn, "conversion fills the whole 2 x 2 x q0 x q1 box", bool(okq), "a,b in {0,1}; x < q0; y < q1" if okq else f"loops: { {k: show(v2)[:30] for k, v2 in loops.items()} }", n)
    else:
        ctx.ob("R-ENUM", tn, "V[a,b,x,y] == [f(x,y) == a xor b]", None, "predicate store not recognised", required=False)
    for f, callee in ((cv, "classical_value"), (nsv, "nonsignaling_value")):
        rets, Nf = return_terms(m, f, inline=True)
        ok = False
        for rn, facts, t in rets:
            ok = t[0] == "call" and isinstance(t[1], tuple) and t[1][0] == "attr" and t[1][2] == callee and t[1][1][0] == "call" and \
                (t[1][1][1] == ("attr", ("n", "self"), "to_nonlocal_game") or (isinstance(t[1][1][1], str) and t[1][1][1].endswith("to_nonlocal_game")))
        ctx.ob("R-THREAD", f, f"delegates to to_nonlocal_game().{callee}()", ok, "same value as the converted general game" if ok else "does not delegate to the converted game")

    # the converted game the values are delegated to: its value methods must leave the game object alone as well (a
    # NonlocalGame obtained from to_nonlocal_game() is asked for several values in a row; an in-place weighting of its
    # predicate makes every later value wrong)
    ng = [c for c in m.classes.values() if c.name == "NonlocalGame"]
    if ng:
        from ..effects import effects_on_params
        for name in ("classical_value", "nonsignaling_value", "commuting_measurement_value_upper_bound", "quantum_value_lower_bound"):
            meth = ng[0].methods.get(name)
            if meth is None:
                continue
            es = [e for e in effects_on_params(m, meth, [], self_is_owner=True) if e.target.startswith("self:")]
            ctx.ob("R-EFFECT", meth, "no-write:self", not es, "converted game unchanged" if not es else f"`{es[0].text}` modifies the game object", es[0].node if es else None)

    # ---- quantum value SDP -----------------------------------------------------------------------------
    sk = Skeleton(m, qv)
    Nq = Normalizer(m, qv, inline=True)
    Nn = Normalizer(m, qv, inline=False)
    roles = {}
    for n in walk_no_nested(qv.node):
        if isinstance(n, ast.Assign) and isinstance(n.targets[0], ast.Tuple) and unparse(n.value) == "self.prob_mat.shape":
            roles = {n.targets[0].elts[0].id: "q0", n.targets[0].elts[1].id: "q1"}
    for n in walk_no_nested(qv.node):
        if isinstance(n, ast.Assign) and isinstance(n.targets[0], ast.Subscript) and isinstance(n.targets[0].value, ast.Name) and n.targets[0].value.id == "d_mat":
            idx = n.targets[0].slice
            t = Nn(n.value)
            x, y = [unparse(e) for e in idx.elts]
            P = ("sub", ("attr", ("n", "self"), "prob_mat"), ("tuple", ("n", x), ("n", y)))
            F = ("sub", ("attr", ("n", "self"), "pred_mat"), ("tuple", ("n", x), ("n", y)))
            want = ("*", tuple(sorted([P, ("**", ("c", -1), F)], key=repr)))
            ctx.ob("R-ENUM", qv, "D[x,y] == pi[x,y] * (-1)**f[x,y]", t == want, "same (x,y) for distribution and predicate" if t == want else f"D entry is {show(t)[:90]}", n)
            loops = [Nn(lp.iter) for lp in walk_no_nested(qv.node) if isinstance(lp, ast.For) and any(z is n for z in ast.walk(lp))]
            rr = sorted(roles.get(l[2][0][1], "?") for l in loops if l[0] == "call" and l[2] and l[2][0][0] == "n")
            ctx.ob("R-ENUM", qv, "D filled for every question pair", rr == ["q0", "q1"], "all (x, y)" if rr == ["q0", "q1"] else f"loops over {rr}", n)
    vs = {v.name: v for v in sk.vars}
    for nm, role in (("u_vec", "q0"), ("v_vec", "q1")):
        v = vs.get(nm)
        if v is None:
            ctx.ob("R-SDP", qv, f"{nm} declared", None, "variable not found", required=False)
            continue
        shn = Nn(v.node.value.args[0]) if v.node.value.args else None
        oks = shn is not None and shn[0] == "n" and roles.get(shn[1]) == role
        okr = v.attrs.get("complex", ("c", False)) == ("c", False)
        ctx.ob("R-SDP", qv, f"{nm}: real vector with one entry per question of its player", bool(oks and okr),
               f"Variable({show(shn)})" if oks and okr else f"{nm} declared with shape {show(shn) if shn else '?'} complex={show(v.attrs.get('complex', ('c', False)))}", v.node)
    if sk.probs:
        p = sk.probs[0]
        ctx.ob("R-SDP", qv, "objective sense == min (dual Tsirelson program)", p.sense == "min", "Minimize" if p.sense == "min" else f"sense {p.sense}", p.node)
        ot = p.objective
        oko = ot is not None and ot[0] == "+" and set(map(repr, ot[1])) == {repr(("call", "cvxpy.sum", (("n", "u_vec"),), ())), repr(("call", "cvxpy.sum", (("n", "v_vec"),), ()))}
        ctx.ob("R-SDP", qv, "objective == sum(u) + sum(v)", bool(oko), "sum(u) + sum(v)" if oko else f"objective {show(ot)[:60] if ot else '?'}", p.node)
        d = sk.dangling()
        ctx.ob("R-SDP", qv, "S1 every constraint reaches the problem", not d, "ok" if not d else f"`{unparse(d[0].node)[:50]}` never reaches Problem")
        blk = [c for c in sk.reaching()[0] if c.rel == ">>" and c.rhs == ("c", 0) and c.lhs[0] == "call" and c.lhs[1] == "cvxpy.bmat"]
        if blk:
            rows = blk[0].lhs[2][0]
            ok = rows[0] == "list" and len(rows) == 3
            if ok:
                (a11, a12), (a21, a22) = rows[1][1:], rows[2][1:]
                d1 = a11 == ("call", "cvxpy.diag", (("n", "u_vec"),), ())
                d2 = a22 == ("call", "cvxpy.diag", (("n", "v_vec"),), ())
                o1 = a12 == ("neg", ("n", "d_mat"))
                o2 = a21 in (("call", "numpy.negative", (("dag", ("n", "d_mat")),), ()), ("neg", ("dag", ("n", "d_mat"))), ("neg", ("T", ("n", "d_mat"))),
                             ("call", "numpy.negative", (("T", ("n", "d_mat")),), ()))
                ok = d1 and d2 and o1 and o2
            ctx.ob("R-SDP", qv, "[[diag u, -D], [-D^T, diag v]] >= 0", bool(ok), "block matrix of the dual program" if ok else f"block constraint is {show(blk[0].lhs)[:120]}", blk[0].node)
        else:
            ctx.ob("R-SDP", qv, "[[diag u, -D], [-D^T, diag v]] >= 0", False, "the PSD block constraint does not reach the problem")
    rets, _ = return_terms(m, qv, inline=False)
    from fractions import Fraction as _F
    val = val2 = ("+", tuple(sorted([("*", tuple(sorted([("c", _F(1, 4)), ("real", ("attr", ("n", "problem"), "value"))], key=repr))), ("c", _F(1, 2))], key=repr)))
    n_plain = n_pow = 0
    for rn, facts, t in rets:
        if t in (val, val2):
            n_plain += 1
        elif t[0] == "**" and t[1] in (val, val2) and t[2] == ("attr", ("n", "self"), "reps"):
            n_pow += 1
        else:
            ctx.ob("R-SDP", qv, "value == optimum/4 + 1/2 (to the power reps)", False, f"returns {show(t)[:100]}", rn)
    if n_plain + n_pow == len(rets):
        ctx.ob("R-SDP", qv, "value == optimum/4 + 1/2 (to the power reps)", n_pow >= 1,
               "bias/2 + 1/2, raised to self.reps" if n_pow else "the repeated-game value is not raised to the power reps")

    # ---- Bell inequality maximiser --------------------------------------------------------------------
    bm = m.func("bell_inequality_max.bell_inequality_max")
    sb = Skeleton(m, bm)
    Nb = Normalizer(m, bm, inline=False)
    if sb.probs:
        p = sb.probs[0]
        ctx.ob("R-SDP", bm, "objective sense == max", p.sense == "max", "Maximize" if p.sense == "max" else f"sense {p.sense}", p.node)
        d = sb.dangling()
        ctx.ob("R-SDP", bm, "S1 every constraint (incl. PPT) reaches the problem", not d, "ok" if not d else f"`{unparse(d[0].node)[:50]}` never reaches Problem")
        ok, det, nd = psd_ok(sb, "W")
        ctx.ob("R-SDP", bm, "W >= 0", ok, det, nd)
        tr = [c for c in sb.reaching()[0] if c.rel == "==" and {repr(c.lhs), repr(c.rhs)} == {repr(("call", "cvxpy.trace", (("n", "W"),), ())), repr(("c", 1))}]
        ctx.ob("R-SDP", bm, "trace(W) == 1", bool(tr), "normalised" if tr else "normalisation missing")
        ppt = [c for c in sb.reaching()[0] if c.rel == ">>" and c.rhs == ("c", 0) and mentions_name(c.lhs, "pt_matrix")]
        okp = bool(ppt) and len(ppt[0].loops) == 2
        ctx.ob("R-SDP", bm, "PPT constraint for every partition size and every partition", okp, "appended inside both loops" if okp else "PPT constraints missing or hoisted out of the loops", ppt[0].node if ppt else None)
        for v in sb.vars:
            if v.name == "W":
                oks = v.attrs.get("symmetric") == ("c", True) or v.attrs.get("hermitian") == ("c", True) or v.attrs.get("PSD") == ("c", True)
                sq = v.shape is not None and v.shape[0] == "tuple" and v.shape[1] == v.shape[2]
                ctx.ob("R-SDP", bm, "W symmetric and square", bool(oks and sq), "Variable((n, n), symmetric=True)" if oks and sq else f"W declared {show(v.shape)} {sorted(v.attrs)}", v.node)
        rets, _ = return_terms(m, bm, inline=False)
        okv = all(t == ("attr", ("n", "prob"), "value") for _, _, t in rets)
        ctx.ob("R-SDP", bm, "S3 returns the optimum", okv, "prob.value" if okv else "returned value is not the problem's optimum")
        solv = [c for c in sb.solves]
        oks = any(any(kw.arg == "solver" and unparse(kw.value) == "solver_name" for kw in c.keywords) for c in solv)
        ctx.ob("R-THREAD", bm, "solver_name->solve(solver=)", oks, "forwarded" if oks else "the requested solver is ignored")
    # partial transpose of W on 0-based partitions
    for c, cal in calls_from(m, bm, "partial_transpose.partial_transpose"):
        b = m.bind(c, cal.func)
        st = Nb(b["sys"])
        if st[0] == "n":
            from ..rules import value_at
            st = value_at(m, bm, st[1], c, Nb) or st
        # comp over combinations(range(s, ...)) with elt = var + k  => s + k must be 0
        shift = start = None
        if st[0] == "comp" and len(st[3]) == 1:
            e = st[2][0]
            if e[0] == "+" and len(e[1]) == 2:
                k = [x for x in e[1] if x[0] == "c"]
                shift = k[0][1] if k else None
            elif e[0] == "b":
                shift = 0
        for lp in walk_no_nested(bm.node):
            if isinstance(lp, ast.For) and any(x is c for x in ast.walk(lp)):
                it = Nb(lp.iter)
                if it[0] == "call" and it[1] == "itertools.combinations" and it[2] and it[2][0][0] == "call" and it[2][0][1] == "builtins.range":
                    ra = it[2][0][2]
                    start = ra[0][1] if len(ra) >= 2 and ra[0][0] == "c" else 0 if len(ra) == 1 else None
        if shift is None or start is None:
            ctx.ob("R-BASE", bm, "PPT partition converted to 0-based exactly once", None, "partition construction not recognised", c, required=False)
        else:
            ctx.ob("R-BASE", bm, "PPT partition converted to 0-based exactly once", start + shift == 0,
                   f"range starts at {start}, shifted by {shift}: subsystem 0 is included" if start + shift == 0 else
                   f"partitions start at {start} and are shifted by {shift}: 0-based subsystem numbering of partial_transpose is off by {start + shift}", c)
        ctx.ob("R-THREAD", bm, "partial transpose acts on W", isinstance(b.get("rho"), ast.Name) and b["rho"].id == "W", "partial_transpose(W, ...)" if isinstance(b.get("rho"), ast.Name) and b["rho"].id == "W" else "PPT constraint is on another operator", c)
    # swaps: 1-based entries within 1..len(dim)
    for c, cal in calls_from(m, bm, "swap.swap"):
        b = m.bind(c, cal.func)
        st, dt = Nb(b["sys"]), Nb(b["dim"])
        ln = list_len_linear(dt, "m")
        if st[0] != "list" or ln is None:
            ctx.ob("R-BASE", bm, f"swap sys within 1..len(dim): {unparse(b['sys'])}", None, "not linear in m", c, required=False)
            continue
        bad = None
        for e in st[1:]:
            le = linear_in(e, "m")
            if le is None:
                bad = "nonlinear"
                continue
            if not _ge_for_all_m((le[0], le[1] - 1)):
                bad = f"entry {show(e)} can be < 1"
            if not _ge_for_all_m((ln[0] - le[0], ln[1] - le[1])):
                bad = f"entry {show(e)} can exceed the number of subsystems {show(dt)}"
        ctx.ob("R-BASE", bm, f"swap sys within 1..len(dim): {unparse(b['sys'])}", bad is None if bad != "nonlinear" else None,
               "1-based and in range for every m >= 1" if bad is None else bad, c, required=bad != "nonlinear")
    # two-outcome guard
    N2 = Normalizer(m, bm, inline=False)
    res = flw.flow(bm.node)
    okg = any(flw.conds(f) and "builtins.len" in repr(N2(flw.conds(f)[-1][0])) and "('c', 2)" in repr(N2(flw.conds(f)[-1][0])) for _, f in res.raises)
    ctx.ob("R-GUARD", bm, "only two-outcome inequalities accepted", okg, "len(a_val) != 2 or len(b_val) != 2 raises" if okg else "two-outcome guard missing")
    # measurement operators a*I + (-1)^a P with 0-based perms exchanging 0 and x: the two operands of the Kronecker product that is
    # accumulated into the objective matrix (found by position, through the locals that may name them)
    n_ops = 0
    kr = [c for n in walk_no_nested(bm.node) if isinstance(n, ast.AugAssign) and isinstance(n.target, ast.Name) and n.target.id == "obj_mat"
          for c in ast.walk(n.value) if isinstance(c, ast.Call) and m.resolve_call(bm, c).key == "numpy.kron" and len(c.args) == 2]
    for c in kr[:1]:
        for who, arg in zip(("a", "b"), c.args):
            src = arg
            if isinstance(arg, ast.Name):
                dfs = [n for n in walk_no_nested(bm.node) if isinstance(n, ast.Assign) and len(n.targets) == 1 and isinstance(n.targets[0], ast.Name) and n.targets[0].id == arg.id]
                dfs = sorted([d_ for d_ in dfs if d_.lineno <= c.lineno], key=lambda d_: d_.lineno)
                src = dfs[-1].value if dfs else arg
            if "permutation_operator" not in unparse(src):
                continue
            t = N2(src)
            ok = t[0] == "+" and any(x[0] == "*" and ("n", who) in x[1] and any(y[0] == "call" and y[1] in ("numpy.eye", "numpy.identity") for y in x[1]) for x in t[1]) and \
                any(x[0] == "*" and ("**", ("c", -1), ("n", who)) in x[1] and any(y[0] == "call" and str(y[1]).endswith("permutation_operator") for y in x[1]) for x in t[1])
            ctx.ob("R-ENUM", bm, f"outcome-{who} operator == {who}*I + (-1)^{who} * P", ok, "projector pair from the swap unitary" if ok else f"operator is {show(t)[:100]}", src)
            n_ops += 1
    if not n_ops:
        ctx.ob("R-ENUM", bm, "outcome operators == o*I + (-1)^o * P", None, "the construction of the extended measurement operators is not in the recognised form", required=False)
    # coefficient families: all five reach the objective matrix, and none is stored into an array typed by another
    from ..dataflow import origins
    from ..rules import r_dtype_cross_param
    ogb = origins(bm)
    data = ["joint_coe", "a_coe", "b_coe", "a_val", "b_val"]
    missing = [p_ for p_ in data if p_ not in ogb.of_names({"obj_mat"})]
    ctx.ob("R-LIVE", bm, "joint, marginal coefficients and outcome values all reach the objective matrix", not missing,
           "5 families flow into obj_mat" if not missing else f"{missing} never reach obj_mat: those terms of the inequality are dropped")
    r_dtype_cross_param(ctx, bm, params=data)
    # coverage: the accumulation runs over the full grid of outcomes (2 x 2) and settings (m x m); the marginal terms are attached
    # to the pairs (x, 1) and (1, y), so a data-dependent iteration (only non-zero joint coefficients) silently drops marginals
    for acc in walk_no_nested(bm.node):
        if isinstance(acc, ast.AugAssign) and isinstance(acc.target, ast.Name) and acc.target.id == "obj_mat":
            loops = [lp for lp in walk_no_nested(bm.node) if isinstance(lp, ast.For) and any(x is acc for x in ast.walk(lp))]
            its = [Nb(lp.iter) for lp in loops]
            full_m = [t for t in its if t in (("call", "builtins.range", (("c", 1), ("+", (("c", 1), ("n", "m")))), ()), ("call", "builtins.range", (("n", "m"),), ()))]
            two = [t for t in its if t == ("call", "builtins.range", (("c", 2),), ())]
            def _value_dep(expr, depth=0):
                """does the expression read the VALUES (not just the shape / length) of a coefficient family?"""
                for x in ast.walk(expr):
                    if isinstance(x, ast.Name) and x.id in data:
                        # allowed: <param>.shape / len(<param>)
                        par_ok = any((isinstance(p_, ast.Attribute) and p_.value is x and p_.attr in ("shape", "size", "ndim")) or
                                     (isinstance(p_, ast.Call) and isinstance(p_.func, ast.Name) and p_.func.id == "len" and p_.args and p_.args[0] is x) for p_ in ast.walk(expr))
                        if not par_ok:
                            return True
                    elif isinstance(x, ast.Name) and depth < 2 and bm.param(x.id) is None:
                        for d_ in walk_no_nested(bm.node):
                            if isinstance(d_, ast.Assign) and any(isinstance(t_, ast.Name) and t_.id == x.id for tg_ in d_.targets for t_ in ast.walk(tg_)) and d_.value is not expr:
                                if _value_dep(d_.value, depth + 1):
                                    return True
                return False
            datadep = [lp for lp in loops if _value_dep(lp.iter)]
            # data-dependent skips: `if <coefficient test>: continue` ahead of the accumulation, or the accumulation nested under
            # such a test -- same effect as a data-dependent iterator
            skips = []
            for lp in loops:
                for st in lp.body:
                    if any(x is acc for x in ast.walk(st)):
                        if isinstance(st, ast.If) and _value_dep(st.test):
                            skips.append(st)
                        break
                    if isinstance(st, ast.If) and _value_dep(st.test) and any(isinstance(x, (ast.Continue, ast.Break)) for x in ast.walk(st)):
                        skips.append(st)
            par_ifs = [n_ for n_ in walk_no_nested(bm.node) if isinstance(n_, ast.If) and any(x is acc for x in ast.walk(n_)) and _value_dep(n_.test)
                       and any(any(y is n_ for y in ast.walk(lp)) for lp in loops)]
            skips += [x for x in par_ifs if x not in skips]
            if skips and not datadep:
                ctx.ob("R-ENUM", bm, "objective accumulates over all outcomes (2 x 2) and all setting pairs (m x m)", False,
                       f"`if {unparse(skips[0].test)[:50]}:` (line {skips[0].lineno}) skips setting pairs according to the coefficient values: the marginal terms a_coe[x], b_coe[y] "
                       "ride on the pairs (x, 1) and (1, y) and are dropped with them when that joint coefficient is zero", skips[0])
                break
            okc = len(full_m) == 2 and len(two) == 2 and not datadep
            ctx.ob("R-ENUM", bm, "objective accumulates over all outcomes (2 x 2) and all setting pairs (m x m)", True if okc else False if (datadep or len(loops) < 4 or all(t[0] == "call" and t[1] == "builtins.range" for t in its)) else None,
                   "four nested full ranges" if okc else
                   (f"`for {unparse(datadep[0].target)} in {unparse(datadep[0].iter)[:50]}` makes the set of setting pairs depend on the coefficient values: pairs with a zero "
                    "joint coefficient are skipped together with the marginal terms attached to them" if datadep else f"accumulation is nested in {len(loops)} loop(s) {[show(t)[:30] for t in its]}"),
                   acc, required=okc or bool(datadep) or len(loops) < 4 or all(t[0] == "call" and t[1] == "builtins.range" for t in its))
            break
    from .npa_common import check_npa
    check_npa(ctx)
