"""Structural obligations on toqito/helper/npa_hierarchy.py shared by C07 / C08 / C09."""

from __future__ import annotations

import ast

from ..model import unparse, walk_no_nested
from ..norm import Normalizer, mentions_name, show, subterms
from ..rules import calls_from
from ..sdp import Skeleton, psd_ok


def _block_index(sl, N):
    """slice  X*r : (X+1)*r  ->  term of X ; None otherwise."""
    if not isinstance(sl, ast.Slice) or sl.lower is None or sl.upper is None:
        return None
    lo, hi = N(sl.lower), N(sl.upper)
    if lo[0] != "*" or not any(x == ("n", "referee_dim") for x in lo[1]):
        return None
    xs = [x for x in lo[1] if x != ("n", "referee_dim")]
    if len(xs) != 1:
        return None
    X = xs[0]
    # hi must be (X + 1) * r
    ok = hi[0] == "*" and any(x == ("n", "referee_dim") for x in hi[1]) and any(
        x[0] == "+" and ("c", 1) in x[1] and X in x[1] for x in hi[1])
    return X if ok else ("BAD", X, hi)


def _role_of(t, player_ctx):
    r = repr(t)
    if t == ("c", 0):
        return "0"
    if "s_a" in r or "a_ans" in r or "alice" in r:
        return "A"
    if "s_b" in r or "b_ans" in r or "bob" in r:
        return "B"
    if "symbol" in r:
        return player_ctx or "?"
    return "?"


def check_npa(ctx, rule_prefix="R-SDP"):
    m = ctx.model
    f = m.func("npa_hierarchy.npa_constraints")
    N = Normalizer(m, f, inline=False)
    sk = Skeleton(m, f)
    ctx.ob(rule_prefix, f, "returns the collected constraint list", "constraints" in sk.returned,
           "return constraints" if "constraints" in sk.returned else f"returns {sk.returned}")
    d = sk.dangling()
    ctx.ob(rule_prefix, f, "S1 every NPA constraint is in the returned list", not d, "all appended to the returned list" if not d else
           f"`{unparse(d[0].node)[:70]}` is constructed but not returned", d[0].node if d else None)
    ok, det, nd = psd_ok(sk, "r_var")
    ctx.ob(rule_prefix, f, "moment matrix R >= 0", ok, det, nd)
    for v in sk.vars:
        if v.name == "r_var":
            sh = v.shape
            sq = sh is not None and sh[0] == "tuple" and len(sh) == 3 and sh[1] == sh[2]
            herm = v.attrs.get("hermitian") == ("c", True) or v.attrs.get("symmetric") == ("c", True) or v.attrs.get("PSD") == ("c", True)
            ctx.ob("R-SHAPE", f, "moment matrix is square and declared Hermitian", bool(sq and herm),
                   f"Variable({show(sh)}, hermitian=True)" if sq and herm else f"moment matrix declared {show(sh) if sh else '?'} with attrs {sorted(v.attrs)}", v.node)
    norm = [c for c in sk.reaching()[0] if c.rel == "==" and ("c", 1) in (c.lhs, c.rhs) and (mentions_name(c.lhs, "norm") or mentions_name(c.rhs, "norm") or "r_var" in repr(c.sides()))]
    ctx.ob(rule_prefix, f, "normalisation of the moment matrix", bool(norm), "sum of the (eps, eps) entries == 1" if norm else "normalisation constraint missing")

    # --- families keyed by their governing condition -------------------------------------------------
    fam = {"zero": None, "meas": None, "one-player-A": None, "one-player-B": None, "seen": None}
    for c in sk.reaching()[0]:
        cs = " & ".join(("" if pol else "not ") + unparse(t) for t, pol in c.cond)
        if c.rel == "==" and "sub_mat" in repr(c.sides()):
            if "_is_zero(word)" in cs and "not _is_zero" not in cs and c.rhs == ("c", 0) or (c.lhs == ("c", 0) and "_is_zero(word)" in cs):
                fam["zero"] = c
            elif cs.endswith("_is_meas(word)"):
                fam["meas"] = c
            elif "symbol.player == 'Alice'" in cs and "_is_meas_on_one_player(word)" in cs:
                fam["one-player-A"] = c
            elif "symbol.player == 'Bob'" in cs and "_is_meas_on_one_player(word)" in cs:
                fam["one-player-B"] = c
            elif "word in seen" in cs:
                fam["seen"] = c
            elif "_is_meas_on_one_player(word)" in cs and "symbol.player" not in cs:
                # one constraint after an if/else on the player: the compared value is a local bound in both arms
                other = c.rhs if "sub_mat" in repr(c.lhs) else c.lhs
                if other[0] == "n":
                    arms = [st for st in walk_no_nested(f.node) if isinstance(st, ast.If) and "symbol.player" in unparse(st.test) and st.orelse and
                            all(any(isinstance(a, ast.Assign) and any(isinstance(t_, ast.Name) and t_.id == other[1] for t_ in a.targets) for a in ast.walk(ast.Module(body=blk, type_ignores=[])))
                                for blk in (st.body, st.orelse))]
                    if arms:
                        fam["one-player-A"] = fam["one-player-A"] or c
                        fam["one-player-B"] = fam["one-player-B"] or c
    for k, c in fam.items():
        ctx.ob(rule_prefix, f, f"moment-matrix family `{k}` present", c is not None,
               f"`{unparse(c.node)[:60]}`" if c is not None else f"the `{k}` family of moment-matrix constraints no longer reaches the returned list")

    # --- assemblage subscripts: rows are Alice's answer block, columns Bob's ----------------------------
    n_sub = 0
    bad = []
    for n in walk_no_nested(f.node):
        if isinstance(n, ast.Subscript) and isinstance(n.value, ast.Subscript) and isinstance(n.value.value, ast.Name) and \
                n.value.value.id == "assemblage" and isinstance(n.slice, ast.Tuple) and len(n.slice.elts) == 2:
            q = n.value.slice
            if not (isinstance(q, ast.Tuple) and len(q.elts) == 2):
                continue
            # player context: innermost enclosing `symbol.player == "X"`
            pctx = None
            from .. import flow as flw
            hit = flw.find_stmt_of(f.node, n)
            if hit:
                for t, pol in flw.conds(hit[1]):
                    u = unparse(t)
                    if pol and u == "symbol.player == 'Alice'":
                        pctx = "A"
                    if pol and u == "symbol.player == 'Bob'":
                        pctx = "B"
            rs, cs_ = n.slice.elts
            if isinstance(rs, ast.Slice):
                rb, cb = _block_index(rs, N), _block_index(cs_, N)
                if rb is None or cb is None:
                    continue
                n_sub += 1
                if (isinstance(rb, tuple) and rb and rb[0] == "BAD") or (isinstance(cb, tuple) and cb and cb[0] == "BAD"):
                    bad.append((n, "block slice is not X*r:(X+1)*r"))
                    continue
                roles = (_role_of(N(q.elts[0]), pctx), _role_of(N(q.elts[1]), pctx), _role_of(rb, pctx), _role_of(cb, pctx))
            else:
                # entry form [i + a*r, i + b*r]
                rt, ct = N(rs), N(cs_)
                n_sub += 1
                roles = (_role_of(N(q.elts[0]), pctx), _role_of(N(q.elts[1]), pctx), _role_of(rt, pctx), _role_of(ct, pctx))
            if roles[0] not in ("A", "0", "?") or roles[1] not in ("B", "0", "?") or roles[2] not in ("A", "?") or roles[3] not in ("B", "?"):
                bad.append((n, f"index roles (question_A, question_B, row block, column block) = {roles}"))
    ctx.ob("R-ENUM", f, "assemblage[x, y][Alice block, Bob block] everywhere", not bad if n_sub >= 6 else None,
           f"{n_sub} subscripts index (x, y) then (Alice's answer block, Bob's answer block)" if not bad else
           f"`{unparse(bad[0][0])[:80]}`: {bad[0][1]}", bad[0][0] if bad else None, required=n_sub >= 6)

    # --- sums over answer blocks of the assemblage range over ALL answers of the player whose block index is summed --------
    #     (row block = Alice's answer, column block = Bob's answer; structural, independent of local names)
    def _base_is_assemblage(expr, depth=0):
        if isinstance(expr, ast.Subscript) and isinstance(expr.value, ast.Name) and expr.value.id == "assemblage":
            return True
        if isinstance(expr, ast.Name) and depth < 2:
            defs = [a.value for a in walk_no_nested(f.node) if isinstance(a, ast.Assign) and len(a.targets) == 1 and isinstance(a.targets[0], ast.Name) and a.targets[0].id == expr.id]
            return bool(defs) and all(_base_is_assemblage(d_, depth + 1) for d_ in defs)
        return False

    n_sums = 0
    for call in walk_no_nested(f.node):
        if not (isinstance(call, ast.Call) and isinstance(call.func, ast.Name) and call.func.id == "sum" and call.args and isinstance(call.args[0], (ast.GeneratorExp, ast.ListComp))):
            continue
        ge = call.args[0]
        elt = ge.elt
        if not (isinstance(elt, ast.Subscript) and isinstance(elt.slice, ast.Tuple) and len(elt.slice.elts) == 2 and _base_is_assemblage(elt.value)) or len(ge.generators) != 1:
            continue
        gv = {x.id for x in ast.walk(ge.generators[0].target) if isinstance(x, ast.Name)}
        pos = [i for i, e in enumerate(elt.slice.elts) if gv & {x.id for x in ast.walk(e) if isinstance(x, ast.Name)}]
        if len(pos) != 1:
            continue
        n_sums += 1
        want_rng = "a_out" if pos[0] == 0 else "b_out"
        who = "Alice" if pos[0] == 0 else "Bob"
        it = N(ge.generators[0].iter)
        ok = it == ("call", "builtins.range", (("n", want_rng),), ()) and not ge.generators[0].ifs
        ctx.ob("R-ENUM", f, f"marginal over {who}'s answer blocks sums over range({want_rng})", ok, "all answers of the summed player" if ok else
               f"`{unparse(ge)[:90]}` sums the {'row' if pos[0] == 0 else 'column'} blocks ({who}'s answers) over `{unparse(ge.generators[0].iter)}`: the marginal misses or over-runs {who}'s answer set "
               "whenever the two players have different numbers of answers", call)
    if n_sums < 2:
        ctx.ob("R-ENUM", f, "marginals over answer blocks recognised", None, f"only {n_sums} block sums found", required=False)
    # --- assemblage block constraints ---------------------------------------------------------------------
    blocks = [c for c in sk.reaching()[0] if c.rel == ">>" and "assemblage" in repr(c.lhs) and c.rhs == ("c", 0)]
    want = {"range(a_in)", "range(b_in)", "range(a_out)", "range(b_out)"}
    got = {unparse(lp[2].iter) for c in blocks for lp in c.loops}
    ctx.ob(rule_prefix, f, "every referee block K(a,b|x,y) >= 0", bool(blocks) and want <= got,
           "PSD for all x, y, a, b" if blocks and want <= got else f"block PSD constraints range over {sorted(got)}", blocks[0].node if blocks else None)
    tr = [c for c in sk.reaching()[0] if c.rel == "==" and ("c", 1) in (c.lhs, c.rhs) and "sum_all_meas_and_trace" in repr(c.sides())]
    okt = bool(tr) and {unparse(lp[2].iter) for lp in tr[0].loops} == {"range(a_in)", "range(b_in)"}
    ctx.ob(rule_prefix, f, "each question pair's assemblage has total trace 1", okt, "sum_{a,b} Tr K(a,b|x,y) == 1 for all x, y" if okt else "normalisation per question pair missing or mis-scoped")
    # accumulation covers all answers
    for n in walk_no_nested(f.node):
        if isinstance(n, ast.AugAssign) and isinstance(n.target, ast.Name) and n.target.id == "sum_all_meas_and_trace":
            loops = [unparse(lp.iter) for lp in walk_no_nested(f.node) if isinstance(lp, ast.For) and any(x is n for x in ast.walk(lp))]
            ok = {"range(a_out)", "range(b_out)"} <= set(loops)
            ctx.ob("R-ENUM", f, "trace normalisation accumulates over all answer pairs", ok, "loops over a and b" if ok else f"accumulation loops {loops}", n)
    # marginal consistency
    mc = [c for c in sk.reaching()[0] if c.rel == "==" and "sum_first_question" in repr(c.sides()) and "sum_cur_question" in repr(c.sides())]
    def _scope_iters(c):
        out = []
        for lp in c.loops:
            it = lp[2].iter
            # itertools.product(r1, r2, ...) is the nest of loops over r1, r2, ...
            if isinstance(it, ast.Call) and getattr(it.func, "attr", getattr(it.func, "id", "")) == "product" and not it.keywords:
                out += [unparse(a) for a in it.args]
            else:
                out.append(unparse(it))
        return tuple(sorted(out))
    scopes = [_scope_iters(c) for c in mc]
    # the same family written as a list of marginals compared with its first element:
    #     ms = [S(q) for q in range(R)] ; constraints.extend(ms[0] == v for v in ms[1:])     ==     for q in range(1, R): S(0) == S(q)
    for call in walk_no_nested(f.node):
        if not (isinstance(call, ast.Call) and isinstance(call.func, ast.Attribute) and call.func.attr in ("extend",) and len(call.args) == 1
                and isinstance(call.args[0], (ast.GeneratorExp, ast.ListComp)) and len(call.args[0].generators) == 1 and not call.args[0].generators[0].ifs):
            continue
        g = call.args[0]
        gv, git = g.generators[0].target, g.generators[0].iter
        e = g.elt
        if not (isinstance(e, ast.Compare) and len(e.ops) == 1 and isinstance(e.ops[0], ast.Eq) and isinstance(gv, ast.Name)):
            continue
        sides = [e.left, e.comparators[0]]
        var_side = [x for x in sides if isinstance(x, ast.Name) and x.id == gv.id]
        ref_side = [x for x in sides if isinstance(x, ast.Subscript) and isinstance(x.value, ast.Name) and isinstance(x.slice, ast.Constant) and x.slice.value == 0]
        if not (var_side and ref_side and isinstance(git, ast.Subscript) and isinstance(git.value, ast.Name) and git.value.id == ref_side[0].value.id
                and isinstance(git.slice, ast.Slice) and isinstance(git.slice.lower, ast.Constant) and git.slice.lower.value == 1 and git.slice.upper is None and git.slice.step is None):
            continue
        lname = git.value.id
        ldefs = [n for n in walk_no_nested(f.node) if isinstance(n, ast.Assign) and len(n.targets) == 1 and isinstance(n.targets[0], ast.Name) and n.targets[0].id == lname]
        if len(ldefs) != 1 or not (isinstance(ldefs[0].value, ast.ListComp) and len(ldefs[0].value.generators) == 1 and not ldefs[0].value.generators[0].ifs):
            continue
        lit = ldefs[0].value.generators[0].iter
        if not (isinstance(lit, ast.Call) and isinstance(lit.func, ast.Name) and lit.func.id == "range" and len(lit.args) == 1):
            continue
        enclosing = [unparse(lp.iter) for lp in walk_no_nested(f.node) if isinstance(lp, ast.For) and any(x is call for x in ast.walk(lp)) and any(x is ldefs[0] for x in ast.walk(lp))]
        scopes.append(tuple(sorted(enclosing + [f"range(1, {unparse(lit.args[0])})"])))
    okb = ("range(1, a_in)", "range(b_in)", "range(b_out)") in [tuple(sorted(s)) for s in scopes]
    oka = ("range(1, b_in)", "range(a_in)", "range(a_out)") in [tuple(sorted(s)) for s in scopes]
    ctx.ob(rule_prefix, f, "Bob's marginal independent of Alice's question (all y, b, x>0)", okb, "present" if okb else f"scopes found: {scopes}")
    ctx.ob(rule_prefix, f, "Alice's marginal independent of Bob's question (all x, a, y>0)", oka, "present" if oka else f"scopes found: {scopes}")

    # --- parameter extraction and word generation -----------------------------------------------------------
    g = m.func("npa_hierarchy._get_nonlocal_game_params")
    Ng = Normalizer(m, g, inline=True)
    from ..rules import return_terms
    rets, _ = return_terms(m, g, inline=False)
    ret_names = [x[1] if x[0] == "n" else None for x in rets[0][2][1:]] if rets and rets[0][2][0] == "tuple" else []
    for n in walk_no_nested(f.node):
        if isinstance(n, ast.Assign) and isinstance(n.value, ast.Call) and m.resolve_call(f, n.value).key.endswith("_get_nonlocal_game_params") and isinstance(n.targets[0], ast.Tuple):
            tg = [e.id for e in n.targets[0].elts if isinstance(e, ast.Name)]
            # positions where the callee returns a bare name must be unpacked into the same name; positions returned as expressions
            # (an inlined local) carry no name to compare
            okb_ = len(tg) == len(ret_names) and all(r is None or r == t_ for r, t_ in zip(ret_names, tg)) and sum(r is not None for r in ret_names) >= 2
            ctx.ob("R-BIND", f, "(a_out, a_in, b_out, b_in) unpacked in the order returned", okb_,
                   f"{tg}" if okb_ else f"unpacked as {tg} but returned as {ret_names}", n)
            b = m.bind(n.value, m.resolve_call(f, n.value).func)
            ctx.ob("R-THREAD", f, "referee_dim reaches the parameter extraction", isinstance(b.get("referee_dim"), ast.Name) and b["referee_dim"].id == "referee_dim",
                   "forwarded" if isinstance(b.get("referee_dim"), ast.Name) else "referee_dim not forwarded: answer counts are mis-derived for referee dimension > 1", n)
    for c, cal in calls_from(m, f, "_gen_words"):
        b = m.bind(c, cal.func)
        bad2 = [k for k, v in b.items() if isinstance(v, ast.Name) and k in ("a_out", "a_in", "b_out", "b_in", "k") and v.id != k]
        ctx.ob("R-BIND", f, "_gen_words receives (k, a_out, a_in, b_out, b_in) by name", not bad2, "positional order matches" if not bad2 else f"arguments bound crosswise: {bad2}", c)
    # a_out = shape[0] / referee_dim ; b_out = shape[1] / referee_dim
    for n in walk_no_nested(g.node):
        if isinstance(n, ast.Assign) and isinstance(n.targets[0], ast.Name) and n.targets[0].id in ("a_out", "b_out"):
            t = Normalizer(m, g, inline=False)(n.value)
            want_ix = 0 if n.targets[0].id == "a_out" else 1
            r = repr(t)
            ok = f"('c', {want_ix})" in r and "shape" in r and "referee_dim" in r and "'/'" in r
            ctx.ob("R-SHAPE", g, f"{n.targets[0].id} == operator.shape[{want_ix}] / referee_dim", ok, "answer count from the block structure" if ok else f"`{unparse(n)}`", n)
    gw = m.func("npa_hierarchy._gen_words")
    for n in walk_no_nested(gw.node):
        if isinstance(n, ast.Assign) and isinstance(n.targets[0], ast.Name) and n.targets[0].id in ("a_symbols", "b_symbols") and isinstance(n.value, ast.ListComp):
            who = n.targets[0].id[0]
            its = [unparse(g2.iter) for g2 in n.value.generators]
            ok = its == [f"range({who}_in)", f"range({who}_out - 1)"]
            ctx.ob("R-ENUM", gw, f"{n.targets[0].id}: all questions, all but the last answer", ok, f"{its}" if ok else
                   f"symbols range over {its}; the relaxation needs every question and out-1 independent projectors", n)
            elt = unparse(n.value.elt)
            okp = ("'Alice'" in elt) == (who == "a")
            ctx.ob("R-BIND", gw, f"{n.targets[0].id} labelled with the right player", okp, elt if okp else f"{elt}", n)
