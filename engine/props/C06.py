"""C06 -- channel predicates decide by definition; built-in channels are what they claim (structural clauses)."""

from __future__ import annotations

import ast

from .. import flow as flw
from ..base import check_call_bases
from ..dataflow import origins
from ..model import calls_in, unparse, walk_no_nested
from ..norm import Normalizer, calls_to, kwarg, mentions_name, show, subterms
from ..rules import (calls_from, kraus_sandwich_terms, r_effect_free, r_guard_interval, r_live, r_thread, r_tol_forward,
                     return_terms)

DISPATCHERS = ("kraus_to_choi", "apply_channel", "channel_dim", "partial_channel", "choi_to_kraus")


def _final_return(m, f):
    rets, N = return_terms(m, f)
    return rets, N


def pred_skeleton(ctx, f, conj_callees, subject, rule="R-PRED"):
    """The last return is the conjunction of calls to `conj_callees`, each applied to the subject."""
    m = ctx.model
    rets, N = return_terms(m, f)
    # the definitional return: the one whose term calls the named predicates
    cand = [(rn, t) for rn, facts, t in rets if any(calls_to(t, c) for c in conj_callees)]
    key = " and ".join(conj_callees)
    if not cand:
        ctx.ob(rule, f, key, False, f"no return combines {conj_callees}")
        return
    rn, t = cand[-1]
    parts = list(t[1]) if t[0] == "and" else [t]
    if t[0] == "or":
        ctx.ob(rule, f, key, False, f"verdict is a disjunction {show(t)[:100]}; the definition is a conjunction", rn)
        return
    seen = set()
    ok = True
    msg = []
    for p in parts:
        neg = p[0] == "not"
        q = p[1] if neg else p
        hit = [c for c in conj_callees if q[0] == "call" and isinstance(q[1], str) and q[1].endswith("." + c)]
        if not hit:
            ok = False
            msg.append(f"unexpected conjunct {show(p)[:60]}")
            continue
        if neg:
            ok = False
            msg.append(f"{hit[0]} is negated")
        seen.add(hit[0])
        args = [v for _, v in q[3]] + list(q[2])
        if not any(a == ("n", subject) or mentions_name(a, subject) for a in args[:1] + [dict(q[3]).get(k) for k in ("mat", "phi", "rho") if dict(q[3]).get(k)]):
            ok = False
            msg.append(f"{hit[0]} is not applied to `{subject}`")
    missing = [c for c in conj_callees if c not in seen]
    if missing:
        ok = False
        msg.append(f"conjunct(s) {missing} dropped")
    ctx.ob(rule, f, key, ok, f"verdict == {' and '.join(conj_callees)} on `{subject}`" if ok else "; ".join(msg), rn)


def list_dispatch(ctx, f, pname="phi", rule="R-SIB", via=None):
    """A predicate accepting Kraus lists must hand the list to a canonical dispatcher (which implements the
    shared three-way classifier) before any element-wise interpretation."""
    m = ctx.model
    N = Normalizer(m, f, inline=False)
    og = origins(f)
    disp = []
    for c in calls_in(f.node):
        cal = m.resolve_call(f, c)
        if cal.kind == "repo" and cal.func.name in DISPATCHERS:
            if any(og.derives_from(a, pname) for a in list(c.args) + [k.value for k in c.keywords]):
                disp.append(cal.func.name)
    delegates = set()
    if via:
        for c in calls_in(f.node):
            cal = m.resolve_call(f, c)
            if cal.kind == "repo" and cal.func.name in via and any(isinstance(a, ast.Name) and a.id == pname for a in list(c.args) + [k.value for k in c.keywords]):
                delegates.add(cal.func.name)
    # element-wise interpretation of the list by the predicate itself: iteration / tuple-unpacking of pname
    own = []
    for n in walk_no_nested(f.node):
        if isinstance(n, (ast.comprehension, ast.For)) and isinstance(n.iter, ast.Name) and n.iter.id == pname:
            own.append(n)
    key = "list input goes through the shared representation classifier"
    if own:
        own.sort(key=lambda g: not isinstance(g.target, ast.Tuple))
        tg = own[0].target
        from .C04 import canonical_classifier, classifier_core
        from ..rules import bool_equiv
        core, _ = classifier_core(m, f, pname)
        if isinstance(tg, ast.Tuple) and core is not None and bool_equiv(core, canonical_classifier()):
            # both non-pair forms (flat list, singleton-nested / single row) must be CONVERTED to pairs [K, K] before the unpacking
            conv = [n for n in walk_no_nested(f.node) if isinstance(n, ast.Assign) and len(n.targets) == 1 and isinstance(n.targets[0], ast.Name) and n.targets[0].id == pname
                    and isinstance(n.value, ast.ListComp) and isinstance(n.value.elt, (ast.List, ast.Tuple)) and len(n.value.elt.elts) == 2
                    and unparse(n.value.elt.elts[0]) == unparse(n.value.elt.elts[1])]
            okc = len(conv) >= 2
            ctx.ob(rule, f, key, okc, "own pair handling, preceded by the shared three-way classifier with both conversions to [K, K] pairs" if okc else
                   f"only {len(conv)} of the two non-pair Kraus forms (flat list, singleton-nested list) is converted to [K, K] pairs before `for {unparse(tg)} in {pname}` unpacks pairs", own[0].iter)
        elif isinstance(tg, ast.Tuple):
            ctx.ob(rule, f, key, False,
                   f"`for {unparse(tg)} in {pname}` unpacks every list element as a pair: flat ([K1,..]) and singleton-nested ([[K1],..]) "
                   f"Kraus lists accepted by apply_channel/kraus_to_choi are mis-read here", own[0].iter)
        elif not disp:
            ctx.ob(rule, f, key, False,
                   f"`for {unparse(tg)} in {pname}` interprets the list itself as one fixed form, without the shared classifier and "
                   "without delegating to kraus_to_choi / apply_channel / channel_dim: the other accepted list forms are mis-read", own[0].iter)
        else:
            ctx.ob(rule, f, key, None, "own element-wise handling of the list next to a dispatcher call", own[0].iter, required=False)
    elif disp:
        ctx.ob(rule, f, key, True, f"list inputs are handed to {sorted(set(disp))}")
    elif delegates and via is not None:
        # the list is handed on, untouched, to sibling predicates that carry this obligation themselves; every use of the
        # parameter must be such a hand-over (or a type test), and the parameter is never re-bound
        uses = [n for n in ast.walk(f.node) if isinstance(n, ast.Name) and n.id == pname and isinstance(n.ctx, ast.Load)]
        handed = {id(a) for c in calls_in(f.node) for a in list(c.args) + [k.value for k in c.keywords]
                  if isinstance(a, ast.Name) and a.id == pname and m.resolve_call(f, c).kind == "repo" and m.resolve_call(f, c).func.name in via}
        tests = {id(c.args[0]) for c in calls_in(f.node) if isinstance(c.func, ast.Name) and c.func.id == "isinstance" and c.args}
        rebound = any(isinstance(n, ast.Name) and n.id == pname and isinstance(n.ctx, ast.Store) for n in ast.walk(f.node))
        other = [u for u in uses if id(u) not in handed and id(u) not in tests]
        ok = not other and not rebound and bool(handed)
        ctx.ob(rule, f, key, ok, f"`{pname}` is handed unchanged to {sorted(delegates)}, which classify the list themselves" if ok else
               f"`{pname}` is also used outside the hand-over to {sorted(delegates)} (line {other[0].lineno if other else '?'})", None)
    else:
        ctx.ob(rule, f, key, None, "no list handling found", required=False)


def run(ctx):
    m = ctx.model
    ctx.rule("R-PRED", "boolean skeleton of each definitional predicate over its named sub-predicates on the same subject")
    ctx.rule("R-TOL", "rtol/atol forwarded to every tolerance-taking callee in matching roles")
    ctx.rule("R-SIB", "every predicate accepts the representations apply_channel accepts (delegation to a canonical dispatcher)")
    ctx.rule("R-BASE", "is_trace_preserving.sys is 1-based and decremented once for partial_trace")
    ctx.rule("R-KIND", "declared parameter kinds are all handled")
    ctx.rule("R-GUARD", "documented parameter ranges are enforced before the Kraus construction; 2x2 input check before application")
    ctx.rule("R-COV", "apply forms use K rho Dagger(K); Kraus sums use Dagger on the left factor")
    ctx.rule("R-ENUM", "is_extremal ranges over all ordered pairs and compares the rank with r*r")

    P = lambda n: m.func(f"channel_props.{n}.{n}")  # noqa: E731
    iqc, icp, ihp, itp, iun, ipo = P("is_quantum_channel"), P("is_completely_positive"), P("is_herm_preserving"), \
        P("is_trace_preserving"), P("is_unital"), P("is_positive")
    iu = m.func("channel_props.is_unitary.is_unitary")
    cr, iex = P("choi_rank"), P("is_extremal")

    pred_skeleton(ctx, iqc, ["is_completely_positive", "is_trace_preserving"], "phi")
    pred_skeleton(ctx, icp, ["is_herm_preserving", "is_positive_semidefinite"], "phi")
    pred_skeleton(ctx, ihp, ["is_hermitian"], "phi")
    pred_skeleton(ctx, ipo, ["is_positive_semidefinite"], "phi")
    # is_unital: is_identity(apply_channel(identity(dim_in), phi))
    rets, N = return_terms(m, iun)
    for rn, facts, t in rets:
        ok = t[0] == "call" and t[1].endswith(".is_identity")
        inner = dict(t[3]).get("mat") if ok else None
        ok2 = ok and inner is not None and inner[0] == "call" and inner[1].endswith(".apply_channel")
        if ok2:
            d = dict(inner[3])
            matarg = d.get("mat")
            ok2 = matarg is not None and matarg[0] == "call" and matarg[1] in ("numpy.identity", "numpy.eye") and d.get("phi_op") == ("n", "phi")
        ctx.ob("R-PRED", iun, "is_identity(apply_channel(identity, phi))", bool(ok2),
               "unital iff Phi(I) == I" if ok2 else f"verdict is {show(t)[:120]}", rn)
    from .C04 import _channel_dim_roles
    _channel_dim_roles(ctx, iun)
    r_thread(ctx, iun, "dim", "channel_dim.channel_dim")
    # is_trace_preserving: is_identity(mat)
    rets, N = return_terms(m, itp, inline=False)
    for rn, facts, t in rets:
        ok = t[0] == "call" and t[1].endswith(".is_identity")
        ctx.ob("R-PRED", itp, "is_identity(Tr_out J) / is_identity(sum A^+ B)", ok, "trace preserving iff the partial trace over the output is I" if ok else f"verdict {show(t)[:100]}", rn)
    Ni = Normalizer(m, itp)
    for n in walk_no_nested(itp.node):
        if isinstance(n, ast.Assign) and isinstance(n.targets[0], ast.Name) and n.targets[0].id == "mat" and isinstance(n.value, ast.BinOp):
            t = Ni(n.value)
            ok = t[0] == "@" and len(t[1]) == 2 and t[1][0][0] == "dag"
            ctx.ob("R-COV", itp, "Kraus form: Dagger(L) @ R", ok, "sum_i A_i^+ B_i via stacked blocks" if ok else f"{show(t)[:100]} lacks the dagger on the left block", n)
    check_call_bases(ctx, itp, "partial_trace.partial_trace", "sys")
    r_thread(ctx, itp, "dim", "partial_trace.partial_trace")
    r_thread(ctx, itp, "phi", "partial_trace.partial_trace", formal="input_mat")
    p = itp.param("sys")
    ctx.ob("R-BASE", itp, "default sys == 2 (output subsystem, 1-based)", isinstance(p.default, ast.Constant) and p.default.value == 2,
           "the output factor of an (in, out) Choi matrix is traced" if isinstance(p.default, ast.Constant) and p.default.value == 2 else "default sys changed")
    # R-KIND: sys: int | list[int]
    ann = unparse(p.annotation) if p.annotation is not None else ""
    if "list" in ann:
        arith = [n for n in walk_no_nested(itp.node) if isinstance(n, ast.BinOp) and isinstance(n.left, ast.Name) and n.left.id == "sys"]
        handled = any(isinstance(n, ast.Call) and isinstance(n.func, ast.Name) and n.func.id == "isinstance" and n.args and
                      isinstance(n.args[0], ast.Name) and n.args[0].id == "sys" for n in walk_no_nested(itp.node))
        if arith and not handled:
            ctx.ob("R-KIND", itp, "sys: list[int] alternative handled", False,
                   f"`sys` is declared `{ann}` but `{unparse(arith[0])}` is applied without discriminating the list alternative (TypeError for a list)", arith[0])
        else:
            ctx.ob("R-KIND", itp, "sys: list[int] alternative handled", True, "list alternative discriminated or no scalar arithmetic")
    else:
        ctx.ob("R-KIND", itp, "sys: list[int] alternative handled", True, f"`sys` is declared `{ann}`")
    # choi_rank
    rets, N = return_terms(m, cr)
    for rn, facts, t in rets:
        ok = t[0] == "call" and t[1] == "numpy.linalg.matrix_rank" and t[2] and t[2][0] == ("n", "phi")
        ctx.ob("R-PRED", cr, "matrix_rank(Choi matrix)", ok, "rank of the Choi matrix" if ok else f"returns {show(t)[:80]}", rn)
        if ok:
            # matrix_rank(.., hermitian=True) reads one triangle only: the Choi matrix of a map that is not Hermiticity preserving
            # (paired Kraus operators [[A, B]], A != B) is not Hermitian, and its rank would be computed from half of its entries
            hk = kwarg(t, "hermitian")
            okh = hk is None or hk == ("c", False)
            ctx.ob("R-PRED", cr, "the rank is computed from the whole Choi matrix (no hermitian=True shortcut)", okh,
                   "general (SVD) rank" if okh else f"matrix_rank(phi, hermitian={show(hk)}): only the lower triangle is read; for X -> U X V^+ (rank 1) the answer becomes d^2", rn)

    for f in (iqc, icp, ihp, ipo, itp, iun):
        r_tol_forward(ctx, f)
    # a Choi matrix computed from Kraus operators has lost d_in / d_out; is_trace_preserving (partial_trace with dim=None) then
    # assumes d_in == d_out == sqrt(size) -- wrong or an InvalidDim error for isometric / rectangular channels (F52)
    for f in (iqc, icp, ihp, ipo, iun, cr, iex):
        ogf = origins(f)
        k2c = set()
        for n in walk_no_nested(f.node):
            if isinstance(n, ast.Assign) and isinstance(n.value, ast.Call) and (m.resolve_call(f, n.value).key or "").endswith("kraus_to_choi.kraus_to_choi"):
                k2c |= {x.id for t in n.targets for x in ast.walk(t) if isinstance(x, ast.Name)}
        bad = None
        sites = 0
        for c in calls_in(f.node):
            cal = m.resolve_call(f, c)
            if cal.kind == "repo" and cal.func.name == "is_trace_preserving":
                sites += 1
                b = m.bind(c, cal.func)
                a = b.get("phi")
                dimb = b.get("dim")
                from_k2c = isinstance(a, ast.AST) and (({x.id for x in ast.walk(a) if isinstance(x, ast.Name)} & k2c) or
                                                       any(isinstance(x, ast.Call) and (m.resolve_call(f, x).key or "").endswith("kraus_to_choi.kraus_to_choi") for x in ast.walk(a)))
                if from_k2c and not isinstance(dimb, ast.AST):
                    bad = c
        if sites:
            ctx.ob("R-KIND", f, "no Choi matrix built from Kraus operators reaches is_trace_preserving without its dimensions", bad is None,
                   f"{sites} call(s), the Kraus list (or a caller's Choi matrix) is passed as given" if bad is None else
                   f"`{unparse(bad)[:70]}`: the operand may be kraus_to_choi(list) and `dim` is left to its default (equal input and output dimension): "
                   "a channel with d_in != d_out (4 x 2 isometric Kraus operators) raises InvalidDim or is judged with the wrong partial trace", bad)
    checked = (iqc, icp, ihp, ipo, itp, cr)
    for f in checked:
        list_dispatch(ctx, f, via={g.name for g in checked if g is not f})
    for f in (iqc, icp, ihp, ipo, itp, iun, cr):
        r_effect_free(ctx, f, ["phi"])

    # Counting Kraus operators (is_unitary: exactly one; is_extremal: rank == r^2, Choi's criterion) presupposes a LINEARLY INDEPENDENT family.
    # A caller's list may repeat an operator or carry zero operators ([X/sqrt2, X/sqrt2] is the unitary channel X . X; amplitude_damping()
    # returns [k0, k1, 0, 0]); the family that is counted has to come out of choi_to_kraus (a minimal family) on every path.
    _minimal_family(ctx, iu, "phi")
    _minimal_family(ctx, iex, "kraus_ops")
    # is_unitary (channel): unique Kraus operator which is a unitary matrix
    rets, N = return_terms(m, iu, inline=False)
    last = rets[-1][2] if rets else None
    ok = last is not None and last[0] == "call" and last[1].endswith("matrix_props.is_unitary.is_unitary")
    ctx.ob("R-PRED", iu, "verdict is is_unitary(matrix) of the single Kraus operator", ok, "delegates to the matrix predicate" if ok else f"returns {show(last) if last else '?'}")
    single = any(isinstance(n, ast.Compare) and unparse(n) in ("len(phi) != 1", "len(phi) == 1", "1 != len(phi)") for n in walk_no_nested(iu.node))
    ctx.ob("R-PRED", iu, "more than one Kraus operator => not unitary", single, "len(phi) != 1 returns False" if single else "the single-operator test is gone")

    # is_extremal
    Ne = Normalizer(m, iex)
    rets, _ = return_terms(m, iex)
    fin = [t for rn, facts, t in rets if t[0] == "cmp"]
    if fin:
        t = fin[-1]
        # matrix_rank(M) == r*r with r = len(kraus_ops)
        sides = [t[2], t[3]]
        rank = [s for s in sides if s[0] == "call" and s[1] == "numpy.linalg.matrix_rank"]
        other = [s for s in sides if s not in rank]
        isL = lambda x: x[0] == "call" and x[1] == "builtins.len" and len(x[2]) == 1  # noqa: E731  (the count of whatever holds the operators)
        o0 = other[0] if other else None
        ok = bool(rank) and o0 is not None and t[1] == "==" and ((o0[0] == "*" and len(o0[1]) == 2 and isL(o0[1][0]) and o0[1][0] == o0[1][1]) or
                                                                  (o0[0] == "**" and isL(o0[1]) and o0[2] == ("c", 2)))
        ctx.ob("R-ENUM", iex, "rank compared with r*r", bool(ok), "rank({A_i^+ A_j}) == r^2" if ok else f"verdict {show(t)[:120]}")
        if rank:
            tolv = kwarg(rank[0], "tol")
            ctx.ob("R-THREAD", iex, "tol->matrix_rank", tolv == ("n", "tol"), "tol forwarded" if tolv == ("n", "tol") else "tol not forwarded to matrix_rank")
            # the rank (with its ABSOLUTE singular-value tolerance `tol`) is that of the stacked matrix M itself; its Gram matrix M^+ M has the
            # squared singular values, so the same tol cuts at sqrt(tol): extremal channels with an independence margin between tol and sqrt(tol)
            # (weak amplitude damping, gamma ~ 1e-5) are declared non-extremal
            opnd = rank[0][2][0] if rank[0][2] else None
            gram = opnd is not None and opnd[0] == "@" and len(opnd[1]) == 2 and (opnd[1][0] == ("dag", opnd[1][1]) or opnd[1][1] == ("dag", opnd[1][0]))
            ctx.ob("R-PRED", iex, "the rank is taken of the stacked products themselves, not of their Gram matrix", not gram,
                   "matrix_rank(M, tol)" if not gram else "matrix_rank(M^+ M, tol): singular values are squared while the absolute tolerance is unchanged")
    else:
        ctx.ob("R-ENUM", iex, "rank compared with r*r", None, "final comparison not found", required=False)
    # shortcuts: the only verdict that does not come from the rank test is `True` for a single Kraus operator
    Ne0 = Normalizer(m, iex, inline=True)
    L_ = ("call", "builtins.len", (("n", "kraus_ops"),), ())
    badc = None
    for rn, facts, t in rets:
        if rn is not None and t[0] == "c" and isinstance(t[1], bool):
            cs = [(Ne0(a), b) for a, b in flw.conds(facts)]
            isL_ = lambda x: isinstance(x, tuple) and x and x[0] == "call" and x[1] == "builtins.len" and len(x[2]) == 1  # noqa: E731
            single = any(pol and c_[0] == "cmp" and c_[1] == "==" and ((c_[2] == ("c", 1) and isL_(c_[3])) or (c_[3] == ("c", 1) and isL_(c_[2]))) for c_, pol in cs)
            if not (t[1] is True and single):
                badc = (rn, cs[-1][0] if cs else None)
    ctx.ob("R-PRED", iex, "no verdict bypasses the rank test (except True for a single Kraus operator)", badc is None,
           "only the r == 1 shortcut" if badc is None else
           f"`{unparse(badc[0])}` under `{show(badc[1])[:70] if badc[1] else 'no condition'}` decides extremality without the linear-independence test "
           "(a dimension-counting shortcut is only valid with the INPUT dimension: the products A_i^+ A_j are d_in x d_in)", badc[0] if badc else None)
    for n in walk_no_nested(iex.node):
        if isinstance(n, ast.ListComp) and len(n.generators) == 2 and "@" in repr(Normalizer(m, iex, inline=False)(n.elt)):
            g1, g2 = n.generators
            it_ok = isinstance(g1.iter, ast.Name) and isinstance(g2.iter, ast.Name) and g1.iter.id == g2.iter.id == "kraus_ops" and not g1.ifs and not g2.ifs
            ctx.ob("R-ENUM", iex, "family {A_i^+ A_j} over all ordered pairs", it_ok, "both indices range over all Kraus operators" if it_ok else "pair enumeration restricted", n)
            e = Normalizer(m, iex, inline=False)(n.elt)
            prod = [s for s in subterms(e) if isinstance(s, tuple) and s and s[0] == "@" and len(s[1]) == 2]
            okd = bool(prod) and prod[0][1][0][0] == "dag" and prod[0][1][1][0] in ("b", "n") and prod[0][1][0][1] != prod[0][1][1]
            ctx.ob("R-COV", iex, "family element is Dagger(A_i) @ A_j", okd, "A_i^+ A_j" if okd else f"element {show(e)[:80]}", n)
    r_effect_free(ctx, iex, ["phi"])

    # ---- built-in channels ----------------------------------------------------------------------
    ch = lambda n: m.func(f"channels.{n}.{n}")  # noqa: E731
    ad, pd, bf, pch = ch("amplitude_damping"), ch("phase_damping"), ch("bitflip"), ch("pauli_channel")
    r_guard_interval(ctx, ad, "gamma", 0, 1)
    r_guard_interval(ctx, ad, "prob", 0, 1)
    r_guard_interval(ctx, pd, "gamma", 0, 1)
    r_guard_interval(ctx, bf, "prob", 0, 1)
    ctx.rule("R-SIB", "direct / Kraus forms of the built-in qubit channels agree as polynomial identities in the parameters and the entries of a generic input")
    for f, prm in ((ad, {"gamma", "prob"}), (pd, {"gamma"}), (bf, {"prob"})):
        _symbolic_qubit_channel(ctx, f, prm)
    for f in (ad, pd, bf):
        _apply_form(ctx, f)
        _input_2x2(ctx, f)
        r_effect_free(ctx, f, ["input_mat"])
    # pauli_channel guards
    res = flw.flow(pch.node)
    Np = Normalizer(m, pch, inline=False)
    g = {"nonneg+sum1": False, "len=4^q": False}
    for rz, facts in res.raises:
        cs = flw.conds(facts)
        if not cs:
            continue
        t = Np(cs[-1][0])
        r = repr(t)
        if "builtins.len" not in r and "numpy.any" not in r:
            # a hoisted local (num_ops = len(prob)): look at the inlined test as well
            t = Normalizer(m, pch, inline=True)(cs[-1][0])
            r = repr(t)
        if "numpy.any" in r and "numpy.isclose" in r and "numpy.sum" in r:
            anyc = calls_to(t, "numpy.any")[0]
            neg_ok = anyc[2] and anyc[2][0] == ("cmp", "<", ("n", "prob"), ("c", 0))
            isc = calls_to(t, "numpy.isclose")[0]
            sum_ok = ("c", 1) in isc[2]
            g["nonneg+sum1"] = bool(neg_ok and sum_ok and t[0] == "or")
        if "builtins.len" in r and "**" in r:
            g["len=4^q"] = t[0] == "cmp" and t[1] == "!=" and "('c', 4)" in r
    for k, v in g.items():
        ctx.ob("R-GUARD", pch, f"raising guard: {k}", v, f"{k} enforced" if v else f"guard `{k}` missing or weakened")
    for n in walk_no_nested(pch.node):
        if isinstance(n, ast.GeneratorExp) or isinstance(n, ast.ListComp):
            e = Np(n.elt)
            sw = kraus_sandwich_terms(e)
            if sw and mentions_name(e, "input_mat"):
                ctx.ob("R-COV", pch, "apply form K rho Dagger(K)", all(o for o, _ in sw), "K @ rho @ K^+" if all(o for o, _ in sw) else f"{show(e)[:80]}", n)
    # Kraus weights sqrt(p_j), Choi weights p_j, same index
    for n in walk_no_nested(pch.node):
        if isinstance(n, ast.Call) and isinstance(n.func, ast.Attribute) and n.func.attr == "append" and n.args:
            e = Np(n.args[0])
            if e[0] == "n" or mentions_name(e, "input_mat"):
                continue  # (an append that collects results, not a Kraus operator)
            ok = any(isinstance(s, tuple) and s and s[0] == "call" and s[1] == "numpy.sqrt" and s[2] and s[2][0][0] == "sub" and s[2][0][1] == ("n", "prob") for s in subterms(e))
            if not ok:
                # `for weight, ... in zip(prob, ...)`: the loop variable zipped with prob is prob[j]
                zipped = set()
                for lp_ in walk_no_nested(pch.node):
                    if isinstance(lp_, ast.For) and isinstance(lp_.iter, ast.Call) and getattr(lp_.iter.func, "id", "") == "zip" and isinstance(lp_.target, ast.Tuple) and any(x is n for x in ast.walk(lp_)):
                        for tg_, src_ in zip(lp_.target.elts, lp_.iter.args):
                            if isinstance(tg_, ast.Name) and isinstance(src_, ast.Name) and src_.id == "prob":
                                zipped.add(tg_.id)
                sq = [s for s in subterms(e) if isinstance(s, tuple) and s and s[0] == "call" and s[1] == "numpy.sqrt" and s[2]]
                if any(s[2][0][0] == "n" and s[2][0][1] in zipped for s in sq):
                    ok = True
                elif sq:
                    ok = None  # a square root of something this rule cannot relate to prob
            ctx.ob("R-COV", pch, "Kraus operator weight sqrt(p_j)", ok, "sqrt(prob[j]) * P_j" if ok else f"Kraus weight {show(e)[:60]}", n, required=ok is not None)
    # enumeration of the 4^q Pauli strings: one term per probability, the index vector advanced (base 4) once per term
    Npp = Normalizer(m, pch, inline=False)
    for lp in walk_no_nested(pch.node):
        if isinstance(lp, ast.For) and any(isinstance(x, ast.Call) and m.resolve_call(pch, x).key.endswith("pauli.pauli") for x in ast.walk(lp)):
            okr = Npp(lp.iter) in (("call", "builtins.range", (("call", "builtins.len", (("n", "prob"),), ()),), ()), ("call", "builtins.range", (("**", ("c", 4), ("n", "q")),), ()))
            adv = [x for x in ast.walk(lp) if isinstance(x, ast.Assign) and isinstance(x.value, ast.Call) and m.resolve_call(pch, x.value).key.endswith("update_odometer.update_odometer")]
            oka = False
            if adv:
                b_ = m.bind(adv[0].value, m.resolve_call(pch, adv[0].value).func)
                tgt = adv[0].targets[0].id if isinstance(adv[0].targets[0], ast.Name) else None
                lim = Npp(b_["upper_lim"]) if isinstance(b_.get("upper_lim"), ast.AST) else None
                oka = isinstance(b_.get("old_ind"), ast.Name) and b_["old_ind"].id == tgt and lim is not None and lim[0] == "*" and ("c", 4) in lim[1] and "numpy.ones" in repr(lim)
                used = any(isinstance(x, ast.Call) and m.resolve_call(pch, x).key.endswith("pauli.pauli") and tgt in {y.id for y in ast.walk(x) if isinstance(y, ast.Name)} for x in ast.walk(lp))
                oka = oka and used
            verdict_ = bool(okr and oka)
            if not verdict_ and not adv:
                # the mixed-radix counter written with the standard library: zip(prob, itertools.product(range(4), repeat=q)) -- lexicographic, one per term
                itx = unparse(lp.iter).replace(" ", "")
                if "itertools.product(range(4),repeat=q)" in itx and ("zip(prob," in itx or "enumerate(" in itx):
                    verdict_ = True
                elif "product(" in itx:
                    verdict_ = None
            ctx.ob("R-ENUM", pch, "one Pauli string per probability: index vector advanced base 4 once per term", verdict_,
                   "one Pauli string per probability, in base-4 counting order" if verdict_ else
                   "the index vector is not advanced (or not base 4, or not used by pauli()) inside the loop: every term uses the same Pauli string", lp, required=verdict_ is not None)
    ctx.notes.append("observation: pauli_channel draws from the legacy global RNG for scalar `prob` (outside C06's clauses)")

    # depolarizing / dephasing / reduction / choi: |psi><psi| with dagger, unnormalised
    for nm in ("depolarizing", "dephasing", "reduction", "choi"):
        f = ch(nm)
        Nf = Normalizer(m, f)
        rets, _ = return_terms(m, f)
        for rn, facts, t in rets:
            outer = [s for s in subterms(t) if isinstance(s, tuple) and s and s[0] == "@" and len(s[1]) == 2 and "max_entangled" in repr(s)]
            ok = bool(outer) and all(s[1][1] == ("dag", s[1][0]) for s in outer)
            ctx.ob("R-COV", f, "projector term is psi @ Dagger(psi)", ok if outer else None,
                   "|psi><psi| with conjugate transpose" if ok else f"outer product {show(outer[0])[:80] if outer else '?'}", rn, required=bool(outer))
            mes = calls_to(t, "max_entangled")
            if mes:
                d = dict(mes[0][3])
                okn = d.get("is_normalized") == ("c", False)
                ctx.ob("R-BIND", f, "max_entangled unnormalised", okn, "is_normalized=False (Choi convention sum_ij E_ij (x) Phi(E_ij))" if okn else "normalised maximally entangled state used", rn)
    # depolarizing formula structure: (1-p) I/d + p |psi><psi|
    dp = ch("depolarizing")
    rets, _ = return_terms(m, dp)
    for rn, facts, t in rets:
        ok = t[0] == "+" and len(t[1]) == 2
        if ok:
            a = [x for x in t[1] if "numpy.identity" in repr(x) or "numpy.eye" in repr(x)]
            b = [x for x in t[1] if x not in a]
            ok = len(a) == 1 and len(b) == 1
            if ok:
                # identity term weight (1 - p)/d ; projector term weight p
                wa = repr(a[0])
                ok_a = "('neg', ('n', 'param_p'))" in wa and "'/'" in wa and mentions_name(a[0], "dim")
                ok_b = b[0][0] == "*" and ("n", "param_p") in b[0][1] and "neg" not in repr([x for x in b[0][1] if x[0] != "@"])
                ok = ok_a and ok_b
        ctx.ob("R-PRED", dp, "Choi == (1-p) I/d + p |psi><psi|", ok, "convex mixture of completely depolarising and identity channels" if ok else f"formula {show(t)[:140]}", rn)


def _symbolic_qubit_channel(ctx, f, params):
    """Decide, as identities in the channel parameters and the entries of a generic 2x2 input, that the returned Kraus
    list is complete and that the directly applied form equals sum_i K_i rho K_i^+ (engine/symmat.py)."""
    from ..symmat import Eval, P, Unsupported, first_diff, mat_eq

    m = ctx.model
    rets, N = return_terms(m, f)
    lists = [(rn, t) for rn, _, t in rets if t[0] == "list"]
    direct = [(rn, t) for rn, _, t in rets if t[0] != "list" and mentions_name(t, "input_mat")]
    if not lists:
        ctx.ob("R-PRED", f, "returned Kraus list is complete: sum K^+ K == I (symbolic)", None, "no Kraus-list return found", required=False)
        return
    ev = Eval(params, "input_mat", 2)
    try:
        Ks = [ev.matrix(x) for x in lists[0][1][1:]]
    except Unsupported as exc:
        ctx.ob("R-PRED", f, "returned Kraus list is complete: sum K^+ K == I (symbolic)", None, f"Kraus operators not evaluable symbolically ({exc})", lists[0][0], required=False)
        return
    d = 2
    dagK = [[[K[j][i].conj() for j in range(d)] for i in range(d)] for K in Ks]
    mm = lambda A, B: [[sum((A[i][k] * B[k][j] for k in range(d)), P.c(0)) for j in range(d)] for i in range(d)]  # noqa: E731
    tot = [[P.c(0)] * d for _ in range(d)]
    for K, Kd in zip(Ks, dagK):
        pr = mm(Kd, K)
        tot = [[tot[i][j] + pr[i][j] for j in range(d)] for i in range(d)]
    iden = [[P.c(1 if i == j else 0) for j in range(d)] for i in range(d)]
    okc = mat_eq(tot, iden)
    df = first_diff(tot, iden)
    ctx.ob("R-PRED", f, "returned Kraus list is complete: sum K^+ K == I (symbolic)", okc,
           f"{len(Ks)} operators, identity in {sorted(params)}" if okc else f"entry ({df[0]},{df[1]}) of sum K^+ K is {df[2]} instead of {df[3]}: the returned family is not trace preserving", lists[0][0])
    if not direct:
        ctx.ob("R-SIB", f, "direct application == sum K rho K^+ of the returned Kraus list (symbolic, generic 2x2 input)", None, "no direct-application return found", required=False)
        return
    rho = [[P.sym(f"r{i}{j}") for j in range(d)] for i in range(d)]
    want = [[P.c(0)] * d for _ in range(d)]
    for K, Kd in zip(Ks, dagK):
        pr = mm(mm(K, rho), Kd)
        want = [[want[i][j] + pr[i][j] for j in range(d)] for i in range(d)]
    try:
        ev2 = Eval(params, "input_mat", 2)
        got = ev2.matrix(direct[0][1])
    except Unsupported as exc:
        ctx.ob("R-SIB", f, "direct application == sum K rho K^+ of the returned Kraus list (symbolic, generic 2x2 input)", None, f"direct form not evaluable symbolically ({exc})", direct[0][0], required=False)
        return
    oka = mat_eq(got, want)
    df = first_diff(got, want)
    ctx.ob("R-SIB", f, "direct application == sum K rho K^+ of the returned Kraus list (symbolic, generic 2x2 input)", oka,
           "entrywise identical for every input and every parameter value" if oka else
           f"entry ({df[0]},{df[1]}) of the applied channel is {df[2]} but the returned Kraus operators give {df[3]}: the direct form and the Kraus form are different maps", direct[0][0])


def _apply_form(ctx, f):
    m = ctx.model
    rets, N = return_terms(m, f)
    found = False
    for rn, facts, t in rets:
        sw = kraus_sandwich_terms(t)
        if not sw:
            continue
        found = True
        bad = [s for ok, s in sw if not ok]
        ctx.ob("R-COV", f, "apply form sum K rho Dagger(K)", not bad, f"{len(sw)} terms K @ rho @ K^+" if not bad else f"term {show(bad[0])[:80]} is not K rho K^+", rn)
        # number of sandwich terms equals number of Kraus operators returned in the list form
        lists = [tt for _, _, tt in rets if tt[0] == "list"]
        if lists:
            ctx.ob("R-ENUM", f, "every returned Kraus operator is applied", len(sw) == len(lists[0]) - 1,
                   f"{len(sw)} applied / {len(lists[0]) - 1} returned" , rn)
            # same operators
            applied = {repr(s[1][0]) for _, s in sw}
            listed = {repr(x) for x in lists[0][1:]}
            ctx.ob("R-ENUM", f, "applied operators == returned Kraus list", applied == listed, "direct application and Kraus list agree" if applied == listed else "the direct application uses different operators than the returned list", rn)
    if not found:
        ctx.ob("R-COV", f, "apply form sum K rho Dagger(K)", None, "apply form not recognised", required=False)


def _input_2x2(ctx, f):
    m = ctx.model
    N = Normalizer(m, f, inline=False)
    res = flw.flow(f.node)
    ok = False
    for rz, facts in res.raises:
        cs = flw.conds(facts)
        if cs:
            t = N(cs[-1][0])
            if "shape" in repr(t) and "('tuple', ('c', 2), ('c', 2))" in repr(t) and "!=" in repr(t):
                ok = True
    ctx.ob("R-GUARD", f, "input must be 2x2", ok, "non-2x2 inputs are rejected" if ok else "2x2 input check missing")


def _minimal_family(ctx, f, name):
    m = ctx.model
    key = f"the operators that are counted (`{name}`) form a minimal family (from choi_to_kraus) on every path"
    defs = [n for n in walk_no_nested(f.node) if isinstance(n, ast.Assign) and len(n.targets) == 1 and isinstance(n.targets[0], ast.Name) and n.targets[0].id == name]
    def from_c2k(v):
        return isinstance(v, ast.Call) and (m.resolve_call(f, v).key or "").endswith("choi_to_kraus.choi_to_kraus")
    raw = [d for d in defs if not from_c2k(d.value)]
    is_param = f.param(name) is not None
    if is_param:
        # a parameter: some re-binding through choi_to_kraus must not be confined to the Choi-matrix (ndarray) case
        par_ok = False
        for d in defs:
            if from_c2k(d.value):
                anc = [n for n in walk_no_nested(f.node) if isinstance(n, ast.If) and any(x is d for x in ast.walk(n))]
                if not any("isinstance" in unparse(a.test) and "ndarray" in unparse(a.test) for a in anc):
                    par_ok = True
        ok = par_ok and not raw
        where = next((d for d in defs if from_c2k(d.value)), None)
        ctx.ob("R-KIND", f, key, ok, "every representation is reduced before the count" if ok else
               f"only a Choi matrix is converted with choi_to_kraus; a Kraus LIST is counted as given: {f.name}([X/sqrt(2), X/sqrt(2)]) sees two operators and answers False for the "
               "unitary channel X . X, while the Choi matrix of the same map gives True", where)
    else:
        ok = bool(defs) and not raw
        ctx.ob("R-KIND", f, key, ok, "every representation is reduced before the count" if ok else
               f"`{unparse(raw[0])[:60]}` (line {raw[0].lineno}) takes the caller's list as it is: linearly dependent or zero Kraus operators (amplitude_damping() returns [k0, k1, 0, 0]; "
               "[I/sqrt(2), I/sqrt(2)] is the identity channel) make the r^2 products dependent, so an extremal map is reported as not extremal -- its Choi matrix gives True",
               raw[0] if raw else None)
