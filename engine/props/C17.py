"""C17 -- named states and standard matrices (structural clauses)."""

from __future__ import annotations

import ast
from fractions import Fraction

from .. import flow as flw
from .. import pmatch
from ..model import calls_in, unparse, walk_no_nested
from ..norm import Normalizer, calls_to, kwarg, mentions_name, show, subterms
from ..rules import calls_from, r_bind_literal, r_guard_interval, return_terms
from .C08 import linear_in


def coverage(ctx, f, list_param, length_sym, length_lin, rule="R-ENUM"):
    """A coefficient list subscripted with affine functions of a range() loop counter must be covered on [0, len)."""
    m = ctx.model
    N = Normalizer(m, f, inline=False)
    found = False
    for lp in walk_no_nested(f.node):
        if not (isinstance(lp, ast.For) and isinstance(lp.target, ast.Name)):
            continue
        it = N(lp.iter)
        if not (it[0] == "call" and it[1] == "builtins.range"):
            continue
        a = it[2]
        lo, hi = (("c", 0), a[0]) if len(a) == 1 else (a[0], a[1])
        for n in ast.walk(lp):
            if isinstance(n, ast.Subscript) and isinstance(n.value, ast.Name) and n.value.id == list_param and isinstance(n.ctx, ast.Load):
                idx = N(n.slice)
                if not mentions_name(idx, lp.target.id):
                    continue
                found = True
                off = linear_in(idx, lp.target.id)
                llo, lhi = linear_in(lo, length_sym), linear_in(hi, length_sym)
                if off is None or off[0] != 1 or llo is None or lhi is None:
                    ctx.ob(rule, f, f"every entry of `{list_param}` is read", None, f"index {show(idx)} over {show(it)} not affine", n, required=False)
                    continue
                c = off[1]
                first = (llo[0], llo[1] + c)            # a*sym + b
                last = (lhi[0], lhi[1] - 1 + c)
                want_last = (length_lin[0], length_lin[1] - 1)
                ok = first == (0, 0) and last == want_last
                def fmt(l):
                    return f"{l[0]}*{length_sym}+{l[1]}" if l[0] else str(l[1])
                ctx.ob(rule, f, f"every entry of `{list_param}` is read", ok,
                       f"indices {fmt(first)} .. {fmt(last)} cover the whole list" if ok else
                       f"`{unparse(n)}` for {lp.target.id} in {unparse(lp.iter)} reads indices {fmt(first)} .. {fmt(last)} of a list with indices 0 .. {fmt(want_last)}: "
                       f"{'entry 0 is never read' if first != (0, 0) else 'the tail is never read'}, so the result cannot depend on it", n)
    if not found:
        ctx.ob(rule, f, f"every entry of `{list_param}` is read", None, "no affine subscript of the list in a range loop", required=False)


def match_exhaustive(ctx, f, subject, lo, hi, rule="R-GUARD"):
    """A match / if-chain on an index handles exactly lo..hi and everything else raises."""
    m = ctx.model
    cases = set()
    for n in walk_no_nested(f.node):
        if isinstance(n, ast.Match) and unparse(n.subject) == subject:
            for c in n.cases:
                if isinstance(c.pattern, ast.MatchValue) and isinstance(c.pattern.value, ast.Constant):
                    cases.add(c.pattern.value.value)
        if isinstance(n, ast.If):
            t = n.test
            if isinstance(t, ast.Compare) and unparse(t.left) == subject and isinstance(t.ops[0], ast.Eq) and isinstance(t.comparators[0], ast.Constant):
                cases.add(t.comparators[0].value)
    res = flw.flow(f.node)
    falls_to_raise = bool(res.raises) and not res.falls_off_end
    ok = cases == set(range(lo, hi + 1)) and falls_to_raise
    if not cases:
        ok = None  # no match / if-chain on the subject at all (a dispatch table, a helper): not decided by this rule
    ctx.ob(rule, f, f"`{subject}` handled for {lo}..{hi}, anything else raises", ok,
           f"{len(cases)} cases and a final raise" if ok else f"cases {sorted(cases)}; falls through to raise: {falls_to_raise}")


def dagger_projectors(ctx, f, rule="R-COV"):
    """Outer products v @ X must be v @ Dagger(v)."""
    m = ctx.model
    rets, N = return_terms(m, f, inline=True)
    n = 0
    bad = []
    for rn, facts, t in rets:
        for s in subterms(t):
            if isinstance(s, tuple) and s and s[0] == "@" and len(s[1]) == 2:
                a, b = s[1]
                wrap = None
                base = b
                if b[0] in ("T", "conj", "dag"):
                    wrap, base = b[0], b[1]
                factors = list(a[1]) if a[0] == "*" else [a]
                if base in factors or base == a:
                    n += 1
                    if wrap != "dag":
                        bad.append(s)
                elif a[0] == "dag" and (a[1] == b or (b[0] == "*" and a[1] in b[1])):
                    n += 1
            elif isinstance(s, tuple) and s and s[0] == "call" and s[1] == "numpy.outer" and len(s[2]) == 2:
                a, b = s[2]
                strip = lambda x: [y for y in x[1] if y[0] != "c"][0] if x[0] == "*" and len([y for y in x[1] if y[0] != "c"]) == 1 else x  # noqa: E731
                a, b = strip(a), strip(b)
                if b == a or (b[0] in ("conj", "T", "dag") and b[1] == a) or (a[0] == "conj" and a[1] == b):
                    n += 1
                    if not (b[0] == "conj" and b[1] == a):
                        bad.append(s)
    if not n:
        ctx.ob(rule, f, "pure-state projectors are v @ Dagger(v)", None, "no outer product of a vector with itself recognised in the returned value", required=False)
    if n:
        ctx.ob(rule, f, "pure-state projectors are v @ Dagger(v)", not bad, f"{n} outer product(s) with conjugate transpose" if not bad else f"{show(bad[0])[:70]} lacks the conjugate (or the transpose)")


def _brauer_matchings_2d(ctx):
    """perfect_matchings(2) returns the single matching as a 1-D array; brauer indexes `matchings[i, :]` and reads `.shape[0]` as the number of
    matchings, so the table has to be made 2-D first (F61: brauer(d, 1) raised IndexError)."""
    m = ctx.model
    try:
        f = m.func("brauer.brauer")
    except KeyError:
        return
    defs = [n for n in walk_no_nested(f.node) if isinstance(n, ast.Assign) and isinstance(n.targets[0], ast.Name) and "perfect_matchings" in unparse(n.value)]
    if not defs:
        ctx.ob("R-SHAPE", f, "the table of perfect matchings is two-dimensional before it is indexed by rows", None, "perfect_matchings call not found", required=False)
        return
    nm = defs[0].targets[0].id
    txt = unparse(defs[0].value)
    ok = "atleast_2d" in txt or "reshape" in txt or any(isinstance(n, ast.Assign) and isinstance(n.targets[0], ast.Name) and n.targets[0].id == nm and
                                                        ("atleast_2d" in unparse(n.value) or "reshape" in unparse(n.value)) for n in walk_no_nested(f.node))
    rows_used = any(isinstance(x, ast.Subscript) and isinstance(x.value, ast.Name) and x.value.id == nm and isinstance(x.slice, ast.Tuple) for x in walk_no_nested(f.node))
    ctx.ob("R-SHAPE", f, "the table of perfect matchings is two-dimensional before it is indexed by rows", ok or not rows_used,
           "np.atleast_2d(perfect_matchings(..))" if ok else
           f"`{unparse(defs[0])[:60]}` is indexed as `{nm}[i, :]`: for p_val = 1 perfect_matchings(2) is the 1-D array [0 1] and the row index raises IndexError", defs[0])


def run(ctx):  # noqa: C901
    m = ctx.model
    _brauer_matchings_2d(ctx)
    ctx.rule("R-ENUM", "every documented coefficient is read (index coverage of the list form)")
    ctx.rule("R-GUARD", "documented parameter domains are enforced before construction; index matches fall through to a raise")
    ctx.rule("R-COV", "rho = |psi><psi| constructions use the conjugate transpose")
    ctx.rule("R-PRED", "closed-form mixtures have their documented weights")
    S = lambda n: m.func(f"states.{n}.{n}")  # noqa: E731
    M = lambda n: m.func(f"matrices.{n}.{n}")  # noqa: E731
    we = S("werner")
    coverage(ctx, we, "alpha", "n_fac", (1, -1))
    N = Normalizer(m, we, inline=False)
    # alpha[i-1] pairs with permutation i (permutation 0 is the identity)
    for n in walk_no_nested(we.node):
        if isinstance(n, ast.AugAssign) and "permutation_operator" in unparse(n.value):
            t = N(n.value)
            al = [s for s in subterms(t) if isinstance(s, tuple) and s and s[0] == "sub" and s[1] == ("n", "alpha")]
            pm = [s for s in subterms(t) if isinstance(s, tuple) and s and s[0] == "sub" and s[1] == ("n", "sorted_perms")]
            if al and pm:
                lv = next((lp.target.id for lp in walk_no_nested(we.node) if isinstance(lp, ast.For) and isinstance(lp.target, ast.Name) and any(x is n for x in ast.walk(lp))), "i")
                ai = linear_in(al[0][2], lv)
                pi_t = pm[0][2][1] if pm[0][2][0] == "tuple" else pm[0][2]
                pi_ = linear_in(pi_t, lv)
                ok = ai is not None and pi_ is not None and ai[0] == pi_[0] == 1 and pi_[1] - ai[1] == 1
                ctx.ob("R-ENUM", we, "coefficient j pairs with the (j+1)-th permutation (the identity is skipped)", ok,
                       "alpha[i-1] with permutation i" if ok else f"alpha[{show(al[0][2])}] is paired with permutation {show(pi_t)}", n)
            ok_sub = isinstance(n.op, ast.Sub)
            ctx.ob("R-PRED", we, "rho = I - sum alpha_j P_j, then normalised", (pmatch.tri(pmatch.find(we.node, ["_X = _X / np.trace(_X)", "_X /= np.trace(_X)", "return _X / np.trace(_X)"]), pmatch.has_call(m, we, "numpy.trace")) if ok_sub else False),
                   "subtracted and divided by the trace")
    rets, Ni = return_terms(m, we, inline=False)
    scal = [t for rn, facts, t in rets if "swap_operator" in repr(t)]
    oks = bool(scal) and scal[0][0] == "/" and scal[0][2] == ("*", tuple(sorted([("n", "dim"), ("+", tuple(sorted([("n", "dim"), ("neg", ("n", "alpha"))], key=repr)))], key=repr)))
    ctx.ob("R-PRED", we, "scalar form == (I - alpha S) / (d (d - alpha))", oks, "normalisation d(d - alpha)" if oks else f"returns {show(scal[0])[:90] if scal else '?'}")

    r_guard_interval(ctx, S("gisin"), "lambda_var", 0, 1)
    r_guard_interval(ctx, S("horodecki"), "a_param", 0, 1)
    ho = S("horodecki")
    Nh = Normalizer(m, ho, inline=False)
    dims = set()
    for n in walk_no_nested(ho.node):
        if isinstance(n, ast.If) and "np.array_equal(dim" in unparse(n.test):
            dims.add(unparse(n.test.args[1]))
    last_raise = isinstance(ho.node.body[-1], ast.Raise)
    ctx.ob("R-GUARD", ho, "dim restricted to [3,3] or [2,4], anything else raises", dims == {"np.array([3, 3])", "np.array([2, 4])"} and last_raise,
           "two constructions and a final raise" if dims == {"np.array([3, 3])", "np.array([2, 4])"} else f"dims handled: {sorted(dims)}")
    br = S("breuer")
    Nb = Normalizer(m, br, inline=False)
    okb = any(flw.conds(ff) and Nb(flw.conds(ff)[-1][0])[0] == "or" and "('c', 2)" in repr(Nb(flw.conds(ff)[-1][0])) and "('c', 0)" in repr(Nb(flw.conds(ff)[-1][0])) for _, ff in flw.flow(br.node).raises)
    ctx.ob("R-GUARD", br, "dim even and positive", okb, "odd or non-positive dim raises" if okb else "guard missing or weakened")
    gh = S("ghz")
    Ng = Normalizer(m, gh, inline=False)
    gs = [Ng(flw.conds(ff)[-1][0]) for _, ff in flw.flow(gh.node).raises if flw.conds(ff)]
    ctx.ob("R-GUARD", gh, "dim >= 1, num_qubits >= 1, len(coeff) == dim", ("cmp", "<", ("n", "dim"), ("c", 1)) in gs and ("cmp", "<", ("n", "num_qubits"), ("c", 1)) in gs and
           any(t[0] == "cmp" and t[1] == "!=" and "builtins.len" in repr(t) and "('n', 'dim')" in repr(t) for t in gs), "three raising guards")
    ws = S("w_state")
    Nw = Normalizer(m, ws, inline=False)
    gs = [Nw(flw.conds(ff)[-1][0]) for _, ff in flw.flow(ws.node).raises if flw.conds(ff)]
    ctx.ob("R-GUARD", ws, "num_qubits >= 2, len(coeff) == num_qubits", ("cmp", "<", ("n", "num_qubits"), ("c", 2)) in gs and
           any(t[0] == "cmp" and t[1] == "!=" and "builtins.len" in repr(t) and "num_qubits" in repr(t) for t in gs), "two raising guards")
    dk = S("dicke")
    gs = [Normalizer(m, dk, inline=False)(flw.conds(ff)[-1][0]) for _, ff in flw.flow(dk.node).raises if flw.conds(ff)]
    ctx.ob("R-GUARD", dk, "num_excited <= num_qubit", ("cmp", "<", ("n", "num_qubit"), ("n", "num_excited")) in gs, "k > n raises")
    bs = S("basis")
    gs = [Normalizer(m, bs, inline=False)(flw.conds(ff)[-1][0]) for _, ff in flw.flow(bs.node).raises if flw.conds(ff)]
    ctx.ob("R-GUARD", bs, "pos < dim", ("cmp", "<=", ("n", "dim"), ("n", "pos")) in gs, "pos >= dim raises")
    match_exhaustive(ctx, S("bell"), "idx", 0, 3)
    match_exhaustive(ctx, S("tile"), "idx", 0, 4)
    match_exhaustive(ctx, S("domino"), "idx", 0, 8)
    match_exhaustive(ctx, M("gell_mann"), "ind", 0, 8)
    # ghz / w / dicke normalisation
    # coeff / ||coeff|| where the divisor is (a local bound to) np.linalg.norm(coeff)
    okn = None
    fdn = pmatch.find(gh.node, ["coeff = coeff / _N", "coeff /= _N"])
    if fdn:
        nd = fdn[0][0]
        dv = nd.value.right if isinstance(nd, ast.Assign) else nd.value
        tdv = Normalizer(m, gh, inline=True)(dv)
        okn = tdv[0] == "call" and tdv[1] == "numpy.linalg.norm" and tdv[2] and tdv[2][0] == ("n", "coeff")
    elif not pmatch.has_call(m, gh, "numpy.linalg.norm"):
        okn = False
    ctx.ob("R-PRED", gh, "coefficients normalised to a unit vector", okn, "coeff / ||coeff||" if okn else "the coefficient vector is no longer divided by its norm", required=okn is not None)
    # dicke: divided by sqrt(number of terms), the number of terms being the count of the enumerated basis states
    fdd = pmatch.find(dk.node, ["_S /= np.sqrt(_N)", "_S = _S / np.sqrt(_N)", "return _S / np.sqrt(_N)", "_S /= math.sqrt(_N)", "_S = _S / math.sqrt(_N)"])
    okd = pmatch.tri(fdd, any(isinstance(n, ast.Call) and getattr(n.func, "attr", "") == "sqrt" for n in walk_no_nested(dk.node)))
    ctx.ob("R-PRED", dk, "equal superposition normalised by sqrt(binom(n,k))", okd, "divided by sqrt(number of terms)" if okd else "normalisation by the square root of the number of terms is gone" if okd is False else "normalisation not recognised", required=okd is not None)
    # isotropic and friends: projector with dagger, unnormalised maximally entangled vector
    for nm in ("isotropic", "gen_bell", "chessboard"):
        dagger_projectors(ctx, S(nm))
    iso = S("isotropic")
    r_bind_literal(ctx, iso, "max_entangled.max_entangled", "is_normalized", False)
    rets, _ = return_terms(m, iso, inline=False)
    for rn, facts, t in rets:
        ok = t[0] == "+" and len(t[1]) == 2
        if ok:
            idt = [x for x in t[1] if "numpy.identity" in repr(x) or "numpy.eye" in repr(x)]
            prj = [x for x in t[1] if x not in idt]
            ok = len(idt) == 1 and len(prj) == 1 and "('neg', ('n', 'alpha'))" in repr(idt[0]) and "('n', 'alpha')" in repr(prj[0]) \
                and "('neg', ('n', 'alpha'))" not in repr(prj[0]) and "('c', 1)" in repr(idt[0])
        ctx.ob("R-PRED", iso, "isotropic == (1 - alpha) I/d^2 + alpha |psi><psi|", ok, "weights (1 - alpha) and alpha" if ok else f"returns {show(t)[:110]}", rn)
    me = S("max_entangled")
    Nm = Normalizer(m, me, inline=False)
    okme = any(isinstance(n, ast.If) and unparse(n.test) == "is_normalized" and any(pmatch.match("_X = _X / np.sqrt(dim)", s) is not None or pmatch.match("_X /= np.sqrt(dim)", s) is not None for s in n.body) for n in walk_no_nested(me.node))
    ctx.ob("R-PRED", me, "normalised form divides vec(I) by sqrt(dim), only when requested", okme, "if is_normalized: psi / sqrt(dim)" if okme else "normalisation changed")
    mm = S("max_mixed")
    rets, _ = return_terms(m, mm, inline=False)
    okmm = all(t[0] == "*" and ("/", ("c", 1), ("n", "dim")) in t[1] for _, _, t in rets)
    ctx.ob("R-PRED", mm, "maximally mixed == I / dim", okmm, "1/dim * I" if okmm else "weight changed")
    sg = S("singlet")
    rets, _ = return_terms(m, sg, inline=False)
    oksg = any(t[0] == "/" and t[2] == ("+", tuple(sorted([("**", ("n", "dim"), ("c", 2)), ("neg", ("n", "dim"))], key=repr))) and "swap_operator" in repr(t[1]) for _, _, t in rets)
    ctx.ob("R-PRED", sg, "singlet == (I - S) / (d^2 - d)", oksg, "normalisation d^2 - d" if oksg else "formula changed")
    # horodecki: each branch returns n(a) * literal matrix with Tr == 1, as a polynomial identity in a (normaliser 1/(8a+1) for 3x3,
    # 1/(7a+1) for 2x4: the sum of the literal's diagonal must equal the denominator of the prefactor)
    from ..symmat import Eval as _SymEval, Unsupported as _Unsup
    from ..rules import value_at as _value_at
    ho = S("horodecki")
    Nh = Normalizer(m, ho, inline=False)
    n_lit = 0
    for n in walk_no_nested(ho.node):
        if isinstance(n, ast.Assign) and len(n.targets) == 1 and isinstance(n.targets[0], ast.Name) and isinstance(n.value, ast.BinOp) and isinstance(n.value.op, ast.Mult):
            pre, lit = n.value.left, n.value.right
            if not (isinstance(lit, ast.Call) and getattr(lit.func, "attr", "") == "array" and lit.args and isinstance(lit.args[0], ast.List) and len(lit.args[0].elts) >= 4):
                continue
            rows = lit.args[0].elts
            if not all(isinstance(r, ast.List) and len(r.elts) == len(rows) for r in rows):
                continue
            n_lit += 1
            env = {}
            def _val(nm):
                if nm not in env:
                    env[nm] = _value_at(m, ho, nm, n, Nh)
                return env[nm]
            names = {x.id for x in ast.walk(n.value) if isinstance(x, ast.Name) and ho.param(x.id) is None and x.id not in ("np",)}
            ev = _SymEval({"a_param"}, "__none__", 2, env={nm: _val(nm) for nm in names if _val(nm) is not None})
            try:
                diag = ev.scalar(("c", 0))
                for i, r in enumerate(rows):
                    diag = diag + ev.scalar(Nh(r.elts[i]))
                pt = Nh(pre)
                if pt[0] == "n" and _val(pt[1]) is not None:
                    pt = _val(pt[1])
                ok = pt[0] == "/" and ev.scalar(pt[1]) * diag == ev.scalar(pt[2]) * ev.scalar(("c", 1)) and (ev.scalar(pt[1]) == ev.scalar(("c", 1)))
                ctx.ob("R-PRED", ho, f"{len(rows)}x{len(rows)} Horodecki matrix has unit trace (prefactor == 1 / sum of the diagonal)", bool(ok),
                       f"diagonal sums to {diag!r}, prefactor {show(pt)}" if ok else
                       f"the diagonal of the literal sums to {diag!r} but the prefactor is {show(pt)}: the state is not normalised (trace != 1 for a > 0)", n)
            except _Unsup as exc:
                ctx.ob("R-PRED", ho, f"{len(rows)}x{len(rows)} Horodecki matrix has unit trace (prefactor == 1 / sum of the diagonal)", None, f"not evaluable: {exc}", n, required=False)
    if n_lit < 2:
        ctx.ob("R-PRED", ho, "Horodecki matrices are n(a) * literal", None, f"{n_lit} literal construction(s) found", required=False)
    # cyclic shift: k applications of the one-step shift, for EVERY k (k >= n wraps around)
    cy = M("cyclic_permutation_matrix")
    Ncy = Normalizer(m, cy, inline=True)
    retsc, _ = return_terms(m, cy, inline=True)
    okcy = None
    for _rn, _fa, t in retsc:
        if t[0] == "call" and t[1] == "numpy.linalg.matrix_power" and len(t[2]) == 2 and t[2][1] == ("n", "k"):
            okcy = True
        elif t[0] == "call" and t[1] == "numpy.roll":
            okcy = True
    if okcy is None:
        # direct construction: every use of k as an index / slice bound must be reduced modulo n first
        raw_k = [x for x in walk_no_nested(cy.node) if isinstance(x, ast.Subscript) and any(isinstance(y, ast.Name) and y.id == "k" for y in ast.walk(x.slice))]
        reduced = any(isinstance(x, ast.BinOp) and isinstance(x.op, ast.Mod) and any(isinstance(y, ast.Name) and y.id == "k" for y in ast.walk(x.left)) for x in walk_no_nested(cy.node)) or \
            any(isinstance(x, ast.AugAssign) and isinstance(x.op, ast.Mod) and isinstance(x.target, ast.Name) and x.target.id == "k" for x in walk_no_nested(cy.node))
        if raw_k and not reduced:
            okcy = False
    ctx.ob("R-PRED", cy, "k-fold cyclic shift == k-th power of the one-step shift (wraps for k >= n)", okcy,
           "matrix_power(P, k)" if okcy else "`k` is used as a slice bound without reduction modulo n: for k > n the filled diagonals fall outside the matrix and the result is not a permutation matrix"
           if okcy is False else "construction not recognised", required=okcy is not None)
    # standard matrices
    gp = M("gen_pauli")
    rets, Ngp = return_terms(m, gp, inline=True)
    okgp = any(t[0] == "@" and len(t[1]) == 2 and t[1][0][0] == "call" and t[1][0][1] == "numpy.linalg.matrix_power" and "gen_pauli_x" in repr(t[1][0]) and t[1][0][2][1] == ("n", "k_1")
               and "gen_pauli_z" in repr(t[1][1]) and t[1][1][2][1] == ("n", "k_2") for _, _, t in rets)
    ctx.ob("R-PRED", gp, "generalised Pauli == X^k1 Z^k2 (matrix powers)", okgp, "matrix_power(X, k1) @ matrix_power(Z, k2)" if okgp else "form changed")
    fz = M("gen_pauli_z")
    from fractions import Fraction as _Fr
    rz, Nz = return_terms(m, fz, inline=True)
    okfz = None
    for _rn, _fa, t in rz:
        cm = [s_ for s_ in subterms(t) if isinstance(s_, tuple) and s_ and s_[0] == "comp"]
        if t[0] == "call" and t[1] == "numpy.diag" and cm:
            body, gens = cm[0][2][0], cm[0][3]
            bv = gens[0][0]
            # exp(k * 2j*pi/dim) : the exponent is linear in k with coefficient 2 pi i / dim
            ex = body[2][0] if body[0] == "call" and str(body[1]).endswith("exp") and body[2] else None
            want = Nz._mul([bv, Nz(ast.parse("2j * pi / dim", mode="eval").body)]) if ex is not None else None
            rng_ok = gens[0][1] == ("call", "builtins.range", (("n", "dim"),), ())
            okfz = bool(ex is not None and ex == want and rng_ok)
    ctx.ob("R-PRED", fz, "clock matrix == diag(exp(2 pi i k / d)), k < d", okfz, "d-th roots of unity" if okfz else "diagonal is not exp(2 pi i k / d) for k in range(d)" if okfz is False else "construction not recognised", required=okfz is not None)
    fo = M("fourier")
    rets, _ = return_terms(m, fo, inline=True)
    Nfo = Normalizer(m, fo, inline=True)
    want_root = Nfo(ast.parse("np.exp(2 * 1j * np.pi / dim)", mode="eval").body)
    okfo = None
    for _rn, _fa, t in rets:
        if t[0] == "/" and t[2] == ("call", "numpy.sqrt", (("n", "dim"),), ()) and t[1][0] == "call" and t[1][1] == "numpy.power" and len(t[1][2]) == 2:
            okfo = t[1][2][0] == want_root
        elif "numpy.power" in repr(t) or "numpy.exp" in repr(t):
            okfo = False if "numpy.sqrt" not in repr(t) else None
    ctx.ob("R-PRED", fo, "Fourier matrix == omega^(jk) / sqrt(d)", okfo, "root of unity exp(2 pi i / d), unitary normalisation 1/sqrt(d)" if okfo else "root of unity or the 1/sqrt(d) normalisation changed" if okfo is False else "construction not recognised", required=okfo is not None)
    ggm = M("gen_gell_mann")
    Ngg = Normalizer(m, ggm, inline=False)
    offd = [Ngg(n.value) for n in walk_no_nested(ggm.node) if isinstance(n, ast.Assign) and isinstance(n.targets[0], ast.Name) and n.targets[0].id == "gm_op" and "e_mat" in unparse(n.value)]
    okgg = len(offd) == 2 and ("+", tuple(sorted([("n", "e_mat"), ("dag", ("n", "e_mat"))], key=repr))) in offd
    # diagonal generators: sqrt(2/(l(l+1))) * diag(1,..,1 (l times), -l, 0,..,0)
    from ..rules import expand_at, value_at
    from ..segvec import SegEval
    dg = [n for n in walk_no_nested(ggm.node) if isinstance(n, ast.Call) and m.resolve_call(ggm, n).key == "numpy.diag" and n.args]
    okd, detd = None, "np.diag(...) of a constructed vector not found"
    if dg:
        t = Ngg(dg[0].args[0])
        for _ in range(3):
            t = expand_at(m, ggm, t, dg[0], [x[1] for x in subterms(t) if isinstance(x, tuple) and len(x) == 2 and x[0] == "n" and ggm.param(x[1]) is None], Ngg)
        sv = SegEval(Ngg).seg(t)
        if sv is None:
            detd = f"diagonal vector {show(t)[:80]} is not a recognised run construction"
        else:
            E = lambda src: Ngg(ast.parse(src, mode="eval").body)  # noqa: E731
            want_runs = [(("c", 1), E("ind_1")), (E("-ind_1"), ("c", 1)), (("c", 0), E("dim - ind_1 - 1"))]
            want_sc = E("np.sqrt(2 / (ind_1 * (ind_1 + 1)))")
            sc, runs = sv
            runs = [(v_, ln_) for v_, ln_ in runs if ln_ != ("c", 0)]
            okd = runs == want_runs and (Ngg._mul(list(sc)) if len(sc) != 1 else sc[0]) == want_sc
            detd = "l ones, then -l, then zeros; scaled by sqrt(2/(l(l+1)))" if okd else \
                f"runs {[(show(v), show(ln)) for v, ln in runs]} x {[show(x)[:40] for x in sc]}: the non-zero block is not [1]*l + [-l] in the leading positions with the documented normalisation"
    ctx.ob("R-ENUM", ggm, "diagonal generator l == c_l * diag(1 x l, -l, 0 x (d - l - 1))", okd, detd, dg[0] if dg else None, required=okd is not None)
    ctx.ob("R-COV", ggm, "off-diagonal generators are E + Dagger(E) and i(E - Dagger(E))", okgg, "Hermitian by construction" if okgg else f"forms {[show(x)[:40] for x in offd]}")
