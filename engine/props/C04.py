"""C04 -- one linear map, many representations (structural clauses)."""

from __future__ import annotations

import ast

from ..base import check_call_bases
from ..dataflow import origins
from ..layout import reshape_sites
from ..model import calls_in, unparse, walk_no_nested
from ..norm import Normalizer, calls_to, kwarg, mentions_name, show, subterms, tkey
from ..rules import (bool_equiv, calls_from, r_bind_literal, r_effect_free, r_guard_pred, r_live, r_thread, rename_term, resort)


def classifier_core(model, f, pname):
    """The boolean core 'list is a flat CP family' = (len(p[0]) == 1 or (len(p) == 1 and len(p[0]) > 2)),
    extracted from the function's branch tests with the parameter renamed to PHI."""
    N = Normalizer(model, f)
    cands = []
    for n in walk_no_nested(f.node):
        test = None
        if isinstance(n, (ast.If, ast.While, ast.IfExp)):
            test = n.test
        if test is None:
            continue
        t = resort(rename_term(N(test), {pname: "PHI"}))
        for s in subterms(t):
            if isinstance(s, tuple) and s and s[0] in ("and", "or"):
                atoms = repr(s)
                if atoms.count("builtins.len") >= 3 and "isinstance" not in atoms:
                    cands.append((len(atoms), s, n))
    if not cands:
        return None, None
    cands.sort(key=lambda x: x[0])
    # the largest subterm that is free of isinstance atoms
    return cands[-1][1], cands[-1][2]


CANON = None


def canonical_classifier():
    L0 = ("call", "builtins.len", (("n", "PHI"),), ())
    L1 = ("call", "builtins.len", (("sub", ("n", "PHI"), ("c", 0)),), ())
    eq = lambda a, b: ("cmp", "==", *sorted([a, b], key=tkey))  # noqa: E731
    return resort(("or", (eq(L1, ("c", 1)), ("and", (eq(L0, ("c", 1)), ("cmp", "<", ("c", 2), L1))))))


def classifier_table(t, grid=range(1, 6)):
    """Truth table of a Kraus-list classifier over (len(PHI), len(PHI[0])) in grid x grid.  The classifier only compares these two
    lengths with small constants, so its behaviour is determined by finitely many orderings; two spellings are the same classifier iff
    their tables agree.  Returns None when the term contains anything else."""
    L0 = ("call", "builtins.len", (("n", "PHI"),), ())
    L1 = ("call", "builtins.len", (("sub", ("n", "PHI"), ("c", 0)),), ())

    def val(x, a, b):
        if x == L0:
            return a
        if x == L1:
            return b
        if x[0] == "c" and isinstance(x[1], int) and not isinstance(x[1], bool):
            return x[1]
        if x[0] == "sub" and x[1][0] in ("list", "tuple") and x[2][0] == "c":
            return val(x[1][1 + x[2][1]], a, b)
        raise ValueError

    def ev(x, a, b):
        h = x[0]
        if h == "cmp":
            l, r = val(x[2], a, b), val(x[3], a, b)
            return {"==": l == r, "!=": l != r, "<": l < r, "<=": l <= r, ">": l > r, ">=": l >= r}[x[1]]
        if h == "and":
            return all(ev(y, a, b) for y in x[1])
        if h == "or":
            return any(ev(y, a, b) for y in x[1])
        if h == "not":
            return not ev(x[1], a, b)
        if h == "c" and isinstance(x[1], bool):
            return x[1]
        raise ValueError

    try:
        return tuple(ev(t, a, b) for a in grid for b in grid)
    except (ValueError, KeyError, IndexError, TypeError):
        return None


def run(ctx):
    m = ctx.model
    ctx.rule("R-SIB", "the flat/nested/paired Kraus-list classifier is the same boolean function in apply_channel, partial_channel and channel_dim")
    ctx.rule("R-COV", "Kraus evaluation multiplies by Dagger of the right operators (a bare transpose or conjugate is the defect)")
    ctx.rule("R-BIND", "role binding of channel_dim results (in, out, env); literal flags (unnormalised maximally entangled operator)")
    ctx.rule("R-BASE", "partial_channel.sys is 1-based: [:sys-1], [sys-1], [sys:] partition the subsystems")
    ctx.rule("R-LAYOUT", "vec / unvec / the Choi-branch reshape are all column-major")
    ctx.rule("R-ENUM", "both members of every [A_i, B_i] pair are read")
    ctx.rule("R-THREAD", "dim / sys / operand threading")

    ac = m.func("apply_channel.apply_channel")
    pc = m.func("partial_channel.partial_channel")
    cd = m.func("channel_dim.channel_dim")
    canon = canonical_classifier()
    for f, p in ((ac, "phi_op"), (pc, "phi_map"), (cd, "phi")):
        core, node = classifier_core(m, f, p)
        if core is None:
            ctx.ob("R-SIB", f, "kraus-list classifier", None, "classifier test not found (delegated?)", required=False)
            continue
        eqv = bool_equiv(core, canon)
        tc, tk = classifier_table(core), classifier_table(canon)
        if not eqv and tc is not None and tc == tk:
            eqv = True  # another spelling of the same comparisons (e.g. len(p) >= 2 for len(p) > 1)
        if not eqv and isinstance(node, ast.If) and node.orelse and bool_equiv(core, resort(Normalizer(m, f)._not(canon))):
            # the same test written with its branches exchanged: the branch taken when the family is NOT flat must be the one
            # that reads both members of each pair (a constant index 1), the flat branch must not
            idx1 = lambda stmts: any(isinstance(x, ast.Subscript) and isinstance(x.slice, ast.Constant) and x.slice.value == 1 for s_ in stmts for x in ast.walk(s_))  # noqa: E731
            eqv = idx1(node.body) and not idx1(node.orelse)
        ctx.ob("R-SIB", f, "kraus-list classifier", eqv,
               "flat iff len(p[0]) == 1 or (len(p) == 1 and len(p[0]) > 2)" if eqv else
               f"classifier {show(core)} differs from the shared rule {show(canon)}", node)
        # the length test reads len(p[0]) as a nesting length; that is meaningful only when p[0] is a list.  For a flat list p[0] is an
        # array and len(p[0]) its number of ROWS, so the test has to sit behind `isinstance(p[0], np.ndarray)` being False (or carry an
        # `isinstance(p[0], list)` conjunct): [K] with a 3-row K would otherwise be split into its rows
        from .. import flow as flw
        guarded = None
        if isinstance(node, (ast.If, ast.While)):
            tx = unparse(node.test)
            own = f"isinstance({p}[0], list)" in tx
            hit = flw.find_stmt_of(f.node, node.test)
            conds = [(unparse(t_), pol) for t_, pol in flw.conds(hit[1])] if hit else []
            behind = any((f"isinstance({p}[0], np.ndarray)" in u and not pol) or (f"isinstance({p}[0], list)" in u and pol) for u, pol in conds)
            guarded = own or behind
        ctx.ob("R-SIB", f, "the nesting-length test is reached only when the first element is not an array", guarded,
               "behind `not isinstance(p[0], np.ndarray)` / with `isinstance(p[0], list)`" if guarded else
               f"`{unparse(node.test)[:70]}` (line {node.lineno}) is evaluated for flat lists too, where len({p}[0]) is the row count of the first Kraus operator: "
               "a single operator with 3 or more rows (or exactly one row) is taken for a nested family and split into its rows", node, required=guarded is not None)

    # ---- apply_channel: Kraus evaluation ------------------------------------------------------
    N = Normalizer(m, ac, inline=False)
    right_lists = {}
    left_lists = {}
    for n in walk_no_nested(ac.node):
        if isinstance(n, ast.Assign) and isinstance(n.targets[0], ast.Name) and isinstance(n.value, ast.ListComp):
            elt = N(n.value.elt)
            # comprehension variable
            it = N(n.value.generators[0].iter)
            name = n.targets[0].id
            (right_lists if "1" in name or "right" in name or "dag" in name else left_lists).setdefault(name, []).append((n, elt, it))
    # identify left/right by use: concatenate axis=1 -> left, axis=0 -> right
    cat = [c for c in calls_in(ac.node) if m.resolve_call(ac, c).key == "numpy.concatenate"]
    roles = {}
    for c in cat:
        ax = next((kw.value for kw in c.keywords if kw.arg == "axis"), c.args[1] if len(c.args) > 1 else None)
        axv = N(ax) if ax is not None else ("c", 0)
        if c.args and isinstance(c.args[0], ast.Name):
            roles[c.args[0].id] = axv
    lefts = [k for k, v in roles.items() if v == ("c", 1)]
    rights = [k for k, v in roles.items() if v == ("c", 0)]
    ok_axes = len(lefts) == 1 and len(rights) == 1
    ctx.ob("R-COV", ac, "left factors concatenated along columns, right factors along rows", ok_axes if cat else None,
           "[A_1..A_r] is a block row, [B_1^+;..;B_r^+] a block column" if ok_axes else f"concatenate axes {[(k, show(v)) for k, v in roles.items()]}",
           cat[0] if cat else None, required=bool(cat))
    if ok_axes:
        rname, lname = rights[0], lefts[0]
        n_dag = 0
        for n in walk_no_nested(ac.node):
            if isinstance(n, ast.Assign) and isinstance(n.targets[0], ast.Name) and n.targets[0].id == rname and isinstance(n.value, ast.ListComp):
                elt = N(n.value.elt)
                isdag = elt[0] == "dag"
                n_dag += 1
                which = "pair" if mentions_name(N(n.value.generators[0].iter), "phi_op") else "flat"
                ctx.ob("R-COV", ac, f"right factor is Dagger ({which} form)", isdag,
                       f"right factors are {show(elt)}" if isdag else
                       f"right factors are {show(elt)}: not the conjugate transpose (wrong for complex Kraus operators)", n)
                if which == "pair":
                    inner = elt[1] if isdag else elt
                    idx = [s for s in subterms(inner) if isinstance(s, tuple) and s and s[0] == "sub" and s[2][0] == "c"]
                    ok1 = any(s[2] == ("c", 1) for s in idx)
                    ctx.ob("R-ENUM", ac, "pair form reads B_i = pair[1] on the right", ok1,
                           "right operators come from pair[1]" if ok1 else f"right operators {show(elt)} do not read pair[1]", n)
            if isinstance(n, ast.Assign) and isinstance(n.targets[0], ast.Name) and n.targets[0].id == lname and isinstance(n.value, ast.ListComp):
                elt = N(n.value.elt)
                ok0 = any(s[0] == "sub" and s[2] == ("c", 0) for s in subterms(elt) if isinstance(s, tuple) and s)
                plain = elt[0] not in ("dag", "T", "conj")
                ctx.ob("R-ENUM", ac, "pair form reads A_i = pair[0] on the left", ok0 and plain,
                       "left operators come from pair[0], unconjugated" if ok0 and plain else f"left operators are {show(elt)}", n)
        if n_dag < 2:
            ctx.ob("R-COV", ac, "right factor is Dagger (both forms present)", None, f"only {n_dag} right-factor constructions found", required=False)
        # product order k_1 @ kron(I_r, X) @ k_2
        Ni = Normalizer(m, ac)
        for rn, facts, t in _returns(m, ac):
            if t[0] == "@" and len(t[1]) == 3:
                from ..rules import value_at
                ops = []
                for x in t[1]:
                    if x[0] == "n":
                        x = value_at(m, ac, x[1], rn, N) or x
                    ops.append(x)
                t = ("@", tuple(ops))
                if not any(mentions_name(x, "mat") for x in t[1]):
                    continue
                mid = t[1][1]
                okk = mid[0] == "call" and mid[1] == "numpy.kron" and len(mid[2]) == 2 and \
                    mid[2][0][0] == "call" and mid[2][0][1] in ("numpy.identity", "numpy.eye") and mid[2][1] == ("n", "mat")
                ctx.ob("R-COV", ac, "Kraus evaluation is L @ kron(I_r, X) @ R", okk,
                       "block row times (I_r (x) X) times block column" if okk else f"middle factor is {show(mid)}", rn)
                lft, rgt = t[1][0], t[1][2]
                okl = mentions_name(lft, lname) or (lft[0] == "call" and lft[1] == "numpy.concatenate")
                # left must be the axis=1 concatenation
                def _ax(x):
                    if x[0] == "call" and x[1] == "numpy.concatenate":
                        return kwarg(x, "axis", x[2][1] if len(x[2]) > 1 else ("c", 0))
                    return None
                ctx.ob("R-COV", ac, "block row on the left, block column on the right", _ax(lft) == ("c", 1) and _ax(rgt) == ("c", 0),
                       "L is the axis=1 concatenation, R the axis=0 concatenation" if _ax(lft) == ("c", 1) and _ax(rgt) == ("c", 0) else
                       f"operand order {show(lft)[:40]} ... {show(rgt)[:40]}", rn)
    # term-by-term evaluation: the right-hand list already holds B_i^dagger, so a sum over zip(left, right) must multiply by the
    # list element as it is; applying Dagger again gives sum A_i X B_i
    if ok_axes:
        for rn in [n for n in walk_no_nested(ac.node) if isinstance(n, ast.Return) and n.value is not None]:
            t = Normalizer(m, ac, inline=False)(rn.value)
            if not (t[0] == "call" and t[1] in ("builtins.sum", "numpy.sum") and t[2] and t[2][0][0] == "comp"):
                continue
            comp = t[2][0]
            elt, gens = comp[2][0], comp[3]
            it = gens[0][1]
            if not (elt[0] == "@" and len(elt[1]) == 3 and elt[1][1] == ("n", "mat") and it[0] == "call" and it[1] == "builtins.zip" and len(it[2]) == 2):
                ctx.ob("R-COV", ac, "term-by-term evaluation is sum_i A_i X (B_i^dagger taken from the right-hand list as it is)", None,
                       f"`{unparse(rn.value)[:70]}` not recognised", rn, required=False)
                continue
            src_l, src_r = it[2]
            va, vb = gens[0][0][1:] if gens[0][0][0] == "tuple" else (None, None)
            a_, b_ = elt[1][0], elt[1][2]
            okterm = src_l == ("n", lname) and src_r == ("n", rname) and a_ == va and b_ == vb
            ctx.ob("R-COV", ac, "term-by-term evaluation is sum_i A_i X (B_i^dagger taken from the right-hand list as it is)", okterm,
                   "sum(A @ X @ Bdag for A, Bdag in zip(left, right))" if okterm else
                   f"term `{show(elt)[:70]}` over zip({show(src_l)}, {show(src_r)}): `{rname}` already holds the conjugate transposes B_i^dagger, so conjugating its element again "
                   "computes sum_i A_i X B_i (wrong for non-Hermitian right operators; a shape error when input and output dimensions differ)", rn)
    # ---- apply_channel: Choi branch ------------------------------------------------------------
    rs = [r for r in reshape_sites(m, ac) if r["kind"] == "reshape"]
    for r in rs:
        ctx.ob("R-LAYOUT", ac, "Choi-branch reshape is column-major", r["order"] == "F",
               "order='F' matches vec" if r["order"] == "F" else f"order='{r['order']}' while vec is column-major", r["node"])
    sw = calls_from(m, ac, "swap.swap")
    if sw:
        r_bind_literal(ctx, ac, "swap.swap", "row_only", True)
        r_bind_literal(ctx, ac, "swap.swap", "sys", ("list", ("c", 1), ("c", 2)))
        Ni = Normalizer(m, ac)
        b = m.bind(sw[0][0], sw[0][1].func)
        d = Ni(b["dim"])
        ms = lambda i: ("sub", ("call", "numpy.array", (("call", "builtins.list", (("attr", ("n", "mat"), "shape"),), ()),), ()), ("c", i))  # noqa: E731
        # accept any spelling: compare structure [[X1, P1], [X0, P0]] by index pattern
        pat = _index_pattern(d)
        ctx.ob("R-BIND", ac, "Choi-branch swap dims [[in_c, out_c], [in_r, out_r]]", pat == [[("mat", 1), ("phi", 1)], [("mat", 0), ("phi", 0)]] if pat else None,
               "swap dims pair the input-operator extents with the output extents, columns first (operand is transposed)" if pat == [[("mat", 1), ("phi", 1)], [("mat", 0), ("phi", 0)]]
               else f"swap dims pattern {pat}", sw[0][0], required=pat is not None)
        rho = Ni(b["rho"])
        ctx.ob("R-BIND", ac, "Choi-branch swap operand is transpose(phi_op)", rho == ("T", ("n", "phi_op")),
               "rows of phi^T are swapped" if rho == ("T", ("n", "phi_op")) else f"operand {show(rho)}", sw[0][0])
    else:
        ctx.ob("R-BIND", ac, "Choi-branch swap", None, "no swap call in the Choi branch", required=False)
    r_live(ctx, ac, "mat")
    r_live(ctx, ac, "phi_op")
    r_effect_free(ctx, ac, ["mat", "phi_op"])
    # the operand and the Kraus operators are independent numeric families (real operators act on complex inputs and vice versa): no
    # buffer typed by one of them may receive the other's data
    from ..rules import r_dtype_cross_param
    r_dtype_cross_param(ctx, ac, params=["mat", "phi_op"])

    # ---- kraus_to_choi --------------------------------------------------------------------------
    kc = m.func("kraus_to_choi.kraus_to_choi")
    r_bind_literal(ctx, kc, "max_entangled.max_entangled", "is_normalized", False, min_sites=2)
    r_thread(ctx, kc, "kraus_ops", "partial_channel.partial_channel", formal="phi_map")
    r_thread(ctx, kc, "sys", "partial_channel.partial_channel")
    p = kc.param("sys")
    ctx.ob("R-BASE", kc, "default sys == 2 (second half, 1-based)", p is not None and isinstance(p.default, ast.Constant) and p.default.value == 2,
           "the map is applied to the second copy by default" if p is not None and isinstance(p.default, ast.Constant) and p.default.value == 2 else "default sys changed")
    Nk = Normalizer(m, kc)
    for c, cal in calls_from(m, kc, "partial_channel.partial_channel"):
        b = m.bind(c, cal.func)
        rho = Nk(b["rho"])
        ok = rho[0] == "@" and len(rho[1]) == 2 and rho[1][0][0] == "call" and rho[1][1][0] == "dag" and rho[1][1][1][0] == "call" \
            and rho[1][0][1].endswith("max_entangled") and rho[1][1][1][1].endswith("max_entangled")
        ctx.ob("R-COV", kc, "input operator is psi_1 @ Dagger(psi_2)", ok,
               "|psi><psi| with a dagger on the bra" if ok else f"input operator is {show(rho)}", c)
        d = Nk(b["dim"])
        pat = _dim_square_pattern(d)
        ctx.ob("R-BIND", kc, "dims [[d_in_r, d_in_r], [d_in_c, d_in_c]]", pat, "two copies of the input space" if pat else f"dims {show(d)}", c, required=pat is not None)
    # ---- choi_to_kraus --------------------------------------------------------------------------
    ck = m.func("choi_to_kraus.choi_to_kraus")
    r_thread(ctx, ck, "dim", "channel_dim.channel_dim")
    r_thread(ctx, ck, "choi_mat", "channel_dim.channel_dim", formal="phi")
    role = _channel_dim_roles(ctx, ck)
    Nc = Normalizer(m, ck, inline=False)
    for c, cal in calls_from(m, ck, "unvec.unvec"):
        b = m.bind(c, cal.func)
        sh = b.get("shape")
        if isinstance(sh, ast.Tuple) and len(sh.elts) == 2:
            names = [sorted(n.id for n in ast.walk(e) if isinstance(n, ast.Name)) for e in sh.elts]
            r0 = {role.get(x) for x in names[0]} - {None}
            r1 = {role.get(x) for x in names[1]} - {None}
            ok = r0 == {"out"} and r1 == {"in"}
            ctx.ob("R-BIND", ck, "unvec shape == (out, in)", ok if (r0 and r1) else None,
                   "Kraus operators map the input space to the output space" if ok else f"unvec shape ({unparse(sh.elts[0])}, {unparse(sh.elts[1])}) has roles {sorted(r0)}/{sorted(r1)}", c,
                   required=bool(r0 and r1))
            i0 = [n.slice.value for n in ast.walk(sh) if isinstance(n, ast.Subscript) and isinstance(n.slice, ast.Constant)]
            ctx.ob("R-BIND", ck, "unvec shape uses one side (row or column) consistently", len(set(i0)) == 1 if len(i0) == 2 else None,
                   "both extents are the row (or both the column) dimensions" if len(set(i0)) == 1 else f"mixed row/column indices {i0}", c, required=len(i0) == 2)
    # eigenvectors are columns: iterate over V.T ; right singular vectors are rows of vh, conjugated
    _decomposition_conventions(ctx, ck)
    _hermitian_sign_pairing(ctx, ck)
    r_live(ctx, ck, "tol")
    r_effect_free(ctx, ck, ["choi_mat"])

    # ---- partial_channel -----------------------------------------------------------------------
    Np = Normalizer(m, pc, inline=False)
    sl = {"before": 0, "at": 0, "after": 0, "bad": []}
    for n in walk_no_nested(pc.node):
        if isinstance(n, ast.Subscript) and isinstance(n.value, ast.Name) and n.value.id == "dim" and isinstance(n.slice, ast.Tuple) and len(n.slice.elts) == 2:
            s = Np(n.slice.elts[1])
            if not mentions_name(s, "sys"):
                continue
            if s == ("slice", ("c", None), ("+", (("c", -1), ("n", "sys"))), ("c", None)):
                sl["before"] += 1
            elif s == ("+", (("c", -1), ("n", "sys"))):
                sl["at"] += 1
            elif s == ("slice", ("n", "sys"), ("c", None), ("c", None)):
                sl["after"] += 1
            else:
                sl["bad"].append(n)
    okp = not sl["bad"] and sl["before"] >= 2 and sl["after"] >= 2
    ctx.ob("R-BASE", pc, "dim[:sys-1] / dim[sys-1] / dim[sys:] partition", okp,
           f"subsystems before ({sl['before']}), at ({sl['at']}) and after ({sl['after']}) the 1-based target partition the system" if okp else
           (f"`{unparse(sl['bad'][0])}` breaks the 1-based partition around the target subsystem" if sl["bad"] else "partition slices not found"),
           sl["bad"][0] if sl["bad"] else None)
    # Kraus lifting kron(kron(I_before, K), I_after)
    lifts = []
    for c in calls_in(pc.node):
        if m.resolve_call(pc, c).key == "numpy.kron" and len(c.args) == 2 and isinstance(c.args[0], ast.Call) and m.resolve_call(pc, c.args[0]).key == "numpy.kron":
            inner = c.args[0]
            t_before, t_mid, t_after = Np(inner.args[0]), Np(inner.args[1]), Np(c.args[1])
            lifts.append((c, t_before, t_mid, t_after))
    n_ok = 0
    for c, tb, tm, ta in lifts:
        if not (tb[0] == "call" and tb[1] in ("numpy.identity", "numpy.eye")):
            continue
        b_name = show(tb[2][0]) if tb[2] else "?"
        a_name = show(ta[2][0]) if ta[0] == "call" and ta[2] else "?"
        ok = ("1" in b_name and "2" in a_name) and (("_r" in b_name) == ("_r" in a_name))
        idx = [s for s in subterms(tm) if isinstance(s, tuple) and s and s[0] == "sub" and s[2][0] == "c"]
        if idx:
            which = idx[0][2][1]
            want_r = which == 0
            ok = ok and (("_r" in b_name) == want_r)
        n_ok += 1
        ctx.ob("R-BIND", pc, f"lift {show(tm)} -> I_before (x) K (x) I_after", ok,
               f"kron(kron(I({b_name}), {show(tm)}), I({a_name}))" if ok else
               f"lifting kron(kron(I({b_name}), {show(tm)}), I({a_name})) mixes before/after or row/column extents", c)
    if n_ok < 3:
        ctx.ob("R-BIND", pc, "three Kraus liftings (flat, pair-left, pair-right)", None, f"found {n_ok}", required=False)
    else:
        mids = {show(tm) for _, _, tm, _ in lifts}
        both = any("[0]" in x for x in mids) and any("[1]" in x for x in mids)
        ctx.ob("R-ENUM", pc, "pair form lifts both pair[0] and pair[1]", both, "both members are lifted" if both else f"lifted operands {sorted(mids)}")
    r_thread(ctx, pc, "rho", "apply_channel.apply_channel", formal="mat", min_sites=3)
    for c, cal in calls_from(m, pc, "permute_systems.permute_systems"):
        b = m.bind(c, cal.func)
        t = Np(b["perm"])
        ctx.ob("R-BIND", pc, "Choi-branch interleave perm == [0,2,4,1,3,5]", t == ("list",) + tuple(("c", k) for k in (0, 2, 4, 1, 3, 5)),
               "inputs (0,2,4) are grouped before outputs (1,3,5)" if t == ("list",) + tuple(("c", k) for k in (0, 2, 4, 1, 3, 5)) else f"perm {show(t)}", c)
    # Choi branch: the dims handed to permute_systems are [before, before, in, out, after, after] for rows and columns
    Npi = Normalizer(m, pc, inline=True)
    for c, cal in calls_from(m, pc, "permute_systems.permute_systems"):
        b = m.bind(c, cal.func)
        from ..rules import last_def_at
        d = b.get("dim")
        t = Npi(d) if isinstance(d, ast.AST) else None
        if t is not None and t[0] == "n":
            t = last_def_at(m, pc, t[1], c, Normalizer(m, pc, inline=False))
            if t is not None:
                t = _inline_names(m, pc, t)
        rows = None
        if t is not None and t[0] == "call" and t[1] == "numpy.array" and t[2] and t[2][0][0] == "list" and len(t[2][0]) == 3:
            rows = t[2][0][1:]
        if rows and all(r[0] == "list" and len(r) == 7 for r in rows):
            ok = True
            why = ""
            for k, r in enumerate(rows):
                a, bq = _strip(r[3]), _strip(r[4])
                a_in = mentions_name(a, "dim") and mentions_name(a, "sys") and not mentions_name(a, "dim_phi") and not mentions_name(a, "phi_map")
                b_out = (mentions_name(bq, "dim_phi") or mentions_name(bq, "phi_map")) and bq[0] in ("/", "//") 
                if not (a_in and b_out):
                    ok = False
                    why = f"row {k}: positions 2,3 are ({show(a)[:40]}, {show(bq)[:40]})"
                if not (r[1] == r[2] and r[5] == r[6]):
                    ok = False
                    why = f"row {k}: the surrounding extents are not doubled"
            ctx.ob("R-BIND", pc, "Choi-branch dims table == [before, before, in, out, after, after]", ok,
                   "the map's own (in, out) factors sit at positions 2, 3 of both rows" if ok else
                   f"{why}: the input extent (local dim of the target subsystem) must precede the output extent (Choi size / input extent)", c)
        else:
            ctx.ob("R-BIND", pc, "Choi-branch dims table == [before, before, in, out, after, after]", None, "dims table not recognised", c, required=False)
    p = pc.param("sys")
    ctx.ob("R-BASE", pc, "default sys == 2", isinstance(p.default, ast.Constant) and p.default.value == 2, "second subsystem by default")
    r_live(ctx, pc, "sys")
    r_live(ctx, pc, "dim")
    r_effect_free(ctx, pc, ["rho", "phi_map", "dim"])
    # callers of partial_channel: base
    for f in m.functions.values():
        check_call_bases(ctx, f, "partial_channel.partial_channel", "sys")

    # ---- natural representation ----------------------------------------------------------------
    nr = m.func("natural_representation.natural_representation")
    Nn = Normalizer(m, nr)
    found = False
    for c, cal in calls_from(m, nr, "tensor.tensor"):
        a = [Nn(x) for x in c.args]
        if len(a) == 2:
            found = True
            ok = a[1] == ("conj", a[0])
            ctx.ob("R-COV", nr, "natural representation term == K (x) conj(K)", ok,
                   "row-major vec: K (x) conj(K)" if ok else f"term is {show(a[0])} (x) {show(a[1])}", c)
    if not found:
        ctx.ob("R-COV", nr, "natural representation term == K (x) conj(K)", None, "tensor(k, conj(k)) not found", required=False)

    # ---- channel_dim ------------------------------------------------------------------------------
    # Choi matrix, dim omitted: the guess is a TABLE whose first row multiplies to the number of rows and whose second row to the number
    # of columns, [[sqrt r, sqrt r], [sqrt c, sqrt c]]; the 2-vector [sqrt r, sqrt c] is expanded to [[sqrt r, sqrt c], [sqrt r, sqrt c]] and fails the
    # size test for every r != c
    dflt = None
    for n_ in ast.walk(cd.node):
        if isinstance(n_, ast.If) and unparse(n_.test).replace(" ", "") == "dimisNone":
            for st in n_.body:
                if isinstance(st, ast.Assign) and isinstance(st.targets[0], ast.Name) and st.targets[0].id == "dim" and "sqrt" in " ".join(
                        unparse(d.value) for d in ast.walk(cd.node) if isinstance(d, ast.Assign) and isinstance(d.targets[0], ast.Name) and
                        d.targets[0].id in {y.id for y in ast.walk(st.value) if isinstance(y, ast.Name)}) + unparse(st.value):
                    dflt = st
    if dflt is not None:
        v = dflt.value
        tv = unparse(v).replace(" ", "")
        is_table = (tv.startswith("np.vstack(") and tv.endswith(".T")) or (isinstance(v, ast.Call) and unparse(v.func) in ("np.array", "numpy.array") and v.args and
                                                                           isinstance(v.args[0], ast.List) and all(isinstance(e, ast.List) for e in v.args[0].elts))
        is_vector = isinstance(v, (ast.List, ast.Tuple)) and len(v.elts) == 2 and not any(isinstance(e, (ast.List, ast.Tuple)) for e in v.elts)
        ctx.ob("R-KIND", cd, "Choi matrix, dim omitted: the guessed dims are the table [[sqrt r, sqrt r], [sqrt c, sqrt c]]", True if is_table else False if is_vector else None,
               f"`{unparse(dflt)[:60]}`" if is_table else
               f"`{unparse(dflt)[:70]}` is the 2-vector (sqrt r, sqrt c): _expand_dim reads a 2-vector as (input, output) dimension of square spaces, so the table becomes "
               "[[sqrt r, sqrt c], [sqrt r, sqrt c]] and every r x c Choi matrix with r != c is rejected", dflt, required=is_table or is_vector)
    # _expand_dim: a dims vector [d_in, d_out] -- written as a list, a row or a column -- stands for square spaces: it is flattened and repeated as
    # the two ROWS of the table.  Broadcasting the unflattened value against (2, 2) repeats a column vector along the wrong axis.
    ed = m.func("channel_dim._expand_dim", must=False)
    if ed is not None:
        flat_names = {}
        for st in walk_no_nested(ed.node):
            if isinstance(st, ast.Assign) and len(st.targets) == 1 and isinstance(st.targets[0], ast.Name) and isinstance(st.value, ast.Call) \
                    and isinstance(st.value.func, ast.Attribute) and (st.value.func.attr in ("ravel", "flatten") or (st.value.func.attr == "reshape" and unparse(st.value.args[0]) in ("-1", "(-1,)"))):
                flat_names.setdefault(st.targets[0].id, st.lineno)
        verdict, why, at = None, "vector branch not recognised", None
        for r in walk_no_nested(ed.node):
            if not (isinstance(r, ast.Return) and isinstance(r.value, ast.Call)):
                continue
            for c in ast.walk(r.value):
                if not isinstance(c, ast.Call):
                    continue
                fn = getattr(c.func, "attr", getattr(c.func, "id", ""))
                if fn in ("vstack", "array", "stack") and c.args and isinstance(c.args[0], (ast.List, ast.Tuple)) and len(c.args[0].elts) == 2 \
                        and all(isinstance(e, ast.Name) for e in c.args[0].elts) and len({e.id for e in c.args[0].elts}) == 1:
                    nm = c.args[0].elts[0].id
                    if nm in flat_names and flat_names[nm] < r.lineno:
                        verdict, why, at = (True if verdict is None else verdict), f"rows ({nm}, {nm}) with {nm} flattened", r
                    else:
                        verdict, why, at = False, f"`{unparse(r)[:60]}` repeats `{nm}` without flattening it first", r
                if fn in ("broadcast_to", "tile", "repeat", "broadcast_arrays") and c.args:
                    src = {y.id for y in ast.walk(c.args[0]) if isinstance(y, ast.Name)}
                    if not any(x_ in flat_names and flat_names[x_] < r.lineno for x_ in src):
                        verdict, at = False, r
                        why = (f"`{unparse(c)[:60]}` (line {c.lineno}) broadcasts the dims as given: a column [[m], [n]] is repeated along the columns, [[m, m], [n, n]], instead of being "
                               "read as the vector (m, n) -> [[m, n], [m, n]]; with m != n the table no longer matches the Choi matrix")
        ctx.ob("R-KIND", ed, "a dims vector in any orientation is flattened, then repeated as the two rows of the table", verdict, why, at, required=verdict is not None)
    Nd = Normalizer(m, cd, inline=False)
    # (rows, cols) of a Kraus operator are (out, in)
    n_sh = 0
    for n in walk_no_nested(cd.node):
        if isinstance(n, ast.Assign) and isinstance(n.targets[0], ast.Tuple) and len(n.targets[0].elts) == 2:
            v = Nd(n.value)
            if v[0] == "attr" and v[2] == "shape" and mentions_name(v, "phi") and "('c', 0)" in repr(v):
                a, b = [unparse(e) for e in n.targets[0].elts]
                ok = "out" in a and "in" in b
                n_sh += 1
                ctx.ob("R-BIND", cd, f"K.shape -> (out, in) [{a.split('[')[-1].rstrip(']')}]", ok,
                       "rows are the output, columns the input dimension" if ok else f"`{unparse(n)}` binds rows to {a} and columns to {b}", n)
    if n_sh == 0:
        ctx.ob("R-BIND", cd, "K.shape -> (out, in)", None, "shape unpacking not found", required=False)
    for rn, facts, t in _returns(m, cd, inline=False):
        if t[0] == "tuple" and len(t) == 4:
            ok = "in" in show(t[1]) and "out" in show(t[2])
            ctx.ob("R-BIND", cd, "returns (in, out, env)", ok, "order (dim_in, dim_out, dim_e)" if ok else f"returns {show(t)}", rn)
    # finally: dim_in = [dim[0,0], dim[1,0]], dim_out = [dim[0,1], dim[1,1]]
    for n in walk_no_nested(cd.node):
        if isinstance(n, ast.Assign) and isinstance(n.targets[0], ast.Name) and n.targets[0].id in ("dim_in", "dim_out"):
            v = Nd(n.value)
            want_col = 0 if n.targets[0].id == "dim_in" else 1
            idx = [s[2] for s in subterms(v) if isinstance(s, tuple) and s and s[0] == "sub" and s[1] == ("n", "dim") and s[2][0] == "tuple"]
            if idx:
                ok = all(i[2] == ("c", want_col) for i in idx)
                ctx.ob("R-BIND", cd, f"{n.targets[0].id} == dim[:, {want_col}]", ok,
                       f"column {want_col} of dim" if ok else f"`{unparse(n)}` reads the wrong column of dim", n)
    r_live(ctx, cd, "dim")
    r_live(ctx, cd, "allow_rect")
    r_effect_free(ctx, cd, ["phi", "dim"])
    # every caller unpacks channel_dim by role
    for f in m.functions.values():
        if calls_from(m, f, "channel_dim.channel_dim") and f is not ck:
            _channel_dim_roles(ctx, f)


def _inline_names(m, f, t):
    """inline single-assignment locals inside a (non-inlined) term"""
    Ni = Normalizer(m, f, inline=True)

    def rec(x):
        if isinstance(x, tuple):
            if len(x) == 2 and x[0] == "n" and x[1] in Ni.env.single:
                return Ni(Ni.env.single[x[1]])
            y = tuple(rec(z) if isinstance(z, tuple) else z for z in x)
            # subscript of a literal display by a constant: the element
            if y and y[0] == "sub" and y[1][0] in ("list", "tuple") and y[2][0] == "c" and isinstance(y[2][1], int) and 0 <= y[2][1] < len(y[1]) - 1:
                return y[1][1 + y[2][1]]
            return y
        return x
    return rec(t)


def _returns(m, f, inline=True):
    from ..rules import return_terms

    out, _ = return_terms(m, f, inline=inline)
    return out


def _index_pattern(d):
    """[[X[i], Y[j]], [..]] -> [[('mat', i), ('phi', j)], ...] by the root name of each entry."""
    if d[0] == "call" and d[1] == "numpy.array" and d[2]:
        d = d[2][0]
    if d[0] != "list" or len(d) != 3:
        return None
    out = []
    for row in d[1:]:
        if row[0] != "list" or len(row) != 3:
            return None
        r = []
        for e in row[1:]:
            e = _strip(e)
            if e[0] != "sub" or e[2][0] != "c":
                return None
            root = "mat" if mentions_name(e[1], "mat") and not mentions_name(e[1], "phi_op") else "phi" if mentions_name(e[1], "phi_op") else "?"
            r.append((root, e[2][1]))
        out.append(r)
    return out


def _strip(t):
    while t[0] == "call" and t[1] in ("builtins.int", "numpy.round") and t[2]:
        t = t[2][0]
    return t


def _dim_square_pattern(d):
    if d[0] == "call" and d[1] == "numpy.array" and d[2]:
        d = d[2][0]
    if d[0] != "list" or len(d) != 3:
        return None
    rows = d[1:]
    if any(r[0] != "list" or len(r) != 3 for r in rows):
        return None
    return rows[0][1] == rows[0][2] and rows[1][1] == rows[1][2] and rows[0][1] != rows[1][1]


def _channel_dim_roles(ctx, f):
    """Names unpacked from channel_dim(...) carry roles by tuple position; a name saying 'out' at the
    In position (or vice versa) is a role mismatch."""
    m = ctx.model
    role = {}
    for n in walk_no_nested(f.node):
        if isinstance(n, ast.Assign) and isinstance(n.value, ast.Call):
            cal = m.resolve_call(f, n.value)
            if cal.kind == "repo" and cal.func.name == "channel_dim" and isinstance(n.targets[0], ast.Tuple):
                el = n.targets[0].elts
                for pos, e in enumerate(el[:3]):
                    if isinstance(e, ast.Name) and e.id != "_":
                        r = ("in", "out", "env")[pos]
                        role[e.id] = r
                        toks = set(e.id.lower().split("_"))
                        bad = (r == "in" and ("out" in toks or "output" in toks)) or (r == "out" and ("in" in toks or "input" in toks))
                        ctx.ob("R-BIND", f, f"channel_dim()[{pos}] is the {r} dimension", not bad,
                               f"`{e.id}` receives the {r} dimension" if not bad else
                               f"`{e.id}` is bound to position {pos} of channel_dim's result, which is the {r} dimension", n)
                    elif isinstance(e, ast.Tuple):
                        pass
    return role


def _decomposition_conventions(ctx, f):
    m = ctx.model
    N = Normalizer(m, f, inline=False)
    # names bound from eigh / svd
    eig_v = set()
    svd_u = set()
    svd_vh = set()
    for n in walk_no_nested(f.node):
        if isinstance(n, ast.Assign) and isinstance(n.value, ast.Call) and isinstance(n.targets[0], ast.Tuple):
            k = m.resolve_call(f, n.value).key
            names = [e.id if isinstance(e, ast.Name) else None for e in n.targets[0].elts]
            if k in ("numpy.linalg.eigh", "numpy.linalg.eig", "scipy.linalg.eigh") and len(names) == 2:
                eig_v.add(names[1])
            if k in ("numpy.linalg.svd", "scipy.linalg.svd") and len(names) == 3:
                svd_u.add(names[0])
                svd_vh.add(names[2])
    for n in walk_no_nested(f.node):
        if isinstance(n, ast.ListComp):
            it = n.generators[0].iter
            if isinstance(it, ast.Call) and isinstance(it.func, ast.Name) and it.func.id == "zip" and len(it.args) == 2:
                second = N(it.args[1])
                # flow-sensitive: a name that was (re)bound on this path right before the comprehension stands for that value
                from ..rules import _subst, last_def_at
                for _ in range(2):
                    for nm_ in sorted({x[1] for x in subterms(second) if isinstance(x, tuple) and len(x) == 2 and x[0] == "n"}):
                        if f.param(nm_) is None and nm_ not in svd_u | svd_vh:
                            dv_ = last_def_at(m, f, nm_, n, N)
                            if dv_ is not None and not mentions_name(dv_, nm_) and dv_[0] in ("T", "dag", "conj", "n", "sub", "attr"):
                                second = _subst(second, nm_, dv_)
                second = N._T(second[1]) if second[0] == "T" and second[1][0] == "T" else second
                tgt = n.generators[0].target
                vecname = tgt.elts[1].id if isinstance(tgt, ast.Tuple) and len(tgt.elts) == 2 and isinstance(tgt.elts[1], ast.Name) else None
                for nm in eig_v | svd_u:
                    if mentions_name(second, nm):
                        SLA = ("slice", ("c", None), ("c", None), ("c", None))
                        # U.T, or U[:, selection].T (a column selection keeps the vectors as columns)
                        ok = second == ("T", ("n", nm)) or (second[0] == "T" and second[1][0] == "sub" and second[1][1] == ("n", nm) and second[1][2][0] == "tuple"
                                                            and len(second[1][2]) == 3 and second[1][2][1] == SLA)
                        ctx.ob("R-SHAPE", f, f"vectors of {nm} are its columns (iterate {nm}.T)", ok,
                               "eigen/singular vectors are taken column by column" if ok else f"iterating {show(second)} walks rows of a column-vector matrix", n)
                for nm in svd_vh:
                    if mentions_name(second, nm):
                        # vh, or vh[selection] (a row selection keeps the vectors as rows)
                        ok = second == ("n", nm) or (second[0] == "sub" and second[1] == ("n", nm) and second[2][0] != "tuple")
                        ctx.ob("R-SHAPE", f, f"right singular vectors are rows of {nm}", ok,
                               "rows of vh" if ok else f"iterating {show(second)}", n)
                        # must be conjugated: vh rows are conj of v columns
                        elt = N(n.elt)
                        cj = any(isinstance(s, tuple) and s and s[0] == "conj" and vecname and mentions_name(s, vecname) for s in subterms(elt)) or \
                            any(isinstance(s, tuple) and s and s[0] in ("b",) for s in ())
                        cj = cj or "('conj', ('b'" in repr(elt)
                        ctx.ob("R-COV", f, "right singular vectors are conjugated before unvec", cj,
                               "B_i is built from conj(vh row) so that A X B^+ reproduces the map" if cj else
                               f"right operators {show(elt)} use vh rows without conjugation (wrong for complex Choi matrices)", n)


def _hermitian_sign_pairing(ctx, f):
    """Hermitian, non-PSD Choi matrix: J = sum_k lambda_k v_k v_k^+ gives the pairs (A_k, B_k) = (sqrt|lambda_k| unvec v_k, sign(lambda_k) A_k) over the KEPT
    eigenvalues |lambda_k| > tol.  The sign attached to an operator has to be the sign of that operator's own eigenvalue: the signs are
    enumerated through the same selection as the operators.  A count of negative eigenvalues taken over ALL eigenvalues (eigvals < 0) includes
    the numerically-zero ones (-1e-16) that were dropped from the operators, and shifts the sign boundary."""
    m = ctx.model
    key = "Hermitian branch: B_k = sign(lambda_k) A_k, signs enumerated through the same |lambda| > tol selection as the operators"
    # the filter of the operator list
    def thr_of(t):
        """threshold T of a test `abs(x) > T` / `T < abs(x)` (None otherwise)"""
        for c in ast.walk(t):
            if isinstance(c, ast.Compare) and len(c.ops) == 1:
                l, r = c.left, c.comparators[0]
                isabs = lambda e: isinstance(e, ast.Call) and getattr(e.func, "id", getattr(e.func, "attr", "")) in ("abs", "absolute", "fabs")  # noqa: E731
                if isabs(l) and isinstance(c.ops[0], (ast.Gt, ast.GtE)):
                    return unparse(r)
                if isabs(r) and isinstance(c.ops[0], (ast.Lt, ast.LtE)):
                    return unparse(l)
        return None
    sel = None
    for n in walk_no_nested(f.node):
        if isinstance(n, ast.ListComp) and n.generators and n.generators[0].ifs and "eig" in unparse(n.generators[0].iter) and "sqrt" in unparse(n.elt):
            sel = thr_of(n.generators[0].ifs[0])
    signs = [n for n in walk_no_nested(f.node) if isinstance(n, ast.ListComp) and any(isinstance(c, ast.Call) and getattr(c.func, "attr", "") == "sign" for c in ast.walk(n.elt))]
    if sel is None:
        ctx.ob("R-ENUM", f, key, None, "the eigenvalue selection of the operator list was not recognised", required=False)
        return
    thr = sel
    if signs:
        n = signs[0]
        g = n.generators[0]
        it = g.iter
        ok = None
        why = f"`{unparse(n)[:80]}`"
        if isinstance(it, ast.Call) and getattr(it.func, "id", "") == "zip" and len(it.args) == 2:
            a0 = it.args[0]
            same_filter = (isinstance(a0, ast.Call) and getattr(a0.func, "id", "") == "filter" and a0.args and thr_of(a0.args[0]) == thr) or \
                (isinstance(a0, (ast.ListComp, ast.GeneratorExp)) and a0.generators[0].ifs and thr_of(a0.generators[0].ifs[0]) == thr)
            unfiltered = isinstance(a0, ast.Name) and not g.ifs
            if same_filter:
                ok = True
            elif unfiltered:
                ok = False
                why = (f"`{unparse(n)[:80]}` zips ALL eigenvalues with the kept operators: as soon as one eigenvalue is dropped (|lambda| <= tol) every later operator gets its "
                       "neighbour's sign")
        elif g.ifs and thr_of(g.ifs[0]) == thr:
            ok = True
        ctx.ob("R-ENUM", f, key, ok, "zip(filter(|lambda| > tol, eigvals), A)" if ok else why, n, required=ok is not None)
        return
    # no sign(): look for a count of negative eigenvalues used as a split point
    cnt = [c for c in walk_no_nested(f.node) if isinstance(c, ast.Call) and getattr(c.func, "attr", getattr(c.func, "id", "")) in ("count_nonzero", "sum")
           and c.args and isinstance(c.args[0], ast.Compare) and isinstance(c.args[0].ops[0], (ast.Lt, ast.Gt)) and isinstance(c.args[0].left, ast.Name)
           and isinstance(c.args[0].comparators[0], ast.Constant) and c.args[0].comparators[0].value == 0]
    if cnt:
        ctx.ob("R-ENUM", f, key, False,
               f"`{unparse(cnt[0])[:60]}` (line {cnt[0].lineno}) counts the negative eigenvalues among ALL of them, while the operators keep only |lambda| > {thr or 'tol'}: a null "
               "eigenvalue returned as -1e-16 is counted but has no operator, so the first positive-weight operator is negated (rank-deficient Hermiticity-preserving maps)", cnt[0])
    else:
        ctx.ob("R-ENUM", f, key, None, "no sign(lambda) pairing found in the Hermitian branch", required=False)
