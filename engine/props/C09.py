"""C09 -- extended nonlocal games, hedging, cloning (structural clauses)."""

from __future__ import annotations

import ast

from ..effects import effects_on_params
from ..model import calls_in, unparse, walk_no_nested
from ..norm import Normalizer, mentions_name, show, subterms
from ..rules import calls_from, r_effect_free, r_thread, return_terms, value_at
from ..sdp import Skeleton, psd_ok, range_role, shape_roles
from ..symshape import same_monomial
from . import C07

EROLES = ("ref_r", "ref_c", "A_out", "B_out", "A_in", "B_in")


def _purity(ctx, cls):
    m = ctx.model
    for name, meth in sorted(cls.methods.items()):
        if name == "__init__":
            continue
        es = [e for e in effects_on_params(m, meth, [], self_is_owner=True) if e.target.startswith("self:")]
        ctx.ob("R-EFFECT", meth, "no-write:self", not es, "object unchanged" if not es else f"`{es[0].text}` modifies the object's state", es[0].node if es else None)


def strategy_dependence(ctx, f, roles, tensor_attr="pred_mat"):
    """R-ENUM(b): inside a maximisation over strategies, the answer subscripts of the predicate tensor must be able to
    vary with the question subscripts."""
    m = ctx.model
    N = Normalizer(m, f, inline=False)
    for n in walk_no_nested(f.node):
        if not (isinstance(n, ast.AugAssign) and tensor_attr in unparse(n.value)):
            continue
        t = N(n.value)
        preds = [s for s in subterms(t) if isinstance(s, tuple) and s and s[0] == "sub" and s[1] == ("attr", ("n", "self"), tensor_attr)]
        if not preds or preds[0][2][0] != "tuple":
            continue
        idx = [x for x in preds[0][2][1:] if x[0] != "slice"]
        # enclosing loops, outermost first
        loops = []
        def rec(body, stack):
            for st in body:
                if st is n:
                    loops.extend(stack)
                    return True
                for fld in ("body", "orelse"):
                    sub = getattr(st, fld, None)
                    if isinstance(sub, list) and sub and isinstance(sub[0], ast.stmt):
                        if rec(sub, stack + ([st] if isinstance(st, ast.For) else [])):
                            return True
            return False
        rec(f.node.body, [])
        depth = {}
        role = {}
        for d, lp in enumerate(loops):
            if isinstance(lp.target, ast.Name):
                depth[lp.target.id] = d
                role[lp.target.id] = range_role(repr(N(lp.iter)), roles)
        ans = [x for x in idx if x[0] == "n" and (role.get(x[1]) or "").endswith("_out")]
        qs = [x for x in idx if x[0] == "n" and (role.get(x[1]) or "").endswith("_in")]
        if len(ans) + len(qs) != len(idx) or not qs:
            # answers given by lookups f[x] etc.
            dep = all(any(mentions_name(a, q[1]) for q in qs) for a in idx if a not in qs) if qs else None
            ctx.ob("R-ENUM", f, "answers may depend on the question (deterministic answer functions)", True if dep else None,
                   "answer subscripts are looked up per question" if dep else "subscript structure not recognised", n, required=False)
            return
        # a bare answer loop variable whose loop ENCLOSES the question loops is constant across questions
        const = [a[1] for a in ans if all(depth[a[1]] < depth[q[1]] for q in qs)]
        ctx.ob("R-ENUM", f, "answers may depend on the question (deterministic answer functions)", not const,
               "answer loops are nested inside the question loops" if not const else
               f"answers `{', '.join(const)}` are fixed by loops enclosing the loops over the questions: the maximisation only ranges over "
               f"constant answer strategies, not over answer functions f(x), g(y)", n)
        return
    ctx.ob("R-ENUM", f, "answers may depend on the question (deterministic answer functions)", None, "accumulation over the predicate not recognised", required=False)


def hermitian_square(ctx, f, sk, name, rule="R-SHAPE"):
    for v in sk.vars:
        if v.name != name:
            continue
        herm = any(v.attrs.get(k) == ("c", True) for k in ("hermitian", "symmetric", "PSD"))
        sh = v.shape
        if not herm or sh is None or sh[0] != "tuple" or len(sh) != 3:
            continue
        sq = same_monomial(sh[1], sh[2])
        key = f"{name}: Hermitian variable is square"
        if sq is True:
            ctx.ob(rule, f, key, True, f"shape {show(sh)}", v.node)
        elif sq is False:
            ctx.ob(rule, f, key, False,
                   f"`{name}` is declared hermitian=True with shape {show(sh)}: rows {show(sh[1])} and columns {show(sh[2])} differ whenever the two "
                   "players have different numbers of answers (cvxpy rejects it), and where they agree Hermiticity ties K(a,b) to K(b,a)^+", v.node)
        else:
            ctx.ob(rule, f, key, None, f"shape {show(sh)} not comparable", v.node, required=False)


def run(ctx):  # noqa: C901
    m = ctx.model
    ctx.rule("R-ENUM", "the unentangled value ranges over answer FUNCTIONS; objective subscripts by role; product-game odometers")
    ctx.rule("R-SHAPE", "Hermitian-declared variables are square; operands of == / kron agree in symbolic shape")
    ctx.rule("R-SDP", "see-saw, non-signalling, NPA, hedging and cloning programs: constraint families, cones, senses, S1-S3")
    ctx.rule("R-SIB", "mirror programs (max/min hedging, primal/dual) differ only in sense and inequality direction")
    ctx.rule("R-BASE", "traced subsystem lists are 0-based")
    ctx.rule("R-EFFECT", "no method modifies the object")
    eg = [c for c in m.classes.values() if c.name == "ExtendedNonlocalGame"][0]
    _purity(ctx, eg)

    uv = eg.methods["unentangled_value"]
    roles = shape_roles(m, uv, roles=EROLES)
    strategy_dependence(ctx, uv, roles)
    sk = Skeleton(m, uv)
    if sk.probs:
        p = sk.probs[0]
        ctx.ob("R-SDP", uv, "objective sense == max", p.sense == "max", "Maximize" if p.sense == "max" else f"sense {p.sense}", p.node)
        ok, det, nd = psd_ok(sk, "rho")
        ctx.ob("R-SDP", uv, "rho >= 0", ok, det, nd)
        tr = [c for c in sk.reaching()[0] if c.rel == "==" and {repr(c.lhs), repr(c.rhs)} == {repr(("call", "cvxpy.trace", (("n", "rho"),), ())), repr(("c", 1))}]
        ctx.ob("R-SDP", uv, "trace(rho) == 1", bool(tr), "density operator" if tr else "normalisation missing")
        ot = p.objective
        okd = ot is not None and any(isinstance(s, tuple) and s and s[0] == "@" and s[1][0] == ("dag", ("n", "p_win")) and s[1][1] == ("n", "rho") for s in subterms(ot))
        ctx.ob("R-COV", uv, "objective == Re Tr(Dagger(P) rho)", bool(okd), "Hilbert-Schmidt inner product with the averaged referee operator" if okd else f"objective {show(ot)[:80] if ot else '?'}", p.node)
    mx = [n for n in walk_no_nested(uv.node) if isinstance(n, ast.Call) and isinstance(n.func, ast.Name) and n.func.id == "max"]
    ctx.ob("R-ENUM", uv, "value = max over strategies", bool(mx), "max reduction" if mx else "no max over strategies")
    # pruning: a strategy may be skipped without solving only on the strength of an UPPER bound of its value lambda_max(P): trace (P >= 0),
    # a matrix norm, a Gershgorin row sum.  The largest diagonal entry is a LOWER bound of lambda_max -- pruning with it drops optimal strategies
    # whose averaged operator has a flat diagonal and large coherences.
    skips = [n for n in walk_no_nested(uv.node) if isinstance(n, ast.If) and any(isinstance(x, (ast.Continue, ast.Break)) for x in n.body)
             and any(isinstance(y, ast.Name) and y.id in ("max_unent_val",) for y in ast.walk(n.test))]
    if skips:
        tx = unparse(skips[0].test)
        upper = any(k in tx for k in ("np.trace(", "linalg.norm(", "eigvalsh(", "eigh(", "np.sum(np.abs("))
        lower = "diag(" in tx or "diagonal(" in tx
        ctx.ob("R-ENUM", uv, "no strategy is skipped on a bound that is not an upper bound of its value", True if (upper and not lower) else False if lower else None,
               f"pruned with `{tx[:60]}`" if (upper and not lower) else
               f"`if {tx[:70]}: continue` prunes an answer pair with its largest diagonal entry, which bounds lambda_max from BELOW: a pair whose operator is, say, "
               "[[.5, .5], [.5, .5]] (value 1) is skipped once 0.5 has been reached", skips[0], required=lower)
    else:
        ctx.ob("R-ENUM", uv, "no strategy is skipped on a bound that is not an upper bound of its value", True, "every strategy is evaluated")
    C07._objective_terms(ctx, uv, sk, roles, (), pred_positions=("A_out", "B_out", "A_in", "B_in"))

    C07._nonsignaling(ctx, eg.methods["nonsignaling_value"], role_names=EROLES)
    oa = eg.methods.get("_ExtendedNonlocalGame__optimize_alice") or eg.methods["__optimize_alice"]
    ob = eg.methods.get("_ExtendedNonlocalGame__optimize_bob") or eg.methods["__optimize_bob"]
    C07._seesaw(ctx, oa, "A", role_names=EROLES, group_a="rho", group_b="bob_povms", check_shape=False)
    C07._seesaw(ctx, ob, "B", role_names=EROLES, group_a="rho", group_b="bob_povms", check_shape=False,
                bob_target=lambda t: t[0] == "call" and t[1] in ("numpy.identity", "numpy.eye"))
    # F28: Bob's operators (declared shape) vs the identity they must sum to, and vs the operator they are multiplied into
    skb = Skeleton(m, ob)
    rb = shape_roles(m, ob, roles=EROLES)
    Nb = Normalizer(m, ob, inline=False)
    for v in skb.vars:
        if v.name == "bob_povms" and isinstance(v.node, ast.Assign) and v.node.value.args:
            sh = Nb(v.node.value.args[0])
            from ..sdp import sum_constraints
            for s in sum_constraints(skb, "bob_povms"):
                tgt = s["other"]
                if tgt[0] == "call" and tgt[1] in ("numpy.identity", "numpy.eye") and tgt[2] and sh[0] == "tuple":
                    ok = tgt[2][0] == sh[1] == sh[2]
                    r1, r2 = rb.get(sh[1][1]) if sh[1][0] == "n" else None, rb.get(tgt[2][0][1]) if tgt[2][0][0] == "n" else None
                    ctx.ob("R-SHAPE", ob, "Bob's measurement operators and their completeness target have the same size", ok,
                           f"Variable({show(sh)}) sums to identity({show(tgt[2][0])})" if ok else
                           f"operators declared {show(sh)} (role {r1}) must sum to identity({show(tgt[2][0])}) (role {r2}): the see-saw only runs when the "
                           "referee dimension equals Bob's number of answers", s["con"].node)
    # Alice's step: rho is (ref * B_out)^2
    ska = Skeleton(m, oa)
    ra = shape_roles(m, oa, roles=EROLES)
    Na = Normalizer(m, oa, inline=False)
    for v in ska.vars:
        if v.name in ("rho", "tau") and isinstance(v.node, ast.Assign) and v.node.value.args:
            sh = Na(v.node.value.args[0])
            ok = sh[0] == "tuple" and len(sh) == 3 and sh[1] == sh[2] and sh[1][0] == "*" and sorted(ra.get(x[1]) or "?" for x in sh[1][1]) == ["B_out", "ref_r"]
            ctx.ob("R-SHAPE", oa, f"{v.name} acts on referee (x) Bob's space", ok, f"Variable({show(sh)})" if ok else f"{v.name} declared {show(sh)}", v.node)
    qv = eg.methods["quantum_value_lower_bound"]
    for c, cal in calls_from(m, qv, "random_unitary.random_unitary"):
        rq = shape_roles(m, qv, roles=EROLES)
        a = m.bind(c, cal.func).get("dim")
        ok = isinstance(a, ast.Name) and rq.get(a.id) == "B_out"
        ctx.ob("R-BIND", qv, "Bob's starting measurement is a basis of his answer space", ok, "random_unitary(num_outputs_bob)" if ok else f"random_unitary({unparse(a) if isinstance(a, ast.AST) else '?'})", c)
    # NPA
    npa = eg.methods["commuting_measurement_value_upper_bound"]
    skn = Skeleton(m, npa)
    rn = shape_roles(m, npa, roles=EROLES)
    hermitian_square(ctx, npa, skn, "mat")
    Nn = Normalizer(m, npa, inline=False)
    for n in walk_no_nested(npa.node):
        if isinstance(n, ast.Assign) and isinstance(n.value, ast.Call) and m.resolve_call(npa, n.value).key.endswith("npa_constraints"):
            b = m.bind(n.value, m.resolve_call(npa, n.value).func)
            okr = isinstance(b.get("referee_dim"), ast.Name) and rn.get(b["referee_dim"].id) == "ref_r"
            okk = isinstance(b.get("k"), ast.Name) and b["k"].id == "k"
            ctx.ob("R-THREAD", npa, "referee dimension reaches npa_constraints", okr, "forwarded" if okr else "referee_dim not forwarded: blocks are treated as scalars", n)
            ctx.ob("R-THREAD", npa, "hierarchy level k reaches npa_constraints", okk, "forwarded" if okk else "level not forwarded", n)
            names = {x.id for x in ast.walk(n.targets[0]) if isinstance(x, ast.Name)}
            okc = bool(skn.probs) and bool(names & set(skn.probs[0].containers))
            ctx.ob("R-SDP", npa, "S1 NPA constraints reach the problem", okc, "Problem(objective, npa)" if okc else "constraint list not passed to Problem", n)
    if skn.probs:
        ctx.ob("R-SDP", npa, "objective sense == max", skn.probs[0].sense == "max", "Maximize" if skn.probs[0].sense == "max" else f"sense {skn.probs[0].sense}")
    from .npa_common import _block_index
    for n in walk_no_nested(npa.node):
        if isinstance(n, ast.Subscript) and isinstance(n.value, ast.Subscript) and isinstance(n.value.value, ast.Name) and n.value.value.id == "mat" \
                and isinstance(n.slice, ast.Tuple) and len(n.slice.elts) == 2 and isinstance(n.slice.elts[0], ast.Slice):
            loops = {}
            for lp in walk_no_nested(npa.node):
                if isinstance(lp, ast.For) and isinstance(lp.target, ast.Name) and any(x is n for x in ast.walk(lp)):
                    loops[lp.target.id] = range_role(repr(Nn(lp.iter)), rn)
            rbk, cbk = _block_index(n.slice.elts[0], Nn), _block_index(n.slice.elts[1], Nn)
            q = n.value.slice
            qr = tuple(loops.get(e.id) for e in q.elts if isinstance(e, ast.Name)) if isinstance(q, ast.Tuple) else ()
            ok = isinstance(rbk, tuple) and isinstance(cbk, tuple) and rbk[0] == "n" and cbk[0] == "n" and loops.get(rbk[1]) == "A_out" and loops.get(cbk[1]) == "B_out" and qr == ("A_in", "B_in")
            ctx.ob("R-ENUM", npa, "objective block mat[x, y][a-block, b-block] by role", ok, "rows by Alice's answer, columns by Bob's" if ok else
                   f"block indices have roles rows={loops.get(rbk[1]) if isinstance(rbk, tuple) and rbk[0] == 'n' else rbk}, cols={loops.get(cbk[1]) if isinstance(cbk, tuple) and cbk[0] == 'n' else cbk}, questions={qr}", n)
    C07._objective_terms(ctx, npa, skn, rn, (), pred_positions=("A_out", "B_out", "A_in", "B_in"))
    C07._product_game(ctx, eg.methods["__init__"], role_names=EROLES)
    from ..rules import r_dtype_default_buffer
    ctx.rule("R-DTYPE", "buffers that receive slices of the (possibly complex) referee operators are allocated with their dtype")
    r_dtype_default_buffer(ctx, eg.methods["__init__"], "pred_mat")
    from .npa_common import check_npa
    check_npa(ctx)

    # complex referee operators: every matrix variable of every programme is Hermitian, not real symmetric (cvxpy: PSD=True and
    # symmetric=True are REAL symmetric)
    from ..sdp import r_hermitian_vars
    ctx.rule("R-DTYPE", "matrix variables of programmes over complex operators are declared hermitian=True; PSD=True / symmetric=True make them real")
    for meth in ("unentangled_value", "nonsignaling_value", "commuting_measurement_value_upper_bound"):
        r_hermitian_vars(ctx, eg.methods[meth], Skeleton(m, eg.methods[meth]))
    r_hermitian_vars(ctx, oa, ska)
    r_hermitian_vars(ctx, ob, skb)
    _hedging(ctx)
    _clone(ctx)


def _prog(m, f):
    sk = Skeleton(m, f)
    p = sk.probs[0] if sk.probs else None
    cons = sk.reaching(p)[0] if p else []
    return sk, p, cons


def _mirror(ctx, fa, fb, what, flip_rel):
    """Two sibling programs: same objective expression and constraints; senses opposite; relations flipped iff flip_rel."""
    m = ctx.model
    (ska, pa, ca), (skb, pb, cb) = _prog(m, fa), _prog(m, fb)
    key = f"{fa.name} ~ {fb.name}"
    if pa is None or pb is None:
        ctx.ob("R-SIB", fa, key, None, "problem not found", required=False)
        return
    ctx.ob("R-SIB", fa, f"{key}: opposite senses", {pa.sense, pb.sense} == {"max", "min"}, f"{pa.sense} / {pb.sense}" if {pa.sense, pb.sense} == {"max", "min"} else
           f"both programs have sense {pa.sense}/{pb.sense}", pb.node)
    ctx.ob("R-SIB", fa, f"{key}: same objective expression", pa.objective == pb.objective, "identical up to sense" if pa.objective == pb.objective else
           f"{show(pa.objective)[:50]} vs {show(pb.objective)[:50]}", pb.node)
    def sig(c, flip):
        rel = c.rel
        if flip and rel in (">>", "<<"):
            rel = "<<" if rel == ">>" else ">>"
        return (rel, repr(c.lhs), repr(c.rhs), tuple(sorted(repr(sk_.N(t) if p else sk_.N._not(sk_.N(t))) for t, p in c.cond)))
    sk_ = ska
    sa = sorted(sig(c, False) for c in ca)
    sk_ = skb
    sb = sorted(sig(c, flip_rel) for c in cb)
    ctx.ob("R-SIB", fa, f"{key}: same constraints" + (" with the inequality reversed" if flip_rel else ""), sa == sb,
           f"{len(sa)} constraints mirror each other" if sa == sb else f"constraint sets differ: {[x[0] + ' ' + x[1][:40] for x in sa]} vs {[x[0] + ' ' + x[1][:40] for x in sb]}", pb.node)


def _no_entrywise_real(ctx, f):
    """Operator inequalities must be imposed on the operator, not on its entrywise real part (which is basis dependent and
    drops the anti-symmetric imaginary part of a Hermitian expression)."""
    m = ctx.model
    sk = Skeleton(m, f)
    bad = None
    n = 0
    for c in sk.cons:
        if c.rel not in (">>", "<<"):
            continue
        n += 1
        for side in (c.lhs, c.rhs):
            if side[0] == "call" and side[1] in ("cvxpy.real", "numpy.real") or side[0] == "real":
                inner = side[2][0] if side[0] == "call" else side[1]
                if inner != ("c", 0):
                    bad = c
    ctx.ob("R-COV", f, "operator inequalities act on the operator, not on its entrywise real part", bad is None if n else None,
           f"{n} operator inequalit(y/ies) on Hermitian expressions" if bad is None else
           f"`{unparse(bad.node)[:80]}` takes the entrywise real part of a Hermitian operator expression: for complex data the dual is no longer the dual of the primal", bad.node if bad else None, required=bool(n))


def _hedging(ctx):
    m = ctx.model
    qh = [c for c in m.classes.values() if c.name == "QuantumHedging"][0]
    _purity(ctx, qh)
    mp, md, np_, nd = (qh.methods[k] for k in ("max_prob_outcome_a_primal", "max_prob_outcome_a_dual", "min_prob_outcome_a_primal", "min_prob_outcome_a_dual"))
    _mirror(ctx, mp, np_, "primal", False)
    _mirror(ctx, md, nd, "dual", True)
    for pr, du, nm in ((mp, md, "max"), (np_, nd, "min")):
        (_, pp, cp_), (_, pd, cd) = _prog(m, pr), _prog(m, du)
        if pp and pd:
            ctx.ob("R-SDP", pr, f"S5 {nm}: primal and dual have opposite senses", {pp.sense, pd.sense} == {"max", "min"},
                   f"{pp.sense}/{pd.sense}" if {pp.sense, pd.sense} == {"max", "min"} else f"both {pp.sense}", pd.node)
            want = "max" if nm == "max" else "min"
            ctx.ob("R-SDP", pr, f"{nm} primal sense == {want}", pp.sense == want, pp.sense or "?", pp.node)
    for f in (mp, np_):
        sk, p, cons = _prog(m, f)
        if p is None:
            # the programme is not built in this method (delegated to a shared helper): nothing here to decide it by
            ctx.ob("R-SDP", f, "X >= 0", None, "no programme is constructed in this method", required=False)
            continue
        from ..sdp import r_hermitian_vars
        r_hermitian_vars(ctx, f, sk)
        ok, det, ndd = psd_ok(sk, "x_var")
        ctx.ob("R-SDP", f, "X >= 0", ok, det, ndd)
        pt = [c for c in cons if c.rel == "==" and "partial_trace" in repr(c.sides())]
        okp = False
        if pt:
            t = pt[0].lhs if "partial_trace" in repr(pt[0].lhs) else pt[0].rhs
            o = pt[0].rhs if t is pt[0].lhs else pt[0].lhs
            d = dict(t[3]) if t[0] == "call" else {}
            okp = d.get("input_mat") == ("n", "x_var") and d.get("sys") == ("attr", ("n", "self"), "_sys") and d.get("dim") == ("attr", ("n", "self"), "_dim") \
                and o[0] == "call" and o[1] in ("numpy.identity", "numpy.eye")
        ctx.ob("R-SDP", f, "Tr_Y X == I with the object's (sys, dim)", okp, "partial_trace(x_var, self._sys, self._dim) == identity" if okp else "marginal constraint missing or using other subsystems")
        d = sk.dangling()
        ctx.ob("R-SDP", f, "S1 every constraint reaches the problem", not d, "ok" if not d else f"`{unparse(d[0].node)[:50]}` dropped")
        hermitian_square(ctx, f, sk, "x_var")
        rets, _ = return_terms(m, f, inline=True)
        ctx.ob("R-SDP", f, "S3 returns the optimum", all("solve" in repr(t) for _, _, t in rets), "problem.solve()")
        ot = p.objective if p else None
        okd = ot is not None and any(isinstance(s, tuple) and s and s[0] == "@" and s[1][0] == ("dag", ("attr", ("n", "self"), "_q_a")) and s[1][1] == ("n", "x_var") for s in subterms(ot))
        ctx.ob("R-COV", f, "objective == Re Tr(Dagger(Q) X)", bool(okd), "<Q, X>" if okd else f"objective {show(ot)[:70] if ot else '?'}")
    for f in (md, nd):
        sk, p, cons = _prog(m, f)
        from ..sdp import r_hermitian_vars
        r_hermitian_vars(ctx, f, sk)
        # both num_reps branches constrain the same conjugated operator against Q
        brs = [c for c in sk.cons if c.rel in (">>", "<<")]
        rels = {c.rel for c in brs}
        tg = {repr(c.rhs) for c in brs}
        ctx.ob("R-SIB", f, "both repetition branches use the same inequality against Q", len(brs) in (1, 2) and len(rels) == 1 and tg == {repr(("attr", ("n", "self"), "_q_a"))},  # (one constraint when the branch only selects the operator)
               f"{len(brs)} branches, relation {sorted(rels)}" if len(brs) == 2 and len(rels) == 1 and len(tg) == 1 else f"branches differ: {[(c.rel, show(c.rhs)[:20]) for c in brs]}")
        d = sk.dangling()
        ctx.ob("R-SDP", f, "S1 every constraint reaches the problem", not d, "ok" if not d else f"`{unparse(d[0].node)[:50]}` dropped")
        want = ">>" if f is md else "<<"
        ctx.ob("R-SDP", f, f"dual feasibility direction {want}", rels == {want}, f"I (x) Y {want} Q" if rels == {want} else f"relations {sorted(rels)}")
        N = Normalizer(m, f, inline=False)
        kdef = [n for n in walk_no_nested(f.node) if isinstance(n, ast.Assign) and isinstance(n.targets[0], ast.Name) and n.targets[0].id == "kron_var"]
        kt = N(kdef[0].value) if kdef else None
        okdef = kt is not None and kt[0] == "call" and kt[1] == "cvxpy.kron" and len(kt[2]) == 2 and kt[2][1] == ("n", "y_var") and kt[2][0][0] == "call" and kt[2][0][1] in ("numpy.eye", "numpy.identity")
        for c in brs:
            okk = bool(okdef and sk.og.derives_from(c.lhs_node, "kron_var"))
            if not okk and not kdef and isinstance(c.lhs_node, ast.Call) and getattr(m.resolve_call(f, c.lhs_node), "func", None) is not None:
                okk = None  # the operator is built by a helper method: not followed by this rule
            ctx.ob("R-SDP", f, "dual operator is (a permutation of) I (x) Y", okk, "kron(eye, Y) conjugated by the fixed permutation" if okk else f"lhs {show(N(c.lhs_node))[:60]}", c.node)
    for f in (md, nd):
        _no_entrywise_real(ctx, f)
    # subsystems traced: range(0, 2n-1, 2) ; dims [2]*2n
    init = qh.methods["__init__"]
    Ni = Normalizer(m, init, inline=False)
    for n in walk_no_nested(init.node):
        if isinstance(n, ast.Assign) and unparse(n.targets[0]) == "self._sys":
            t = Ni(n.value)
            rng = [s for s in subterms(t) if isinstance(s, tuple) and s and s[0] == "call" and s[1] == "builtins.range"]
            ok = bool(rng) and len(rng[0][2]) == 3 and rng[0][2][0] == ("c", 0) and rng[0][2][2] == ("c", 2)
            ctx.ob("R-BASE", init, "traced subsystems are 0, 2, 4, ... (0-based, Alice's halves)", ok, "range(0, 2n-1, 2)" if ok else f"self._sys = {show(t)[:60]}", n)


def _clone(ctx):
    m = ctx.model
    oc = m.func("optimal_clone.optimal_clone")
    pp = m.func("optimal_clone.primal_problem")
    dp = m.func("optimal_clone.dual_problem")
    (skp, p1, c1), (skd, p2, c2) = _prog(m, pp), _prog(m, dp)
    from ..sdp import r_hermitian_vars
    r_hermitian_vars(ctx, pp, skp)
    r_hermitian_vars(ctx, dp, skd)
    if p1 and p2:
        ctx.ob("R-SDP", pp, "S5 primal max / dual min", (p1.sense, p2.sense) == ("max", "min"), f"{p1.sense}/{p2.sense}")
    ok, det, nd = psd_ok(skp, "x_var")
    ctx.ob("R-SDP", pp, "X >= 0", ok, det, nd)
    pt = [c for c in c1 if c.rel == "==" and "partial_trace" in repr(c.sides())]
    ctx.ob("R-SDP", pp, "Tr X over the counterfeiter's spaces == I", bool(pt), "marginal constraint present" if pt else "marginal constraint missing")
    for sk, f in ((skp, pp), (skd, dp)):
        d = sk.dangling()
        ctx.ob("R-SDP", f, "S1 every constraint reaches the problem", not d, "ok" if not d else f"`{unparse(d[0].node)[:50]}` dropped")
        rets, _ = return_terms(m, f, inline=True)
        ctx.ob("R-SDP", f, "S3 returns the optimum", all("solve" in repr(t) for _, _, t in rets), "problem.solve()")
    hermitian_square(ctx, pp, skp, "x_var")
    brs = [c for c in skd.cons if c.rel in (">>", "<<")]
    ctx.ob("R-SDP", dp, "dual feasibility: I (x) I (x) Y >= Q in both repetition branches", len(brs) in (1, 2) and {c.rel for c in brs} == {">>"},  # (one constraint when the branches only select the operator)
           "both branches `>>`" if len(brs) == 2 and {c.rel for c in brs} == {">>"} else f"{[(c.rel) for c in brs]}")
    _no_entrywise_real(ctx, dp)
    from ..rules import r_dtype_default_buffer
    r_dtype_default_buffer(ctx, oc, "states")
    # layout: optimal_clone permutes Q to blocks by kind (Y_1..Y_n, Z_1..Z_n, X_1..X_n); the dual puts Y on the last block, so the
    # primal must trace out exactly the first 2n subsystems of that ordering (F36: it used the interleaved positions of the
    # unpermuted operator, which only coincide for n = 1 and are equivalent only for real ensembles)
    from ..rules import value_at
    from ..symshape import monomial
    N = Normalizer(m, pp, inline=True)
    okl, detl, nd = None, "partial_trace(x_var, sys, dim) not found in the primal", None
    for c, cal in calls_from(m, pp, "partial_trace.partial_trace"):
        b = m.bind(c, cal.func)
        nd = c
        st = N(b["sys"]) if isinstance(b.get("sys"), ast.AST) else None
        if st is not None and st[0] == "n":
            st = value_at(m, pp, st[1], c, Normalizer(m, pp, inline=False)) or st
        detl = f"traced subsystems {show(st)[:80] if st else '?'} not recognised"
        if st is not None:
            st = N._subst_name(st, "num_spaces", ("c", 3)) if hasattr(N, "_subst_name") else st
            rng = st[2][0] if st[0] == "call" and st[1] == "builtins.list" and st[2] else st
            if rng[0] == "call" and rng[1] == "builtins.range" and len(rng[2]) == 1:
                arg = rng[2][0]
                from ..rules import _subst
                arg = _subst(arg, "num_spaces", ("c", 3))
                mm = monomial(N._mul([arg]) if arg[0] != "*" else arg) if arg[0] in ("*", "n", "c") else None
                if mm is None and arg[0] == "*":
                    mm = monomial(arg)
                if mm is None:
                    # (num_spaces - 1) * num_reps  with num_spaces = 3
                    try:
                        factors = list(arg[1]) if arg[0] == "*" else [arg]
                        coef, rest = 1, []
                        for x in factors:
                            if x[0] == "c":
                                coef *= x[1]
                            elif x[0] == "+" and all(y[0] == "c" for y in x[1]):
                                coef *= sum(y[1] for y in x[1])
                            else:
                                rest.append(x)
                        mm = (coef, {repr(r_): 1 for r_ in rest})
                    except Exception:  # noqa: BLE001
                        mm = None
                okl = mm is not None and mm[0] == 2 and list(mm[1]) == [repr(("n", "num_reps"))]
                detl = "the first 2 * num_reps subsystems (the Y and Z blocks of the permuted ordering)" if okl else f"range({show(arg)}) is not the first 2 * num_reps subsystems"
            elif rng[0] == "call" and rng[1] == "builtins.range" and len(rng[2]) >= 2 and rng[2][0] != ("c", 0):
                okl = False
                detl = f"traced subsystems start at {show(rng[2][0])}, not at the first subsystem: the kept block is not the last one (where the dual puts Y)"
            elif st[0] == "comp" or "%" in repr(st) or "mod" in repr(st).lower():
                okl = False
                detl = ("the traced list keeps every third position (interleaved Y_k Z_k X_k layout), but the objective operator is permuted to blocks "
                        "(Y.., Z.., X..) by pperm for num_reps > 1: the primal keeps the wrong spaces and disagrees with the dual for complex ensembles")
    ctx.ob("R-LAYOUT", pp, "primal traces out the Y and Z blocks of the permuted ordering (first 2 * num_reps subsystems)", okl, detl, nd, required=okl is not None)
    # the permutation built in optimal_clone groups the copies of each space: perm = [i + num_spaces * j]
    okp = None
    No = Normalizer(m, oc, inline=False)
    for lp in walk_no_nested(oc.node):
        if isinstance(lp, ast.For) and No(lp.iter) == ("call", "builtins.range", (("n", "num_spaces"),), ()) and isinstance(lp.target, ast.Name):
            inner = [x for x in ast.walk(lp) if isinstance(x, ast.For) and x is not lp]
            apps = [x for x in ast.walk(lp) if isinstance(x, ast.Call) and getattr(x.func, "attr", "") == "append" and x.args]
            if inner and len(apps) == 2 and isinstance(inner[0].target, ast.Name):
                jv = inner[0].target.id
                first = No(apps[0].args[0])
                second = No(apps[1].args[0])
                iv = lp.target.id
                # names that hold the outer index inside the loop body (`var = i`)
                same = {iv} | {x.targets[0].id for x in ast.walk(lp) if isinstance(x, ast.Assign) and len(x.targets) == 1 and isinstance(x.targets[0], ast.Name)
                               and isinstance(x.value, ast.Name) and x.value.id == iv}
                stride = ("*", tuple(sorted([("n", jv), ("n", "num_spaces")], key=repr)))
                okp = first == ("n", iv) and second[0] == "+" and len(second[1]) == 2 and stride in second[1] and \
                    any(x[0] == "n" and x[1] in same for x in second[1]) and No(inner[0].iter) == ("call", "builtins.range", (("c", 1), ("n", "num_reps")), ())
    ctx.ob("R-LAYOUT", oc, "pperm groups the n copies of each of the three spaces: perm = [i + 3 j]", okp, "blocks (Y.., Z.., X..)" if okp else "permutation construction changed" if okp is False else "permutation construction not recognised", required=okp is not None)
    # strategy flag and threading
    for callee in ("primal_problem", "dual_problem"):
        for p in ("q_a", "pperm", "num_reps"):
            pass
        sites = calls_from(m, oc, f"optimal_clone.{callee}")
        ctx.ob("R-THREAD", oc, f"{callee}(q_a, pperm, num_reps)", bool(sites) and [unparse(a) for a in sites[0][0].args] == ["q_a", "pperm", "num_reps"],
               "operator, permutation and repetition count forwarded" if sites else f"{callee} not called")
    from .. import flow as flw
    Nn = Normalizer(m, oc, inline=False)
    for c, cal in calls_from(m, oc, "optimal_clone.primal_problem"):
        hit = flw.find_stmt_of(oc.node, c)
        conds = [(Nn(t), pol) for t, pol in flw.conds(hit[1])] if hit else []
        ok = (("n", "strategy"), True) in conds
        ctx.ob("R-THREAD", oc, "strategy=True selects the primal program", ok, "if strategy: primal" if ok else "primal program not selected by `strategy`", c)
    # Q = sum_k p_k |psi psi conj(psi)><...|
    for n in walk_no_nested(oc.node):
        if isinstance(n, ast.AugAssign) and isinstance(n.target, ast.Name) and n.target.id == "q_a":
            t = Nn(n.value)
            prod = [s for s in subterms(t) if isinstance(s, tuple) and s and s[0] == "@" and len(s[1]) == 2]
            first = prod[0][1][0] if prod else None
            if first is not None and first[0] == "*":
                vs_ = [x for x in first[1] if x[0] == "call"]
                first = vs_[0] if len(vs_) == 1 else first
            okd = bool(prod) and prod[0][1][1] == ("dag", first)
            ctx.ob("R-COV", oc, "Q term is |v><v| with Dagger", okd, "v @ Dagger(v)" if okd else f"{show(t)[:80]}", n)
            # the ket may be a 1-D array or a column: `v @ v.conj().T` of a 1-D array is the scalar <v|v>, which is then broadcast over
            # the whole of Q (F55); np.outer (or an explicit reshape to a column) does not depend on the rank of the array
            uses_outer = any(isinstance(x, ast.Call) and (m.resolve_call(oc, x).key or "") == "numpy.outer" for x in ast.walk(n.value))
            colform = any(isinstance(x, ast.Call) and ((isinstance(x.func, ast.Attribute) and x.func.attr == "reshape") or
                                                        (m.resolve_call(oc, x).key or "").endswith(("to_density_matrix", "atleast_2d"))) for x in ast.walk(oc.node))
            ctx.ob("R-SHAPE", oc, "|v><v| is formed independently of the ket's array rank (outer product / explicit column)", uses_outer or colform,
                   "np.outer(v, conj(v))" if uses_outer else "kets are reshaped to columns first" if colform else
                   f"`{unparse(n.value)[:70]}`: for kets given as 1-D arrays the matrix product is the inner product <v|v> (a scalar), which += broadcasts over Q "
                   "-- optimal_clone([e0, e1, e+, e-] as 1-D arrays, [1/4]*4) returns 8.0 instead of 0.75", n)
            if okd:
                v = first
                if v[0] == "n":
                    dfs = [x.value for x in ast.walk(oc.node) if isinstance(x, ast.Assign) and len(x.targets) == 1 and isinstance(x.targets[0], ast.Name) and x.targets[0].id == v[1]]
                    v = Nn(dfs[0]) if len(dfs) == 1 else v
                args = [a for a in v[3]] if v[0] == "call" else []
                argv = [x for _, x in sorted(args)] if args else []
                star = [x for x in subterms(v) if x == ("conj", ("n", "state"))]
                ctx.ob("R-COV", oc, "v == psi (x) psi (x) conj(psi)", len(star) == 1, "third factor conjugated" if len(star) == 1 else f"{show(v)[:80]}", n)
            okw = any(s == ("sub", ("n", "probs"), ("n", "k")) for s in subterms(t))
            lp = [l for l in walk_no_nested(oc.node) if isinstance(l, ast.For) and any(x is n for x in ast.walk(l))]
            oke = bool(lp) and unparse(lp[0].iter) == "enumerate(states)" and unparse(lp[0].target) == "(k, state)"
            ctx.ob("R-ENUM", oc, "weight p_k paired with state k, all states", okw and oke, "probs[k] * |psi_k...|" if okw and oke else "weights and states are not paired index by index", n)
