"""C14 -- entanglement / entropy quantities (structural clauses)."""

from __future__ import annotations

import ast
from fractions import Fraction

from .. import flow as flw
from ..dataflow import origins
from ..layout import has_reversal, reshape_sites
from ..model import calls_in, unparse, walk_no_nested
from ..norm import Normalizer, calls_to, kwarg, mentions_name, show, subterms
from ..rules import calls_from, r_effect_free, r_guard_pred, r_kind_int, r_live, r_thread, return_terms
from ..sdp import Skeleton, psd_ok
from .C13 import cov_check, formula, schatten_class


def layout_rule(ctx, f, pname="dim", quiet=False):
    """reshape whose shape is the (reversed) local-dimension vector: reversed <=> order='F'."""
    m = ctx.model
    og = origins(f)
    N = Normalizer(m, f, inline=False)
    n = 0
    for r in reshape_sites(m, f):
        if r["kind"] != "reshape" or not r["shape"]:
            continue
        if len(r["shape"]) != 1:
            continue
        sh = N(r["shape"][0])
        if not og.derives_from(r["shape"][0], pname):
            continue
        # only shapes that ARE the dimension vector (possibly reversed / cast), not computed products
        core = sh
        while core[0] == "call" and isinstance(core[1], tuple) and core[1][0] == "attr" and core[1][2] == "astype":
            core = core[1][1]
        if not (core == ("n", pname) or (core[0] == "sub" and core[1] == ("n", pname) and core[2][0] == "slice")):
            continue
        n += 1
        rev = has_reversal(sh)
        ok = (rev and r["order"] == "F") or (not rev and r["order"] == "C")
        ctx.ob("R-LAYOUT", f, "reshape(dims reversed)<=>order=F", ok,
               f"{'reversed' if rev else 'plain'} dims with order='{r['order']}'" if ok else
               f"the amplitude vector is reshaped with {'reversed' if rev else 'unreversed'} local dims and order='{r['order']}': rows/columns no longer "
               "correspond to the two subsystems when the local dimensions differ", r["node"])
    if n == 0 and not quiet:
        ctx.ob("R-LAYOUT", f, "reshape(dims reversed)<=>order=F", None, "no reshape by the dimension vector found", required=False)


def run(ctx):  # noqa: C901
    m = ctx.model
    ctx.rule("R-LAYOUT", "Schmidt data: amplitude vector reshaped with reversed dims <=> column-major; returned factor order matches")
    ctx.rule("R-KIND", "dimension argument given as scalar int / list / omitted: every declared kind has a path")
    ctx.rule("R-NORM", "negativity family uses the Schatten-1 norm of the partial transpose")
    ctx.rule("R-SIB", "negativity and log-negativity share the core quantity")
    ctx.rule("R-GUARD", "density / dimension validation dominates")
    ctx.rule("R-COV", "purity and entropy are unitarily invariant")
    ctx.rule("R-THREAD", "dim (and k) reach every helper")
    ctx.rule("R-SDP", "S(k)-norm bounds are refined monotonically (max for lower, min for upper) and returned in (lower, upper) order")
    sr = m.func("schmidt_rank.schmidt_rank")
    sdc = m.func("schmidt_decomposition.schmidt_decomposition")
    layout_rule(ctx, sr)
    layout_rule(ctx, sdc)
    for f, p in ((sr, "dim"), (sdc, "dim"), (m.func("is_product.is_product"), "dim"), (m.func("negativity.negativity"), "dim"),
                 (m.func("log_negativity.log_negativity"), "dim"), (m.func("entanglement_of_formation.entanglement_of_formation"), "dim"),
                 (m.func("sk_vec_norm.sk_vector_norm"), "dim"), (m.func("sk_norm.sk_operator_norm"), "dim"), (m.func("is_block_positive.is_block_positive"), "dim"),
                 (m.func("schmidt_rank._operator_schmidt_rank"), "dim"), (m.func("schmidt_decomposition._operator_schmidt_decomposition"), "dim")):
        r_kind_int(ctx, f, p)
    # ---- Schmidt decomposition: svd of the reshaped vector, returned as (s, A-factors, B-factors) -------
    N = Normalizer(m, sdc, inline=False)
    svd = [n for n in walk_no_nested(sdc.node) if isinstance(n, ast.Assign) and isinstance(n.value, ast.Call) and m.resolve_call(sdc, n.value).key == "numpy.linalg.svd" and isinstance(n.targets[0], ast.Tuple)]
    if svd:
        names = [e.id for e in svd[0].targets[0].elts]
        rets, _ = return_terms(m, sdc, inline=False)
        fin = [t for rn, facts, t in rets if t[0] == "tuple" and len(t) == 4]
        if fin:
            got = [x[1] if x[0] == "n" else None for x in fin[-1][1:]]
            rs = [r for r in reshape_sites(m, sdc) if r["kind"] == "reshape" and r["order"] == "F"]
            # reversed/F layout: rows index the SECOND subsystem, so the first subsystem's vectors come from vh
            want = [names[1], names[2], names[0]] if rs else [names[1], names[0], names[2]]
            ctx.ob("R-LAYOUT", sdc, "returned factors ordered (coefficients, first subsystem, second subsystem)", got == want,
                   f"returns {got}" if got == want else f"returns {got}; with this reshape layout the first-subsystem vectors are `{want[1]}`")
        tr = any(isinstance(n, ast.Assign) and isinstance(n.targets[0], ast.Name) and n.targets[0].id == names[2] and N(n.value) == ("T", ("n", names[2])) for n in walk_no_nested(sdc.node))
        ctx.ob("R-COV", sdc, "right singular vectors transposed, not conjugated", tr, "vt.T (so that sum s_i a_i (x) b_i rebuilds the state)" if tr else "vt is not transposed (or is conjugated): the factors no longer rebuild the state")
        # truncation applied to all three consistently
        cuts = {}
        for n in walk_no_nested(sdc.node):
            if isinstance(n, ast.Assign) and isinstance(n.targets[0], ast.Name) and isinstance(n.value, ast.Subscript) and isinstance(n.value.value, ast.Name) and n.value.value.id == n.targets[0].id:
                t = N(n.value.slice)
                bound = [s for s in subterms(t) if isinstance(s, tuple) and s and s[0] == "slice"]
                if bound:
                    cuts.setdefault(show(bound[-1][2]), set()).add(n.targets[0].id)
        for b, who in cuts.items():
            ctx.ob("R-SIB", sdc, f"truncation to {b} applied to coefficients and both factor sets", who == set(names), f"{sorted(who)}" if who == set(names) else f"only {sorted(who)} truncated to {b}")
    r_live(ctx, sdc, "k_param")
    r_effect_free(ctx, sdc, ["rho", "dim"])
    # operator branches delegate with dim
    r_thread(ctx, sr, "dim", "schmidt_rank._operator_schmidt_rank")
    r_thread(ctx, sdc, "dim", "schmidt_decomposition._operator_schmidt_decomposition")
    r_thread(ctx, sdc, "k_param", "schmidt_decomposition._operator_schmidt_decomposition")

    # ---- negativity family ------------------------------------------------------------------------------
    ng, lg = m.func("negativity.negativity"), m.func("log_negativity.log_negativity")
    cores = {}
    for f in (ng, lg):
        Nf = Normalizer(m, f, inline=False)
        rets, _ = return_terms(m, f, inline=False)
        for rn, facts, t in rets:
            nc = calls_to(t, "numpy.linalg.norm")
            if not nc:
                ctx.ob("R-NORM", f, "trace norm of the partial transpose", None, "no norm call in the result", required=False)
                continue
            c = nc[0]
            cl = schatten_class(c)
            ctx.ob("R-NORM", f, "trace norm of the partial transpose", cl == "1", f"ord='nuc'" if cl == "1" else f"the norm taken is Schatten-{cl}, negativity needs the trace norm", rn)
            arg = c[2][0]
            okpt = arg[0] == "call" and str(arg[1]).endswith("partial_transpose") and arg[2][:1] == (("n", "rho"),) and len(arg[2]) >= 3 and arg[2][2] == ("n", "dim")
            ctx.ob("R-THREAD", f, "partial transpose of rho on one party with the normalised dims", okpt, "partial_transpose(rho, [1], dim)" if okpt else f"norm operand {show(arg)[:70]}", rn)
            cores[f.name] = c
            if f is ng:
                ok = t == ("*", tuple(sorted([("c", Fraction(1, 2)), ("+", tuple(sorted([c, ("c", -1)], key=repr)))], key=repr)))
                ctx.ob("R-PRED", f, "negativity == (||rho^T_B||_1 - 1) / 2", ok, "closed form" if ok else f"returns {show(t)[:80]}", rn)
            else:
                ok = t == ("call", "numpy.log2", (c,), ())
                ctx.ob("R-PRED", f, "log-negativity == log2 ||rho^T_B||_1", ok, "closed form" if ok else f"returns {show(t)[:80]}", rn)
        # dims product guard
        res = flw.flow(f.node)
        okg = any(flw.conds(ff) and "numpy.prod" in repr(Nf(flw.conds(ff)[-1][0])) and "rho_dims" in repr(Nf(flw.conds(ff)[-1][0])) for _, ff in res.raises)
        ctx.ob("R-GUARD", f, "prod(dim) == size(rho) validated", okg, "mismatch raises" if okg else "dimension-product guard missing")
        r_live(ctx, f, "dim")
    if len(cores) == 2:
        ctx.ob("R-SIB", ng, "negativity and log-negativity use the same core norm", cores["negativity"] == cores["log_negativity"], "identical" if cores["negativity"] == cores["log_negativity"] else "the two functions compute different core quantities")
    # prologue agreement
    def prologue(f):
        out = []
        for st in f.node.body:
            if isinstance(st, ast.Return):
                break
            if isinstance(st, ast.Expr) and isinstance(st.value, ast.Constant):
                continue
            if isinstance(st, ast.Assign) and len(st.targets) == 1 and isinstance(st.targets[0], ast.Name) and \
                    not any(isinstance(x, ast.Name) and x.id == st.targets[0].id and isinstance(x.ctx, ast.Load) for x in ast.walk(f.node)):
                continue  # a local nothing reads cannot make the siblings differ
            out.append(ast.dump(st))
        return out
    ctx.ob("R-SIB", lg, "shared dimension prologue identical to negativity's", prologue(ng) == prologue(lg), "same statements" if prologue(ng) == prologue(lg) else "the dimension handling of the two siblings has diverged")

    # ---- purity / entropy / coherence -----------------------------------------------------------------------
    pu, vn, l1 = m.func("purity.purity"), m.func("von_neumann_entropy.von_neumann_entropy"), m.func("l1_norm_coherence.l1_norm_coherence")
    for f in (pu, vn):
        r_guard_pred(ctx, f, "is_density", "rho")
        cov_check(ctx, f, ("rho",))
    formula(ctx, pu, "purity == Tr(rho^2)", lambda t: (t[1] if t[0] == "real" else t) in (
        ("call", "numpy.trace", (("call", "numpy.linalg.matrix_power", (("n", "rho"), ("c", 2)), ()),), ()),
        ("call", "numpy.trace", (("@", (("n", "rho"), ("n", "rho"))),), ())), ("numpy.trace", "numpy.linalg.matrix_power"))
    # entropy: -sum(real(p * log2 p)) over positive eigenvalues
    rets, Nv = return_terms(m, vn, inline=False)
    for rn, facts, t in rets:
        ok = t[0] == "neg" and t[1][0] == "call" and t[1][1] == "numpy.sum" and "numpy.log2" in repr(t)
        ctx.ob("R-PRED", vn, "entropy == -sum p log2 p", ok, "closed form" if ok else f"returns {show(t)[:80]}", rn)
    flt = [n for n in walk_no_nested(vn.node) if isinstance(n, ast.ListComp) and n.generators[0].ifs]
    from .. import pmatch
    okf = None
    if flt:
        g = flt[0].generators[0]
        tv = unparse(g.target)
        cond = g.ifs[0]
        mt = lambda src: pmatch.match(src, cond) is not None  # noqa: E731
        simple = isinstance(cond, ast.Compare) and len(cond.ops) == 1 and {type(cond.left), type(cond.comparators[0])} <= {ast.Name, ast.Constant, ast.UnaryOp}
        okf = True if (mt(f"{tv} > 0") or mt(f"0 < {tv}") or mt(f"{tv} > 0.0") or mt(f"0.0 < {tv}")) else False if simple else None
    else:
        okf = False if not any(isinstance(n, ast.Compare) for n in walk_no_nested(vn.node)) else None
    ctx.ob("R-PRED", vn, "zero eigenvalues are dropped (0 log 0 = 0)", okf, "eigenvalue > 0 filter" if okf else "the positive-eigenvalue filter is gone or altered (0 * log2(0) = nan)" if okf is False else "filter not recognised", required=okf is not None)
    # l1 coherence: positive control (basis dependent by definition) + formula
    from ..cov import BASIS, CovTyper
    ct = CovTyper(m, l1, ["rho"])
    r = ct.result_type()
    ctx.ob("R-COV", l1, "positive control: l1-norm of coherence is typed Basis", r == BASIS, "entrywise abs detected" if r == BASIS else f"typed {r}: the Basis detector no longer fires on a basis-dependent quantity")
    rets, _ = return_terms(m, l1, inline=False)
    for rn, facts, t in rets:
        ok = t[0] == "+" and any(x[0] == "neg" and x[1] == ("call", "numpy.trace", (("n", "rho"),), ()) for x in t[1]) and "numpy.abs" in repr(t) and repr(t).count("numpy.sum") >= 1
        ctx.ob("R-PRED", l1, "l1 coherence == sum |rho_ij| - Tr rho", ok, "off-diagonal moduli" if ok else f"returns {show(t)[:80]}", rn)
    # ---- concurrence / entanglement of formation -----------------------------------------------------------
    cc = m.func("concurrence.concurrence")
    Nc = Normalizer(m, cc, inline=False)
    res = flw.flow(cc.node)
    okg = any(flw.conds(ff) and "('tuple', ('c', 4), ('c', 4))" in repr(Nc(flw.conds(ff)[-1][0])) for _, ff in res.raises)
    ctx.ob("R-GUARD", cc, "4x4 input required", okg, "non two-qubit inputs raise" if okg else "shape guard missing")
    for n in walk_no_nested(cc.node):
        if isinstance(n, ast.Assign) and isinstance(n.targets[0], ast.Name) and n.targets[0].id == "rho_tilde":
            t = Nc(n.value)
            ok = t[0] == "@" and len(t[1]) == 3 and t[1][0] == t[1][2] and t[1][1] == ("conj", ("n", "rho"))
            ctx.ob("R-COV", cc, "spin flip == (Y(x)Y) conj(rho) (Y(x)Y)", ok, "entrywise conjugate, no transpose" if ok else f"rho_tilde = {show(t)[:70]}", n)
    rets, _ = return_terms(m, cc, inline=False)
    for rn, facts, t in rets:
        ok = t[0] == "call" and t[1] == "builtins.max" and ("c", 0) in t[2] and any(x[0] == "+" and sum(1 for y in x[1] if y[0] == "neg") == 3 for x in t[2])
        ctx.ob("R-PRED", cc, "concurrence == max(0, l0 - l1 - l2 - l3)", ok, "closed form" if ok else f"returns {show(t)[:80]}", rn)
    srt = any(isinstance(n, ast.Subscript) and isinstance(n.value, ast.Call) and m.resolve_call(cc, n.value).key == "numpy.sort" and isinstance(n.slice, ast.Slice) and
              isinstance(n.slice.step, ast.UnaryOp) for n in walk_no_nested(cc.node))
    ctx.ob("R-PRED", cc, "eigenvalue roots sorted in decreasing order", srt, "np.sort(...)[::-1]" if srt else "descending sort is gone")
    ef = m.func("entanglement_of_formation.entanglement_of_formation")
    Ne = Normalizer(m, ef, inline=False)
    for c, cal in calls_from(m, ef, "partial_trace.partial_trace"):
        b = m.bind(c, cal.func)
        t = Ne(b["input_mat"])
        ok = t == ("@", (("n", "rho"), ("dag", ("n", "rho")))) and isinstance(b.get("dim"), ast.Name) and b["dim"].id == "dim"
        ctx.ob("R-COV", ef, "pure case: entropy of Tr_B |psi><psi| with the given dims", ok, "partial_trace(rho @ Dagger(rho), [1], dim)" if ok else f"operand {show(t)[:60]}", c)
    okh = False
    for n in walk_no_nested(ef.node):
        if isinstance(n, ast.Assign) and isinstance(n.targets[0], ast.Name) and n.targets[0].id == "rho_c1":
            t = Ne(n.value)
            okh = t == ("*", tuple(sorted([("c", Fraction(1, 2)), ("+", tuple(sorted([("c", 1), ("call", "numpy.sqrt", (("+", tuple(sorted([("c", 1), ("neg", ("**", ("n", "rho_c"), ("c", 2)))], key=repr))),), ())], key=repr)))], key=repr)))
    ctx.ob("R-PRED", ef, "two-qubit case: h((1 + sqrt(1 - C^2)) / 2)", okh, "Wootters formula argument" if okh else "the argument of the binary entropy differs from (1 + sqrt(1 - C^2))/2")
    # ---- S(k) norms -----------------------------------------------------------------------------------------
    sv = m.func("sk_vec_norm.sk_vector_norm")
    for c, cal in calls_from(m, sv, "schmidt_decomposition.schmidt_decomposition"):
        b = m.bind(c, cal.func)
        ok = all(isinstance(b.get(k), ast.Name) and b[k].id == v for k, v in (("rho", "rho"), ("dim", "dim"), ("k_param", "k")))
        ctx.ob("R-THREAD", sv, "schmidt_decomposition(rho, dim, k)", ok, "k largest coefficients with the caller's dims" if ok else f"called as {unparse(c)}", c)
    Ns = Normalizer(m, sv, inline=False)
    big = [n for n in walk_no_nested(sv.node) if isinstance(n, ast.If) and "builtins.min" in repr(Ns(n.test))]
    want_big = ("cmp", "<=", ("call", "builtins.min", (("n", "dim"),), ()), ("n", "k"))
    okb = bool(big) and Ns(big[0].test) == want_big
    if big and not okb and big[0].orelse and Ns(big[0].test) == Ns._not(want_big):
        # branches exchanged: the shortcut (plain norm, no Schmidt decomposition) must then be the else branch
        okb = not any(isinstance(x, ast.Call) and "schmidt_decomposition" in unparse(x.func) for s_ in big[0].orelse for x in ast.walk(s_)) and \
            any(isinstance(x, ast.Call) and "schmidt_decomposition" in unparse(x.func) for s_ in big[0].body for x in ast.walk(s_))
    ctx.ob("R-PRED", sv, "k >= min(dim) => plain Euclidean norm", okb, "shortcut condition" if okb else "shortcut condition changed")
    so = m.func("sk_norm.sk_operator_norm")
    _monotone_bounds(ctx, so)
    # any reshape by the local-dimension vector, anywhere in the property's functions, pairs reversal with column-major order
    for q_ in sorted(ctx.analysed_functions):
        g_ = m.functions.get(q_)
        if g_ is not None and g_.param("dim") is not None and g_.name not in ("schmidt_rank", "schmidt_decomposition"):
            layout_rule(ctx, g_, "dim", quiet=True)
    sk_reference_forms(ctx, so)
    # Proposition 4.2.11: upper bound = (k^2, 2)-norm of the realigned operator
    Nso = Normalizer(m, so, inline=False)
    for c, cal in calls_from(m, so, "kp_norm.kp_norm"):
        b = m.bind(c, cal.func)
        if isinstance(b.get("mat"), ast.Call) and m.resolve_call(so, b["mat"]).key.endswith("realignment.realignment"):
            kt, pt_ = Nso(b["k"]), Nso(b["p"])
            ok = kt == ("**", ("n", "k"), ("c", 2)) and pt_ == ("c", 2)
            ctx.ob("R-BIND", so, "realignment bound is the (k**2, 2)-norm", ok, "kp_norm(realignment(X), k**2, 2)" if ok else
                   f"kp_norm(realignment(X), {show(kt)}, {show(pt_)}): keeping fewer than k^2 singular values gives a number below values attained by Schmidt-rank-k vectors, so it is not an upper bound", c)
            rb_ = m.bind(b["mat"], m.resolve_call(so, b["mat"]).func)
            okd = isinstance(rb_.get("dim"), ast.Name) and rb_["dim"].id == "dim" and isinstance(rb_.get("input_mat"), ast.Name) and rb_["input_mat"].id == "mat"
            ctx.ob("R-THREAD", so, "realignment(mat, dim) inside the bound", okd, "operand and dims forwarded" if okd else f"called as {unparse(b['mat'])[:50]}", c)
    # operator vectorisation: rho (rows (r_1, r_2), columns (c_1, c_2)) -> vec grouped as (r_1, c_1 | r_2, c_2)
    for g in (m.func("schmidt_rank._operator_schmidt_rank"), m.func("schmidt_decomposition._operator_schmidt_decomposition"), m.func("is_product._operator_is_product")):
        _operator_vectorisation(ctx, g)
    for c, cal in calls_from(m, so, "sk_vec_norm.sk_vector_norm"):
        b = m.bind(c, cal.func)
        ok = isinstance(b.get("k"), ast.Name) and b["k"].id == "k" and isinstance(b.get("dim"), ast.Name) and b["dim"].id == "dim"
        ctx.ob("R-THREAD", so, "sk_vector_norm(., k, dim)", ok, "k and dim forwarded" if ok else f"called as {unparse(c)[:60]}", c)
    sk = Skeleton(m, so)
    for p in sk.probs:
        ctx.ob("R-SDP", so, f"relaxation at line-order {sk.probs.index(p)}: objective sense == max (upper bound)", p.sense == "max", p.sense or "?", p.node)
    reach = sk.reaching()[0]
    n_psd = [c for c in reach if c.rel == ">>" and c.lhs == ("n", "rho") and c.rhs == ("c", 0)]
    n_tr = [c for c in reach if (c.rel == "<=" and c.rhs == ("c", 1) and "cvxpy.trace" in repr(c.lhs)) or (c.rel == ">=" and c.lhs == ("c", 1) and "cvxpy.trace" in repr(c.rhs))]
    ctx.ob("R-SDP", so, "every relaxation keeps rho >= 0 and Tr rho <= 1", len(n_psd) >= 2 and len(n_tr) >= 2, f"{len(n_psd)} PSD / {len(n_tr)} trace constraints" )
    ppt = [c for c in reach if c.rel == ">>" and c.rhs == ("c", 0) and "partial_transpose" in repr(c.lhs)]
    ctx.ob("R-SDP", so, "PPT constraints present in the k == 1 relaxations", len(ppt) >= 2, f"{len(ppt)} PPT constraints")
    d = sk.dangling()
    ctx.ob("R-SDP", so, "S1 every constraint reaches its problem", not d, "ok" if not d else f"`{unparse(d[0].node)[:50]}` dropped")
    ib = m.func("is_block_positive.is_block_positive")
    for c, cal in calls_from(m, ib, "sk_norm.sk_operator_norm"):
        b = m.bind(c, cal.func)
        ok = all(isinstance(b.get(k), ast.Name) and b[k].id == v for k, v in (("k", "k"), ("dim", "dim"), ("effort", "effort")))
        ctx.ob("R-THREAD", ib, "sk_operator_norm(c*I - X, k, dim, ., effort)", ok, "k, dim, effort forwarded" if ok else f"called as {unparse(c)[:70]}", c)
    # product test threading
    ip, ipr, iop = m.func("is_product.is_product"), m.func("is_product._is_product"), m.func("is_product._operator_is_product")
    r_thread(ctx, ip, "dim", "is_product._is_product")
    r_thread(ctx, ipr, "dim", "is_product._operator_is_product")
    r_thread(ctx, ipr, "dim", "schmidt_decomposition.schmidt_decomposition")
    for c, cal in calls_from(m, ipr, "schmidt_decomposition.schmidt_decomposition"):
        b = m.bind(c, cal.func)
        ok = isinstance(b.get("k_param"), ast.Constant) and b["k_param"].value == 2
        ctx.ob("R-BIND", ipr, "two Schmidt coefficients requested (product iff the second vanishes)", ok, "k_param=2" if ok else f"k_param={unparse(b['k_param']) if isinstance(b.get('k_param'), ast.AST) else '?'}", c)
    # the vectorised operator on subsystems 1..n has local dimensions (rows_s * cols_s): the product DOWN each column of the two-row
    # dim table (axis 0); a product along the rows gives [prod of all row dims, prod of all column dims]
    for iop, callee_ in ((m.func("is_product._operator_is_product"), "is_product.is_product"),
                         (m.func("schmidt_rank._operator_schmidt_rank"), "schmidt_rank.schmidt_rank"),
                         (m.func("schmidt_decomposition._operator_schmidt_decomposition"), "schmidt_decomposition.schmidt_decomposition")):
      for c, cal in calls_from(m, iop, callee_):
        b = m.bind(c, cal.func)
        d = b.get("dim")
        if not isinstance(d, ast.AST):
            continue
        td = Normalizer(m, iop, inline=True)(d)
        while td[0] == "call" and ((isinstance(td[1], tuple) and td[1][0] == "attr" and td[1][2] in ("astype", "tolist")) or td[1] in ("builtins.list", "numpy.array", "numpy.asarray", "numpy.int_")):
            td = td[1][1] if isinstance(td[1], tuple) else td[2][0]
        okax = None
        why = f"local dims `{unparse(d)[:60]}` not recognised"
        if td[0] == "call" and td[1] == "numpy.prod" and td[2] and td[2][0] == ("n", "dim"):
            ax = kwarg(td, "axis") if kwarg(td, "axis") is not None else (td[2][1] if len(td[2]) > 1 else None)
            okax = ax == ("c", 0)
            why = "prod(dim, axis=0): rows_s * cols_s per subsystem" if okax else f"prod(dim, axis={show(ax) if ax else 'None'}) is not the per-subsystem product rows_s * cols_s"
        elif td[0] == "comp" and td[3]:
            it = td[3][0][1]
            # iterating `dim` itself walks its two ROWS; the per-subsystem product needs the columns (dim.T / zip(*dim) / range(dim.shape[1]))
            if it == ("n", "dim"):
                okax, why = False, (f"`{unparse(d)[:60]}` iterates over the two rows of the dim table and multiplies each: [prod(row dims), prod(column dims)] "
                                    "instead of rows_s * cols_s per subsystem (equal only for two subsystems of equal dimension)")
            elif it == ("T", ("n", "dim")) or (it[0] == "call" and it[1] == "builtins.zip"):
                okax, why = True, "per-column product"
        ctx.ob("R-SHAPE", iop, "vectorised operator's local dimensions are rows_s * cols_s (column-wise product of the dim table)", okax, why, c, required=okax is not None)
    Np = Normalizer(m, ipr, inline=False)
    tst = [n for n in walk_no_nested(ipr.node) if isinstance(n, ast.NamedExpr) and isinstance(n.value, ast.Compare)]
    sv_names = {n.targets[0].elts[0].id for n in walk_no_nested(ipr.node) if isinstance(n, ast.Assign) and isinstance(n.targets[0], ast.Tuple) and n.targets[0].elts and isinstance(n.targets[0].elts[0], ast.Name)
                and isinstance(n.value, ast.Call) and m.resolve_call(ipr, n.value).key.endswith("schmidt_decomposition.schmidt_decomposition")}
    lft = tst[0].value.left if tst else None
    opk = type(tst[0].value.ops[0]) if tst else None
    if tst and not isinstance(lft, ast.Subscript) and isinstance(tst[0].value.comparators[0], ast.Subscript) and opk in (ast.GtE, ast.Gt):
        # bound >= s[1]  is  s[1] <= bound
        lft = tst[0].value.comparators[0]
        opk = ast.LtE if opk is ast.GtE else ast.Lt
    okt = bool(tst) and isinstance(lft, ast.Subscript) and isinstance(lft.value, ast.Name) and lft.value.id in sv_names and isinstance(lft.slice, ast.Constant) and lft.slice.value == 1 \
        and opk in (ast.LtE, ast.Lt)
    ctx.ob("R-PRED", ipr, "product iff second Schmidt coefficient <= tolerance", okt, "singular_vals[1] <= eps-scaled bound" if okt else "the product criterion changed")


def _operator_vectorisation(ctx, f):
    """The operator rho on (1)(x)(2) has rows indexed (r_1, r_2) and columns (c_1, c_2), with extents dim[0, :] and dim[1, :].
    Accepted groupings into the (1 | 2) vector: (A) reshape to the four axes (dim[0,0], dim[0,1], dim[1,0], dim[1,1]) followed by
    exchanging axes 1 and 2; (B) column vector + swap(., [2, 3], concatenate(dim[1, :], dim[0, :])) (column-major vec: c_2 c_1 r_2 r_1)
    or permute_systems with the same 4 extents.  A 4-axis reshape whose extents are not (row, row, column, column) is a violation."""
    m = ctx.model
    N = Normalizer(m, f, inline=False)
    key = "operator is split into (row_1, row_2, col_1, col_2) before the subsystem regrouping"
    found = False
    for n in walk_no_nested(f.node):
        if isinstance(n, ast.Call) and isinstance(n.func, ast.Attribute) and n.func.attr == "reshape" and n.args:
            sh = n.args[0] if len(n.args) == 1 else ast.Tuple(elts=list(n.args), ctx=ast.Load())
            if isinstance(sh, (ast.Tuple, ast.List)) and len(sh.elts) == 4:
                found = True
                idx = []
                for e in sh.elts:
                    t = N(e)
                    while t[0] == "call" and t[1] in ("builtins.int", "numpy.int64", "builtins.round") and t[2]:
                        t = t[2][0]
                    if t[0] == "sub" and t[1] == ("n", "dim") and t[2][0] == "tuple" and len(t[2]) == 3 and t[2][1][0] == "c" and t[2][2][0] == "c":
                        idx.append((t[2][1][1], t[2][2][1]))
                    else:
                        idx.append(None)
                order = next((kw.value.value for kw in n.keywords if kw.arg == "order" and isinstance(kw.value, ast.Constant)), "C")
                want = [(0, 0), (0, 1), (1, 0), (1, 1)] if order == "C" else [(1, 1), (1, 0), (0, 1), (0, 0)][::-1] if False else [(0, 0), (0, 1), (1, 0), (1, 1)]
                if None in idx:
                    ctx.ob("R-LAYOUT", f, key, None, f"extents {unparse(sh)[:60]} not entries of the dim table", n, required=False)
                else:
                    ok = idx == want if order == "C" else idx == [(0, 1), (0, 0), (1, 1), (1, 0)]
                    ctx.ob("R-LAYOUT", f, key, ok, "reshape((dim[0,0], dim[0,1], dim[1,0], dim[1,1]))" if ok else
                           f"`{unparse(n)[:90]}` splits the rows as {idx[:2]} and the columns as {idx[2:]} (table entries (row, subsystem)): the row index of rho runs over dim[0, :] "
                           "and the column index over dim[1, :], so for unequal local dimensions the entries are regrouped across subsystem boundaries", n)
                    # the following axis exchange must be (1 <-> 2)
                    par = [p_ for p_ in walk_no_nested(f.node) if isinstance(p_, ast.Call) and any(a is n for a in p_.args)]
                    if par and getattr(par[0].func, "attr", "") in ("moveaxis", "transpose", "swapaxes"):
                        a_ = [ast.literal_eval(x) for x in par[0].args[1:] if isinstance(x, (ast.Tuple, ast.List, ast.Constant))]
                        nm = par[0].func.attr
                        okx = (nm == "moveaxis" and a_ in ([(1, 2), (2, 1)], [1, 2], [2, 1], [(2, 1), (1, 2)])) or (nm == "swapaxes" and sorted(a_) == [1, 2]) or (nm == "transpose" and a_ == [(0, 2, 1, 3)])
                        ctx.ob("R-LAYOUT", f, "axes 1 and 2 exchanged: (r_1, c_1 | r_2, c_2)", okx, f"{nm}{tuple(a_)}" if okx else f"`{unparse(par[0])[:70]}` does not bring (row_1, col_1) together", par[0])
    sw = [(c, cal) for c, cal in calls_from(m, f, "swap.swap")] + [(c, cal) for c, cal in calls_from(m, f, "permute_systems.permute_systems")]
    for c, cal in sw:
        b = m.bind(c, cal.func)
        dt = b.get("dim")
        from ..rules import value_at
        t = N(dt) if isinstance(dt, ast.AST) else None
        if t is not None and t[0] == "n":
            t = value_at(m, f, t[1], c, N) or t
        if t is None:
            continue
        r_ = repr(t)
        # the four extents of vec(rho): both rows of the dim table (for the operators in scope -- square local blocks -- the two rows coincide)
        if "numpy.concatenate" in r_:
            found = True
            ok = "('c', 1), ('slice'" in r_ and "('c', 0), ('slice'" in r_
            sy = N(b["sys"]) if isinstance(b.get("sys"), ast.AST) else None
            oks = sy in (("list", ("c", 2), ("c", 3)), None) if cal.func.name == "swap" else True
            ctx.ob("R-LAYOUT", f, "vec(rho) is regrouped over the four extents of the dim table, exchanging positions 2 and 3", bool(ok and oks),
                   "swap(vec(rho), [2, 3], (dim[1, :], dim[0, :]))" if ok and oks else f"extents {show(t)[:80]} / systems {show(sy) if sy else '?'}", c)
    if not found:
        ctx.ob("R-LAYOUT", f, key, None, "no 4-axis reshape and no swap / permute of vec(rho) found: the operator vectorisation is not in a recognised form", required=False)


def _monotone_bounds(ctx, f):
    """lower_bound may only be raised (max) and upper_bound only lowered (min), except for initialisation and the exact cases."""
    m = ctx.model
    N = Normalizer(m, f, inline=False)
    bad = []
    n_lo = n_up = 0
    for n in walk_no_nested(f.node):
        if isinstance(n, ast.Assign) and isinstance(n.targets[0], ast.Name) and n.targets[0].id in ("lower_bound", "upper_bound"):
            who = n.targets[0].id
            t = N(n.value)
            if t[0] == "call" and t[1] in ("builtins.max", "builtins.min") and ("n", who) in t[2]:
                want = "builtins.max" if who == "lower_bound" else "builtins.min"
                if t[1] != want:
                    bad.append((n, f"`{unparse(n)[:60]}` moves {who} in the wrong direction ({t[1].split('.')[-1]})"))
                if who == "lower_bound":
                    n_lo += 1
                else:
                    n_up += 1
            elif mentions_name(t, who) and not (t[0] == "*" and ("n", "op_norm") in t[1] and ("n", who) in t[1]):
                bad.append((n, f"`{unparse(n)[:60]}` updates {who} without max/min"))
    ctx.ob("R-SDP", f, "bounds refined monotonically: lower via max, upper via min", not bad and n_lo >= 4 and n_up >= 3,
           f"{n_lo} max-updates of the lower bound, {n_up} min-updates of the upper bound" if not bad else bad[0][1], bad[0][0] if bad else None)
    rets, _ = return_terms(m, f, inline=False)
    og = origins(f)
    badr = []
    for rn, facts, t in rets:
        if t[0] == "tuple" and len(t) == 3:
            a, b = t[1], t[2]
            if mentions_name(a, "upper_bound") or mentions_name(b, "lower_bound"):
                badr.append(rn)
    ctx.ob("R-SDP", f, "every return is (lower, upper) in that order", not badr, f"{len(rets)} returns" if not badr else "a return hands back (upper, lower)", badr[0] if badr else None)


# reference forms of the S(k) operator-norm bounds and relaxations (Johnston's thesis / the confirmed tree); compared after normalisation
_SK_LOWER = [
    "(k / r) * eig_val[t_ind]",
    "(np.trace(mat) + np.sqrt((prod_dim * np.trace(mat @ mat) - np.trace(mat) ** 2) / (prod_dim - 1))) / prod_dim",
    "min(1, k / np.ceil((dim[0] + dim[1] - np.sqrt((dim[0] - dim[1]) ** 2 + 4 * rank - 4)) / 2))",
    "(min(dim) - k) * (rank + np.sqrt((prod_dim * rank - rank**2) / (prod_dim - 1))) / (prod_dim * (min(dim) - 1)) + (k - 1) / (min(dim) - 1)",
    "np.real(cvx_optval) * (1 - dim[1] * gs / (2 * dim[1] - 1)) + xmineig * gs / (2 * dim[1] - 2)",
    "__lower_bound_sk_norm_randomized(mat, k, dim, tol**2)",
]
_SK_UPPER = [
    "sum(abs(eig_val[i]) * sk_vector_norm(eig_vec[:, i], k, dim) ** 2 for i in range(prod_dim))",
    "kp_norm(realignment(mat, dim), k**2, 2)",
    "np.real(cvx_optval)",
]
_SK_CONS = [
    "rho >> 0",
    "cvxpy.real(cvxpy.trace(rho)) <= 1",
    "partial_transpose(rho, [1], dim) >> 0",
    "k * cvxpy.kron(partial_trace(rho, [1], dim), np.eye(dim[1])) >> rho",
    "sym_proj @ rho @ sym_proj == rho",
    "partial_transpose(rho, list(range(0, int(np.ceil(j / 2)) + 1)), sym_dim) >> 0",
]
_SK_OBJ = [
    "cvxpy.real(cvxpy.trace(mat @ rho))",
    "cvxpy.real(cvxpy.trace(mat @ partial_trace(rho, list(range(2, j + 1)), sym_dim)))",
]


def sk_reference_forms(ctx, so):
    """Every bound update `lower_bound = max(lower_bound, E)` / `upper_bound = min(upper_bound, E)` uses one of the reference expressions, and
    the relaxations have the reference constraints and objectives.  Dropping an update only loosens a bound (still a valid bracket) and is
    not reported; an update with an expression outside the table is (the bracket is then no longer one of the proven bounds)."""
    m = ctx.model
    N = Normalizer(m, so, inline=False)
    E = lambda src: N(ast.parse(src, mode="eval").body)  # noqa: E731
    ref_lo, ref_up = {repr(E(s)): s for s in _SK_LOWER}, {repr(E(s)): s for s in _SK_UPPER}
    n_lo = n_up = 0
    for n in walk_no_nested(so.node):
        if isinstance(n, ast.Assign) and len(n.targets) == 1 and isinstance(n.targets[0], ast.Name) and n.targets[0].id in ("lower_bound", "upper_bound") and isinstance(n.value, ast.Call) \
                and isinstance(n.value.func, ast.Name) and n.value.func.id in ("max", "min") and len(n.value.args) == 2:
            which = n.targets[0].id
            args = [a for a in n.value.args if not (isinstance(a, ast.Name) and a.id == which)]
            if len(args) != 1:
                continue
            t = repr(N(args[0]))
            ref = ref_lo if which == "lower_bound" else ref_up
            fn_ok = n.value.func.id == ("max" if which == "lower_bound" else "min")
            ok = t in ref and fn_ok
            if which == "lower_bound":
                n_lo += 1
            else:
                n_up += 1
            ctx.ob("R-PRED", so, f"{which} update at line-order {n_lo if which == 'lower_bound' else n_up} uses a proven bound", ok,
                   f"{ref[t][:60]}" if ok else
                   (f"`{unparse(n)[:110]}` raises the lower bound with min / lowers the upper bound with max" if not fn_ok else
                    f"`{unparse(args[0])[:110]}` is not one of the reference {which.split('_')[0]} bounds: the returned interval need no longer contain the S(k)-norm"), n)
    # relaxations
    sk = Skeleton(m, so)
    ref_c = {}
    for s in _SK_CONS:
        node = ast.parse(s, mode="eval").body
        rel = {ast.RShift: ">>", ast.LShift: "<<"}.get(type(node.op)) if isinstance(node, ast.BinOp) else {ast.LtE: "<=", ast.GtE: ">=", ast.Eq: "=="}[type(node.ops[0])]
        l_, r_ = (node.left, node.right) if isinstance(node, ast.BinOp) else (node.left, node.comparators[0])
        ref_c[(rel, repr(N(l_)), repr(N(r_)))] = s
    flip = {">>": "<<", "<<": ">>", "<=": ">=", ">=": "<=", "==": "=="}
    for c in sk.cons:
        key = (c.rel, repr(c.lhs), repr(c.rhs))
        key2 = (flip.get(c.rel, c.rel), repr(c.rhs), repr(c.lhs))
        ok = key in ref_c or key2 in ref_c
        ctx.ob("R-SDP", so, f"relaxation constraint `{(ref_c.get(key) or ref_c.get(key2) or unparse(c.node))[:70]}`", ok,
               "reference constraint" if ok else f"`{unparse(c.node)[:100]}` is not a constraint of the reference relaxations (direction, factor order or operand changed): the optimum is no longer an upper bound", c.node)
    ref_o = {repr(E(s)) for s in _SK_OBJ}
    for p in sk.probs:
        t = N(p.objective_node) if p.objective_node is not None else None
        ok = t is not None and repr(t) in ref_o
        ctx.ob("R-SDP", so, f"relaxation objective #{sk.probs.index(p)} == Re Tr(X rho) (restricted to the first copy)", ok,
               "reference objective" if ok else f"objective {show(t)[:90] if t else '?'} changed", p.node)
    from ..sdp import r_hermitian_vars
    r_hermitian_vars(ctx, so, sk)
