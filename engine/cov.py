"""R-COV: unitary-covariance typing of numpy expressions.

If the designated inputs transform as X -> U X U^+ then
   Cov   : the value transforms the same way          (sums, products, daggers, sqrtm/inv/expm/... of Cov)
   Conj  : the value transforms as X -> conj(U) X U^T  (X.T, X.conj() of Cov)
   Inv   : the value does not change                   (trace/det/eigenvalues/Schatten norms/rank of Cov or Conj,
                                                        scalars, comparisons of Inv, allclose(Cov, Cov))
   Id    : identity matrices (both Cov and Conj)
   Basis : definitely basis dependent                  (entrywise abs/real/power/.., matrix*matrix, Cov @ Conj,
                                                        allclose(Cov, Conj), indexing, matrix + scalar)
   Top   : unknown
Only `Basis` is ever reported.
"""

from __future__ import annotations

import ast

from . import flow as flw
from .model import FunctionInfo, unparse, walk_no_nested
from .norm import Normalizer, show, subterms

INV, COV, CONJ, ID, BASIS, TOP = "Inv", "Cov", "Conj", "Id", "Basis", "Top"

INV_OF_MATRIX = {
    "numpy.trace", "numpy.linalg.det", "scipy.linalg.det", "numpy.linalg.eigvals", "numpy.linalg.eigvalsh", "scipy.linalg.eigvals",
    "scipy.linalg.eigvalsh", "numpy.linalg.matrix_rank", "numpy.linalg.cond", "scipy.linalg.svdvals", "numpy.linalg.slogdet",
}
COV_PRESERVING = {
    "scipy.linalg.sqrtm", "scipy.linalg.inv", "numpy.linalg.inv", "numpy.linalg.pinv", "scipy.linalg.pinv", "numpy.linalg.matrix_power",
    "scipy.linalg.fractional_matrix_power", "scipy.linalg.expm", "scipy.linalg.logm", "numpy.array", "numpy.asarray", "numpy.copy",
    "numpy.asmatrix", "numpy.matrix", "numpy.atleast_2d",
}
ENTRYWISE = {
    "numpy.abs", "numpy.absolute", "numpy.sqrt", "numpy.exp", "numpy.log", "numpy.log2", "numpy.multiply", "numpy.power", "numpy.diag",
    "numpy.round", "numpy.around", "numpy.square", "numpy.sign", "numpy.floor", "numpy.maximum", "numpy.minimum", "numpy.diagonal",
    "numpy.triu", "numpy.tril", "numpy.sum", "numpy.max", "numpy.min", "numpy.amax", "numpy.amin", "numpy.mean", "numpy.cumsum",
    "numpy.sort", "numpy.argmax", "numpy.argmin", "numpy.flip", "numpy.ravel", "numpy.fabs", "numpy.divide", "numpy.add_scalar",
    "numpy.isreal", "numpy.iscomplex", "numpy.isrealobj", "numpy.iscomplexobj", "numpy.nonzero", "numpy.count_nonzero", "numpy.where",
    "numpy.fill_diagonal", "numpy.any_entry",
}
SCALAR_FUNCS = {
    "builtins.float", "builtins.int", "builtins.abs", "builtins.round", "builtins.min", "builtins.max", "builtins.bool", "builtins.complex",
    "builtins.sum", "numpy.real_if_close", "numpy.arccos", "numpy.arcsin", "numpy.cos", "numpy.sin", "numpy.isclose", "numpy.allclose",
    "numpy.all", "numpy.any", "numpy.finfo", "numpy.log2", "numpy.log", "numpy.sqrt", "numpy.abs", "numpy.round", "numpy.real", "numpy.imag",
    "numpy.max", "numpy.min", "numpy.sum", "numpy.prod", "numpy.exp", "numpy.power", "numpy.multiply", "numpy.sort", "numpy.amax",
    "numpy.amin", "numpy.count_nonzero", "numpy.isreal", "numpy.array", "numpy.asarray", "numpy.nonzero", "numpy.where", "numpy.sign",
    "numpy.around", "numpy.absolute", "numpy.square", "numpy.mean", "numpy.flip", "numpy.cumsum", "numpy.maximum", "numpy.minimum",
    "numpy.iscomplex", "numpy.isrealobj", "numpy.iscomplexobj", "numpy.divide", "numpy.argmax", "numpy.argmin", "builtins.len", "math.sqrt",
    "math.log2", "math.log", "numpy.conj", "numpy.conjugate", "builtins.sorted", "builtins.all", "builtins.any", "numpy.diag_of_scalar",
    "numpy.lib.scimath.sqrt", "numpy.emath.sqrt", "numpy.floor", "numpy.ceil", "numpy.nan_to_num", "numpy.clip", "numpy.isnan",
}


def join(ts):
    ts = [t for t in ts if t is not None]
    if not ts:
        return None
    if BASIS in ts:
        return BASIS
    if TOP in ts:
        return TOP
    s = set(ts)
    if len(s) == 1:
        return ts[0]
    s.discard(ID)
    if len(s) == 1:
        return next(iter(s))
    if s == {COV, CONJ}:
        return BASIS
    return TOP


class CovTyper:
    def __init__(self, model, f: FunctionInfo, cov_params, scalar_params=(), depth=0, exclude_handlers=True, why=None):
        self.model = model
        self.f = f
        self.cov = dict.fromkeys(cov_params, COV) if not isinstance(cov_params, dict) else dict(cov_params)
        self.scalars = set(scalar_params)
        self.depth = depth
        self.N = Normalizer(model, f, inline=False)
        self.in_progress: set[str] = set()
        self.exclude_handlers = exclude_handlers
        self.why: list[str] = why if why is not None else []
        self.bound: dict[str, str] = {}
        self._handler_stmts = set()
        if exclude_handlers:
            for n in walk_no_nested(f.node):
                if isinstance(n, ast.ExceptHandler):
                    for x in ast.walk(n):
                        self._handler_stmts.add(id(x))

    # -----------------------------------------------------------------------------------------
    def name_type(self, name):
        if name in self.bound:
            return self.bound[name]
        if name in self.in_progress:
            return None
        self.in_progress.add(name)
        try:
            ts = []
            if name in self.cov:
                ts.append(self.cov[name])
            elif name in self.scalars or (self.f.param(name) is not None):
                p = self.f.param(name)
                ann = unparse(p.annotation) if p is not None and p.annotation is not None else ""
                if name in self.scalars or ann in ("int", "float", "bool", "str", "int | None", "float | None"):
                    ts.append(INV)
                else:
                    ts.append(TOP)
            for n in walk_no_nested(self.f.node):
                if id(n) in self._handler_stmts:
                    continue
                if isinstance(n, ast.Assign):
                    for tg in n.targets:
                        if isinstance(tg, ast.Name) and tg.id == name:
                            ts.append(self.type_of(self.N(n.value)))
                        elif isinstance(tg, (ast.Tuple, ast.List)):
                            for i, e in enumerate(tg.elts):
                                if isinstance(e, ast.Name) and e.id == name:
                                    if isinstance(n.value, (ast.Tuple, ast.List)) and len(n.value.elts) == len(tg.elts):
                                        ts.append(self.type_of(self.N(n.value.elts[i])))
                                    else:
                                        ts.append(self._tuple_elem(self.N(n.value), i))
                elif isinstance(n, ast.AugAssign) and isinstance(n.target, ast.Name) and n.target.id == name:
                    ts.append(self.type_of(self.N(n.value)))
                elif isinstance(n, (ast.For, ast.comprehension)) and isinstance(n.target, ast.Name) and n.target.id == name:
                    it = self.type_of(self.N(n.iter))
                    ts.append(INV if it == INV else TOP if it in (TOP, None) else BASIS if it == BASIS else TOP)
            return join(ts) or TOP
        finally:
            self.in_progress.discard(name)

    def _tuple_elem(self, t, i):
        # eigh / eig / svd results
        if t[0] == "call" and t[1] in ("numpy.linalg.eigh", "numpy.linalg.eig", "scipy.linalg.eigh", "scipy.linalg.eig"):
            a = self.type_of(t[2][0]) if t[2] else TOP
            if a in (COV, CONJ, ID):
                return INV if i == 0 else BASIS  # eigenvectors are basis dependent
            return a
        if t[0] == "call" and t[1] in ("numpy.linalg.svd", "scipy.linalg.svd"):
            a = self.type_of(t[2][0]) if t[2] else TOP
            if a in (COV, CONJ, ID):
                return INV if i == 1 else BASIS
            return a
        if t[0] == "attr" and t[2] == "shape":
            return INV
        return TOP

    def note(self, t, msg):
        self.why.append(f"{msg}: {show(t)[:90]}")

    def type_of(self, t):  # noqa: C901
        if not isinstance(t, tuple) or not t:
            return TOP
        h = t[0]
        if h == "c":
            return INV
        if h == "n":
            return self.name_type(t[1])
        if h == "b":
            return self.bound.get(t[1], TOP)
        if h in ("lib", "fn", "cls", "mod", "g"):
            return TOP
        if h == "attr":
            if t[2] in ("shape", "ndim", "size", "dtype"):
                return INV
            if t[2] == "value":
                return self.type_of(t[1])
            return TOP
        if h == "dag":
            return self.type_of(t[1])
        if h in ("T", "conj"):
            a = self.type_of(t[1])
            return {COV: CONJ, CONJ: COV}.get(a, a)
        if h == "neg":
            return self.type_of(t[1])
        if h in ("real", "imag"):
            a = self.type_of(t[1])
            if a in (COV, CONJ):
                self.note(t, "entrywise real/imag part of a matrix")
                return BASIS
            return a
        if h == "+":
            ts = [self.type_of(x) for x in t[1]]
            mats = [x for x in ts if x in (COV, CONJ, ID)]
            if mats and any(x == INV for x in ts):
                # matrix + scalar: broadcast adds the scalar to every entry
                nz = [y for y, ty in zip(t[1], ts) if ty == INV and y != ("c", 0)]
                if nz:
                    self.note(t, "matrix + scalar (entrywise broadcast)")
                    return BASIS
            return join(ts) or TOP
        if h == "*":
            ts = [x for x in (self.type_of(y) for y in t[1]) if x is not None]
            mats = [x for x in ts if x in (COV, CONJ)]
            if BASIS in ts:
                return BASIS
            if TOP in ts:
                return TOP
            if len(mats) >= 2:
                self.note(t, "entrywise (Hadamard) product of matrices")
                return BASIS
            if mats:
                return mats[0]
            if ID in ts:
                return ID
            return INV
        if h == "@":
            ts = [self.type_of(x) for x in t[1]]
            r = join([x for x in ts if x != INV])
            if r == BASIS and BASIS not in ts and TOP not in ts:
                self.note(t, "product of a covariant and a conjugate-covariant factor (missing or extra conjugation)")
            return r or INV
        if h == "/":
            a, b = self.type_of(t[1]), self.type_of(t[2])
            if b == INV:
                return a
            if BASIS in (a, b):
                return BASIS
            if TOP in (a, b):
                return TOP
            self.note(t, "entrywise division by a matrix")
            return BASIS
        if h == "**":
            a, b = self.type_of(t[1]), self.type_of(t[2])
            if a == INV and b == INV:
                return INV
            if a in (COV, CONJ) and b == INV:
                self.note(t, "entrywise power of a matrix")
                return BASIS
            return join([a, b]) or TOP
        if h in ("cmp", "and", "or", "not"):
            subs = t[2:] if h == "cmp" else t[1] if h in ("and", "or") else (t[1],)
            ts = [self.type_of(x) for x in subs]
            if BASIS in ts:
                return BASIS
            if TOP in ts:
                return TOP
            if any(x in (COV, CONJ) for x in ts):
                self.note(t, "entrywise comparison of a matrix")
                return BASIS
            return INV
        if h == "sub":
            a = self.type_of(t[1])
            if a in (COV, CONJ):
                self.note(t, "indexing into a matrix")
                return BASIS
            if a == ID:
                return BASIS
            return a
        if h in ("tuple", "list"):
            ts = [self.type_of(x) for x in t[1:]]
            return join(ts) or INV
        if h == "ifexp":
            c = self.type_of(t[1])
            if c == BASIS:
                return BASIS
            return join([self.type_of(t[2]), self.type_of(t[3])]) or TOP
        if h == "comp":
            # [f(x) for x in it]
            ts = []
            for tg, it, ifs in t[3]:
                ity = self.type_of(it)
                elt = INV if ity in (INV, None) else TOP if ity in (TOP, COV, CONJ, ID) else BASIS
                for s in subterms(tg):
                    if isinstance(s, tuple) and len(s) == 2 and s[0] == "b":
                        self.bound[s[1]] = elt if ity != COV else BASIS
            r = join([self.type_of(x) for x in t[2]])
            return r or TOP
        if h == "call":
            return self.call_type(t)
        return TOP

    def call_type(self, t):  # noqa: C901
        callee = t[1]
        args = list(t[2])
        kws = dict(t[3])
        if isinstance(callee, str):
            if callee in ("numpy.eye", "numpy.identity", "scipy.sparse.identity", "scipy.sparse.eye"):
                return ID
            if callee in ("numpy.zeros", "numpy.zeros_like", "numpy.ones_like"):
                return ID if callee != "numpy.ones_like" else BASIS
            ats = [self.type_of(a) for a in args]
            a0 = ats[0] if ats else INV
            if callee in INV_OF_MATRIX:
                if a0 in (COV, CONJ, ID, INV):
                    return INV
                return a0
            if callee in ("numpy.linalg.norm", "scipy.linalg.norm"):
                o = kws.get("ord", args[1] if len(args) > 1 else ("c", None))
                if a0 in (COV, CONJ, ID):
                    if o in (("c", "nuc"), ("c", "fro"), ("c", 2), ("c", -2), ("c", None)):
                        return INV
                    self.note(t, "matrix norm that is not unitarily invariant")
                    return BASIS
                return a0
            if callee in COV_PRESERVING:
                return a0
            if callee in ("numpy.kron",):
                return join(ats) or TOP
            if callee in ("numpy.allclose", "numpy.isclose", "numpy.array_equal", "numpy.array_equiv"):
                a, b = (ats + [INV, INV])[:2]
                if BASIS in (a, b):
                    return BASIS
                if TOP in (a, b):
                    return TOP
                pair = {a, b} - {ID}
                if pair <= {INV}:
                    return INV
                if pair == {COV} or pair == {CONJ}:
                    return INV
                if pair == {COV, CONJ}:
                    self.note(t, "comparison of a matrix with its transpose / entrywise conjugate (basis dependent)")
                    return BASIS
                if INV in pair:
                    # matrix compared with a scalar: entrywise unless the scalar is 0
                    other = args[1] if a in (COV, CONJ) else args[0]
                    if other == ("c", 0):
                        return INV
                    self.note(t, "matrix compared entrywise with a scalar")
                    return BASIS
                return TOP
            if callee in ENTRYWISE and a0 in (COV, CONJ):
                self.note(t, f"entrywise {callee.split('.')[-1]} of a matrix")
                return BASIS
            if callee in ENTRYWISE and a0 == ID:
                return ID if callee in ("numpy.diag", "numpy.abs", "numpy.sqrt", "numpy.round") else BASIS
            if callee in SCALAR_FUNCS or callee in ENTRYWISE:
                r = join(ats)
                if r in (None, INV, ID):
                    return INV
                return r
            if callee in ("numpy.linalg.eigh", "numpy.linalg.eig", "numpy.linalg.svd", "scipy.linalg.eigh", "scipy.linalg.svd"):
                if a0 in (COV, CONJ, ID):
                    if callee.endswith("svd") and kws.get("compute_uv") == ("c", False):
                        return INV
                    return TOP  # tuple; elements typed on unpacking
                return a0
            if callee in ("builtins.isinstance", "builtins.len", "builtins.range", "builtins.type"):
                return INV
            if callee.startswith("toqito.") and self.depth < 4:
                return self.repo_call(t)
            return TOP
        # method calls on a typed receiver
        if isinstance(callee, tuple) and callee[0] == "attr":
            recv = self.type_of(callee[1])
            m = callee[2]
            if m in ("trace",) and recv in (COV, CONJ, ID):
                return INV
            if m in ("copy", "astype", "toarray", "todense", "view") :
                return recv
            if m in ("dot",) and args:
                return join([recv, self.type_of(args[0])])
            if m in ("flatten", "ravel", "reshape", "diagonal", "sum", "max", "min", "item", "tolist", "round", "mean", "any", "all"):
                if recv in (COV, CONJ):
                    self.note(t, f"entrywise .{m}() of a matrix")
                    return BASIS
                return recv
            if m in ("is_scalar", "is_real", "is_complex"):
                return INV
        return TOP

    def repo_call(self, t):
        fi = self.model.functions.get(t[1])
        if fi is None:
            return TOP
        kws = dict(t[3])
        if fi.name in CONTRACT_SAME_TYPE:
            # documented pass-through: square matrices are returned as they are, kets v become v v^+ (covariant when v -> U v)
            a = kws.get(CONTRACT_SAME_TYPE[fi.name])
            return self.type_of(a) if a is not None else TOP
        cov = {}
        scal = set()
        for p in fi.params:
            a = kws.get(p.name)
            if a is None:
                continue
            ty = self.type_of(a)
            if ty in (COV, CONJ, ID, BASIS, TOP):
                cov[p.name] = COV if ty == ID else ty
            else:
                scal.add(p.name)
        if not cov:
            return INV if all(self.type_of(a) == INV for a in kws.values()) and kws else TOP
        key = (t[1], tuple(sorted(cov.items())))
        cache = _summary_cache.setdefault(id(self.model), {})
        if key in cache:
            return cache[key]
        cache[key] = TOP  # recursion guard
        sub = CovTyper(self.model, fi, cov, scal, self.depth + 1, why=[])
        r = sub.result_type(sdp_branch)
        cache[key] = r
        if r == BASIS:
            self.why.extend(f"via {fi.name}: {w}" for w in sub.why[:2])
        return r

    # -----------------------------------------------------------------------------------------
    def governed_returns(self, skip_when=None):
        res = flw.flow(self.f.node)
        out = []
        for rn, facts in res.returns:
            if rn is None or rn.value is None:
                continue
            if any(x[0] == "handler" for x in facts) and self.exclude_handlers:
                continue
            conds = [(self.N(tt), pol) for tt, pol in flw.conds(facts)]
            if skip_when and skip_when(conds):
                continue
            out.append((rn, conds))
        return out

    def result_type(self, skip_when=None):
        ts = []
        for rn, conds in self.governed_returns(skip_when):
            ts.append(self.type_of(self.N(rn.value)))
        return join(ts) or TOP


_summary_cache: dict = {}
CONTRACT_SAME_TYPE = {"to_density_matrix": "input_array"}


def sdp_branch(conds):
    """Path condition of the cvxpy-expression branch (typed by R-SDP, not by R-COV)."""
    for t, pol in conds:
        if pol and "builtins.isinstance" in repr(t) and ("Vstack" in repr(t) or "cvxpy" in repr(t)):
            return True
    return False
