"""Syntax-directed must-flow over a function body.

For every statement, `facts` = ordered list of things that must have happened / must hold on every
path from the function entry to that statement:
   ('cond', test_ast, polarity)      enclosing branch condition, or a passed `if test: raise` guard
   ('stmt', stmt_ast)                a simple statement that was executed
   ('loopguard', loop_ast, [(test_ast, polarity) ...], raise_ast)
                                     the loop completed, so for every iteration the conjunction that
                                     leads to `raise` was false
   ('match', subject_ast, case_ast)  inside this case of a match
   ('inloop', loop_ast)              inside the body of this loop
This is the statement-level CFG specialised to structured code (the repo has no goto-like flow other
than return / raise / break / continue), with dominance = "is in facts".
"""

from __future__ import annotations

import ast
from dataclasses import dataclass, field


@dataclass
class FlowResult:
    at: dict = field(default_factory=dict)  # id(stmt) -> facts list
    stmts: list = field(default_factory=list)  # all statements in order with facts
    returns: list = field(default_factory=list)  # (Return node | None, facts)
    raises: list = field(default_factory=list)  # (Raise node, facts)
    falls_off_end: bool = False


def _fkey(x):
    if x[0] == "cond":
        return (id(x[1]), x[2])
    if x[0] == "assigned":
        return x
    return id(x)


def _common(a, b):
    ids = {_fkey(x) for x in b}
    out = []
    for x in a:
        if _fkey(x) in ids:
            out.append(x)
    return out


class _Walker:
    def __init__(self):
        self.res = FlowResult()
        self.loop_raises = []  # stack of lists

    def block(self, stmts, facts):
        cur = facts
        for st in stmts:
            if cur is None:
                # unreachable code after return/raise: still record with empty facts
                break
            cur = self.stmt(st, cur)
        return cur

    def record(self, st, facts):
        self.res.at[id(st)] = facts
        self.res.stmts.append((st, facts))

    def stmt(self, st, facts):  # noqa: C901
        self.record(st, facts)
        if isinstance(st, ast.Return):
            self.res.returns.append((st, facts))
            return None
        if isinstance(st, ast.Raise):
            self.res.raises.append((st, facts))
            if self.loop_raises:
                self.loop_raises[-1].append((st, facts))
            return None
        if isinstance(st, (ast.Break, ast.Continue)):
            return None
        if isinstance(st, ast.If):
            b = self.block(st.body, facts + [("cond", st.test, True)])
            e = self.block(st.orelse, facts + [("cond", st.test, False)])
            if b is None and e is None:
                return None
            if b is None:
                return e
            if e is None:
                return b
            return _common(b, e)
        if isinstance(st, (ast.For, ast.AsyncFor, ast.While)):
            self.loop_raises.append([])
            inner = facts + [("inloop", st)]
            if isinstance(st, ast.While):
                inner = inner + [("cond", st.test, True)]
            self.block(st.body, inner)
            lr = self.loop_raises.pop()
            out = list(facts)
            n0 = len(facts) + 1
            for rnode, rfacts in lr:
                conds = [(x[1], x[2]) for x in rfacts[n0:] if x[0] == "cond"]
                out.append(("loopguard", st, conds, rnode))
                if self.loop_raises:
                    self.loop_raises[-1].append((rnode, rfacts))
            if st.orelse:
                out = self.block(st.orelse, out)
            return out
        if isinstance(st, (ast.With, ast.AsyncWith)):
            return self.block(st.body, facts + [("stmt", st)])
        if isinstance(st, ast.Try) or type(st).__name__ == "TryStar":
            b = self.block(st.body, facts)
            outs = []
            if b is not None:
                if st.orelse:
                    b = self.block(st.orelse, b)
                if b is not None:
                    outs.append(b)
            for h in st.handlers:
                ho = self.block(h.body, facts + [("handler", h)])
                if ho is not None:
                    outs.append(ho)
            if not outs:
                res = None
            else:
                res = outs[0]
                for o in outs[1:]:
                    res = _common(res, o)
            if st.finalbody:
                fb = self.block(st.finalbody, res if res is not None else facts)
                if res is not None:
                    res = fb
            return res
        if isinstance(st, ast.Match):
            outs = []
            has_wild = False
            for c in st.cases:
                if isinstance(c.pattern, ast.MatchAs) and c.pattern.pattern is None and c.guard is None:
                    has_wild = True
                o = self.block(c.body, facts + [("match", st.subject, c)])
                if o is not None:
                    outs.append(o)
            if not has_wild:
                outs.append(facts)
            if not outs:
                return None
            res = outs[0]
            for o in outs[1:]:
                res = _common(res, o)
            return res
        if isinstance(st, ast.Assert):
            return facts + [("cond", st.test, True)]
        if isinstance(st, (ast.FunctionDef, ast.AsyncFunctionDef, ast.ClassDef)):
            return facts
        extra = []
        if isinstance(st, (ast.Assign, ast.AugAssign, ast.AnnAssign)):
            tgs = st.targets if isinstance(st, ast.Assign) else [st.target]
            for t in tgs:
                for x in ast.walk(t):
                    if isinstance(x, ast.Name) and isinstance(x.ctx, ast.Store):
                        extra.append(("assigned", x.id))
        return facts + [("stmt", st)] + extra


_cache: dict[int, FlowResult] = {}


def flow(fnode: ast.FunctionDef) -> FlowResult:
    cached = getattr(fnode, "_verif_flow", None)
    if cached is not None:
        return cached
    w = _Walker()
    out = w.block(fnode.body, [])
    if out is not None:
        w.res.falls_off_end = True
        w.res.returns.append((None, out))
    fnode._verif_flow = w.res
    return w.res


def conds(facts):
    return [(x[1], x[2]) for x in facts if x[0] == "cond"]


def executed_stmts(facts):
    return [x[1] for x in facts if x[0] == "stmt"]


def find_stmt_of(fnode, target: ast.AST):
    """The statement (as recorded by flow) that syntactically contains `target`."""
    res = flow(fnode)
    best = None
    if id(target) in res.at:
        return target, res.at[id(target)]
    for st, facts in res.stmts:
        if isinstance(st, (ast.If, ast.For, ast.While, ast.With, ast.Try, ast.Match)):
            # compound: only the header expressions belong to it
            hdr = []
            if isinstance(st, (ast.If, ast.While)):
                hdr = [st.test]
            elif isinstance(st, ast.For):
                hdr = [st.iter, st.target]
            elif isinstance(st, ast.With):
                hdr = [i.context_expr for i in st.items]
            elif isinstance(st, ast.Match):
                hdr = [st.subject]
            for h in hdr:
                for n in ast.walk(h):
                    if n is target:
                        return st, facts
            continue
        for n in ast.walk(st):
            if n is target:
                best = (st, facts)
    return best
