"""Structural statement / expression patterns with metavariables (rename-robust replacement for text comparison).

A pattern is Python source in which names of the form `_A`, `_B`, ... (underscore + capital letters/digits) are
metavariables: each binds to any sub-expression, consistently within one match.  Everything else must agree structurally
(ast.dump without positions), so local variables can be renamed and the code reformatted without changing the verdict;
parameter names and library calls are written literally.  `a / b` does not match `a * (1 / b)`: callers decide what an
unmatched statement means (usually: violated only if the witness construct is gone altogether, unknown otherwise)."""

from __future__ import annotations

import ast
import re

from .model import walk_no_nested

_META = re.compile(r"^_[A-Z][A-Z0-9]*$")


def _pat(src: str):
    node = ast.parse(src.strip()).body[0]
    if isinstance(node, ast.Expr):
        return node.value
    return node


def _match(p, n, env) -> bool:
    if isinstance(p, ast.Name) and _META.match(p.id):
        key = p.id
        dumped = ast.dump(_strip_ctx(n))
        if key in env:
            return env[key] == dumped
        env[key] = dumped
        return True
    if type(p) is not type(n):
        return False
    if isinstance(p, ast.Constant):
        return p.value == n.value and type(p.value) is type(n.value)
    for field in p._fields:
        if field in ("ctx", "type_comment", "kind"):
            continue
        pv, nv = getattr(p, field, None), getattr(n, field, None)
        if isinstance(pv, list):
            if not isinstance(nv, list) or len(pv) != len(nv):
                return False
            for a, b in zip(pv, nv):
                if isinstance(a, ast.AST):
                    if not isinstance(b, ast.AST) or not _match(a, b, env):
                        return False
                elif a != b:
                    return False
        elif isinstance(pv, ast.AST):
            if not isinstance(nv, ast.AST) or not _match(pv, nv, env):
                return False
        elif pv != nv:
            return False
    return True


def _strip_ctx(n):
    """a copy-free normalisation: dump ignores ctx differences by replacing them"""
    class T(ast.NodeTransformer):
        def generic_visit(self, node):
            node = super().generic_visit(node)
            if hasattr(node, "ctx"):
                node = type(node)(**{f: getattr(node, f) for f in node._fields if f != "ctx"}, ctx=ast.Load())
            return node
    import copy

    return T().visit(copy.deepcopy(n))


def match(pattern: str, node) -> dict | None:
    env: dict = {}
    return env if _match(_pat(pattern), node, env) else None


def find(fnode, patterns, nested=False):
    """all nodes (statements or expressions) of the function that match one of the patterns"""
    pats = [(_pat(p), p) for p in ([patterns] if isinstance(patterns, str) else patterns)]
    out = []
    it = ast.walk(fnode) if nested else walk_no_nested(fnode)
    for n in it:
        for pn, src in pats:
            if type(pn) is type(n) or (isinstance(pn, ast.Name) and isinstance(n, ast.expr)):
                env: dict = {}
                if _match(pn, n, env):
                    out.append((n, env, src))
                    break
    return out


def tri(found, witness_present: bool):
    """True when the pattern was found; False when not even the witness construct is left; None (unknown) otherwise"""
    if found:
        return True
    return None if witness_present else False


def has_call(model, f, keys) -> bool:
    keys = {keys} if isinstance(keys, str) else set(keys)
    for n in walk_no_nested(f.node):
        if isinstance(n, ast.Call):
            k = model.resolve_call(f, n).key
            if k in keys:
                return True
    return False
