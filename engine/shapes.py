"""R-SHAPE(a): small symbolic shape evaluator.  Shapes are tuples of dimension terms; only definite, different shapes are reported."""

from __future__ import annotations

import ast

from .model import walk_no_nested
from .norm import Normalizer, show
from .symshape import same_monomial

# repo functions with a documented result shape in terms of their arguments: name -> lambda kwargs -> shape
REPO_SHAPES = {
    "random_unitary": lambda kw: (kw.get("dim"), kw.get("dim")) if kw.get("dim") is not None and kw["dim"][0] in ("n", "c") else None,
    "max_mixed": lambda kw: (kw.get("dim"), kw.get("dim")),
}
GEN_DRAWS = {"random", "standard_normal", "normal", "uniform"}


class ShapeEval:
    def __init__(self, model, f):
        self.model = model
        self.f = f
        self.N = Normalizer(model, f, inline=False)
        self.issues = []
        self._busy = set()

    def defs_of(self, name):
        out = []
        for n in walk_no_nested(self.f.node):
            if isinstance(n, ast.Assign) and len(n.targets) == 1 and isinstance(n.targets[0], ast.Name) and n.targets[0].id == name:
                out.append(n)
        return out

    def shape_of_name(self, name, before_line=None):
        if name in self._busy:
            return None
        self._busy.add(name)
        try:
            shapes = []
            for d in self.defs_of(name):
                if before_line is not None and d.lineno >= before_line:
                    continue
                shapes.append(self.shape(self.N(d.value), d.lineno))
            shapes = [s for s in shapes if s is not None]
            if not shapes:
                return None
            first = shapes[0]
            for s in shapes[1:]:
                if len(s) != len(first) or any(same_monomial(a, b) is not True for a, b in zip(s, first)):
                    return None
            return first
        finally:
            self._busy.discard(name)

    def shape(self, t, line=None):  # noqa: C901
        if not isinstance(t, tuple) or not t:
            return None
        h = t[0]
        if h == "n":
            return self.shape_of_name(t[1], line)
        if h in ("dag", "T"):
            s = self.shape(t[1], line)
            return (s[1], s[0]) if s and len(s) == 2 else None
        if h in ("conj", "neg", "real", "imag"):
            return self.shape(t[1], line)
        if h == "*":
            shs = [self.shape(x, line) for x in t[1]]
            mats = [s for s in shs if s is not None]
            return mats[0] if len(mats) == 1 else None
        if h == "/":
            return self.shape(t[1], line)
        if h == "+":
            shs = [(x, self.shape(x, line)) for x in t[1]]
            known = [(x, s) for x, s in shs if s is not None]
            for (xa, sa), (xb, sb) in zip(known, known[1:]):
                if len(sa) == len(sb) and any(same_monomial(a, b) is False for a, b in zip(sa, sb)):
                    self.issues.append(("+", xa, sa, xb, sb, line))
            return known[0][1] if known else None
        if h == "@":
            shs = [self.shape(x, line) for x in t[1]]
            for i in range(len(shs) - 1):
                a, b = shs[i], shs[i + 1]
                if a is not None and b is not None and len(a) == 2 and len(b) == 2 and same_monomial(a[1], b[0]) is False:
                    self.issues.append(("@", t[1][i], a, t[1][i + 1], b, line))
            if shs[0] is not None and shs[-1] is not None and len(shs[0]) == 2 and len(shs[-1]) == 2:
                return (shs[0][0], shs[-1][1])
            return None
        if h == "call":
            callee = t[1]
            if isinstance(callee, str):
                if callee in ("numpy.identity", "numpy.eye") and t[2]:
                    return (t[2][0], t[2][0] if len(t[2]) < 2 else t[2][1])
                if callee in ("numpy.zeros", "numpy.ones", "numpy.empty") and t[2] and t[2][0][0] == "tuple":
                    return tuple(t[2][0][1:])
                if callee in ("numpy.divide", "numpy.multiply") and t[2]:
                    return self.shape(t[2][0], line)
                if callee.startswith("toqito."):
                    nm = callee.split(".")[-1]
                    if nm in REPO_SHAPES:
                        return REPO_SHAPES[nm](dict(t[3]))
                return None
            if isinstance(callee, tuple) and callee[0] == "attr" and callee[2] in GEN_DRAWS:
                arg = t[2][0] if t[2] else dict(t[3]).get("size")
                if arg is not None and arg[0] == "tuple":
                    return tuple(arg[1:])
            return None
        return None

    def check_all_assignments(self):
        for n in walk_no_nested(self.f.node):
            if isinstance(n, (ast.Assign, ast.Return)) and getattr(n, "value", None) is not None:
                self.shape(self.N(n.value), n.lineno)
        return self.issues


def kron_operands(t):
    if t[0] == "call" and t[1] == "numpy.kron" and len(t[2]) == 2:
        return kron_operands(t[2][0]) + kron_operands(t[2][1])
    return [t]


def kron_dims_factorise(se: ShapeEval, rho_term, dims_term, line=None):
    """The `dim` list handed to a subsystem routine together with kron(X1, X2, ...) must factorise every Kronecker operand:
    consecutive groups of the list multiply to the row count of X1, X2, ... (as monomials).  Returns (ok | None, detail)."""
    from .norm import show
    from .symshape import monomial, product_of

    ops = kron_operands(rho_term)
    if len(ops) < 2 or dims_term[0] != "list":
        return None, "operand is not a Kronecker product with an explicit dim list"
    sizes = []
    for x in ops:
        s = se.shape(x, line)
        if s is None:
            return None, f"shape of {show(x)[:40]} unknown"
        sizes.append(s[0])
    dims = list(dims_term[1:])
    pos = 0
    groups = []
    for sz, x in zip(sizes, ops):
        want = monomial(sz)
        if want is None:
            return None, f"size {show(sz)} is not a monomial"
        got = None
        for end in range(pos + 1, len(dims) + 1):
            mm = monomial(product_of(dims[pos:end]))
            if mm is None:
                return None, "dim entry is not a monomial"
            if mm == want:
                got = end
                break
        if got is None:
            return False, (f"the entries {[show(d) for d in dims[pos:]]} of the dim list do not start with a factorisation of {show(x)[:30]} "
                           f"(size {show(sz)}): the subsystem routine cuts the Kronecker product at the wrong places")
        groups.append([show(d) for d in dims[pos:got]])
        pos = got
    if pos != len(dims):
        return False, f"dim list has {len(dims) - pos} entries beyond the Kronecker operands"
    return True, f"dim list factorises the operands as {groups}"
