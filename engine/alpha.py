"""Alpha-canonicalisation of local variable names.

The property checks name the roles they look at by the local names of the confirmed tree (`y_var`, `measurements`,
`p_fac`, ...).  Renaming a local is behaviour-preserving, so it must not change a verdict.  Before anything else the model
therefore renames the locals of every function back to the names of the reference tree (`/verif/refnames.json`, written by
tools/gen_refnames.py from the confirmed tree):

  1. if the function is alpha-equivalent to its reference (identical AST once every local is replaced by the index of its
     first binding; docstrings ignored), local #i gets the reference's name #i;
  2. otherwise a current local that does not occur in the reference is mapped to the one missing reference local that has
     the same alpha-invariant binding descriptor (the dumps of all statements that bind it, with locals blanked), when that
     match is unique on both sides.

Only `ast.Name` nodes are rewritten, consistently within the function; parameters, attributes, globals, imports and names
bound by nested defs are never touched.  The mapping is a bijection on the names it touches, so semantics is unchanged."""

from __future__ import annotations

import ast
import copy
import hashlib
import json
import os

REF_FILE = os.path.join(os.path.dirname(os.path.dirname(os.path.abspath(__file__))), "refnames.json")


def _params(fnode):
    a = fnode.args
    out = {x.arg for x in a.args + a.kwonlyargs + a.posonlyargs}
    if a.vararg:
        out.add(a.vararg.arg)
    if a.kwarg:
        out.add(a.kwarg.arg)
    return out


def _excluded(fnode):
    """names that must not be renamed: parameters (own and of nested defs / lambdas), global / nonlocal names, names bound by
    import / def / class / except inside the function"""
    ex = set(_params(fnode))
    for n in ast.walk(fnode):
        if n is fnode:
            continue
        if isinstance(n, (ast.FunctionDef, ast.AsyncFunctionDef, ast.Lambda)):
            ex |= _params(n)
            if not isinstance(n, ast.Lambda):
                ex.add(n.name)
        elif isinstance(n, ast.ClassDef):
            ex.add(n.name)
        elif isinstance(n, (ast.Global, ast.Nonlocal)):
            ex |= set(n.names)
        elif isinstance(n, (ast.Import, ast.ImportFrom)):
            for al in n.names:
                ex.add((al.asname or al.name).split(".")[0])
        elif isinstance(n, ast.ExceptHandler) and n.name:
            ex.add(n.name)
    return ex


def local_order(fnode):
    """local names in order of their first binding occurrence"""
    ex = _excluded(fnode)
    stores = []
    for n in ast.walk(fnode):
        if isinstance(n, ast.Name) and isinstance(n.ctx, ast.Store) and n.id not in ex:
            stores.append((n.lineno, n.col_offset, n.id))
    order = []
    for _l, _c, nm in sorted(stores):
        if nm not in order:
            order.append(nm)
    return order


def _strip_doc(fnode):
    f = copy.deepcopy(fnode)
    for n in ast.walk(f):
        if isinstance(n, (ast.FunctionDef, ast.AsyncFunctionDef, ast.ClassDef)) and n.body and isinstance(n.body[0], ast.Expr) and \
                isinstance(n.body[0].value, ast.Constant) and isinstance(n.body[0].value.value, str):
            n.body = n.body[1:] or [ast.Pass()]
    return f


def alpha_hash(fnode, order=None):
    order = order if order is not None else local_order(fnode)
    idx = {nm: i for i, nm in enumerate(order)}
    f = _strip_doc(fnode)
    for n in ast.walk(f):
        if isinstance(n, ast.Name) and n.id in idx:
            n.id = f"${idx[n.id]}"
    return hashlib.sha1(ast.dump(f, annotate_fields=False).encode()).hexdigest()[:16]


def descriptors(fnode, order=None):
    """name -> alpha-invariant descriptor of its bindings"""
    order = order if order is not None else local_order(fnode)
    loc = set(order)
    out: dict[str, list] = {nm: [] for nm in order}

    def blank(node):
        c = copy.deepcopy(node)
        for n in ast.walk(c):
            if isinstance(n, ast.Name) and n.id in loc:
                n.id = "$"
        return ast.dump(c, annotate_fields=False)

    for n in ast.walk(fnode):
        tg = []
        if isinstance(n, ast.Assign):
            tg, val = n.targets, n.value
        elif isinstance(n, (ast.AugAssign, ast.AnnAssign)):
            tg, val = [n.target], n.value
        elif isinstance(n, (ast.For, ast.comprehension)):
            tg, val = [n.target], n.iter
        elif isinstance(n, ast.NamedExpr):
            tg, val = [n.target], n.value
        elif isinstance(n, ast.withitem) and n.optional_vars is not None:
            tg, val = [n.optional_vars], n.context_expr
        else:
            continue
        for t in tg:
            names = [x for x in ast.walk(t) if isinstance(x, ast.Name) and isinstance(x.ctx, ast.Store) and x.id in loc]
            for pos, x in enumerate(names):
                out[x.id].append((type(n).__name__, pos, len(names), blank(val) if val is not None else ""))
    return {k: hashlib.sha1(repr(sorted(v)).encode()).hexdigest()[:16] for k, v in out.items()}


def describe(fnode):
    order = local_order(fnode)
    return {"order": order, "hash": alpha_hash(fnode, order), "desc": descriptors(fnode, order), "single": single_defs(fnode, order)}


_REF = None


def load_ref():
    global _REF
    if _REF is None:
        try:
            with open(REF_FILE) as fh:
                _REF = json.load(fh)
        except FileNotFoundError:
            _REF = {}
    return _REF


def mapping_for(fnode, ref):
    """current local name -> reference name (only entries that differ)"""
    order = local_order(fnode)
    if not order or not ref:
        return {}
    if order == ref["order"]:
        return {}
    mp = {}
    if len(order) == len(ref["order"]) and alpha_hash(fnode, order) == ref["hash"]:
        mp = {a: b for a, b in zip(order, ref["order"]) if a != b}
    else:
        cur_desc = descriptors(fnode, order)
        new_names = [n for n in order if n not in ref["order"]]
        gone = [n for n in ref["order"] if n not in order]
        for a in new_names:
            cands = [b for b in gone if ref["desc"].get(b) == cur_desc[a]]
            same = [x for x in new_names if cur_desc[x] == cur_desc[a]]
            if len(cands) == 1 and len(same) == 1:
                mp[a] = cands[0]
    if not mp:
        return {}
    # never capture a name the function uses for something else (a global / builtin / parameter read)
    loc = set(order)
    other_loads = {n.id for n in ast.walk(fnode) if isinstance(n, ast.Name) and n.id not in loc}
    ex = _excluded(fnode)
    mp = {a: b for a, b in mp.items() if b not in other_loads and b not in ex and (b not in loc or b in mp)}
    # bijection check
    if len(set(mp.values())) != len(mp):
        return {}
    return mp


def canonicalise(fnode, qualname, ref_all=None):
    ref_all = load_ref() if ref_all is None else ref_all
    ref = ref_all.get(qualname)
    if ref is None:
        return {}
    if not os.environ.get("VERIF_NO_ORIENT"):
        orient(fnode)
    mp = mapping_for(fnode, ref)
    if mp:
        for n in ast.walk(fnode):
            if isinstance(n, ast.Name) and n.id in mp:
                n.id = mp[n.id]
    rex = reextract_missing(fnode, ref)
    inl = inline_new_temps(fnode, ref["order"])
    if inl or rex:
        mp = dict(mp)
        if inl:
            mp["<inlined>"] = inl
        if rex:
            mp["<re-extracted>"] = rex
    return mp


# -------------------------------------------------------------------------------------------------
# Reference-relative inlining of new single-use temporaries ("extract variable" refactors)

def _blocks(fnode):
    """all statement lists of the function (not descending into nested defs / classes)"""
    out = []

    def rec(stmts):
        out.append(stmts)
        for s in stmts:
            if isinstance(s, (ast.FunctionDef, ast.AsyncFunctionDef, ast.ClassDef)):
                continue
            for field in ("body", "orelse", "finalbody"):
                sub = getattr(s, field, None)
                if isinstance(sub, list) and sub and isinstance(sub[0], ast.stmt):
                    rec(sub)
            for h in getattr(s, "handlers", []) or []:
                rec(h.body)
            for c in getattr(s, "cases", []) or []:
                rec(c.body)

    rec(fnode.body)
    return out


def _stored_names(node):
    """names re-bound by the statement, and names whose object is updated in place through a subscript / attribute store"""
    out = set()
    for n in ast.walk(node):
        if isinstance(n, ast.Name) and isinstance(n.ctx, (ast.Store, ast.Del)):
            out.add(n.id)
        elif isinstance(n, (ast.Subscript, ast.Attribute)) and isinstance(n.ctx, (ast.Store, ast.Del)):
            b = n
            while isinstance(b, (ast.Subscript, ast.Attribute)):
                b = b.value
            if isinstance(b, ast.Name):
                out.add(b.id)
        elif isinstance(n, ast.AugAssign):
            b = n.target
            while isinstance(b, (ast.Subscript, ast.Attribute)):
                b = b.value
            if isinstance(b, ast.Name):
                out.add(b.id)
    return out


def inline_new_temps(fnode, ref_order):
    """A local that the reference function does not have, bound once by `t = expr` and read exactly once, later in the same
    block with nothing that `expr` reads re-bound in between, is substituted into its use (the reverse of an "extract
    variable" refactor).  Returns the list of inlined names."""
    ref_names = set(ref_order)
    ex = _excluded(fnode)
    done = []
    for _round in range(50):
        hit = False
        for block in _blocks(fnode):
            for i, st in enumerate(block):
                if not (isinstance(st, ast.Assign) and len(st.targets) == 1 and isinstance(st.targets[0], ast.Name)):
                    continue
                nm = st.targets[0].id
                if nm in ref_names or nm in ex:
                    continue
                occ = [n for n in ast.walk(fnode) if isinstance(n, ast.Name) and n.id == nm]
                stores = [n for n in occ if isinstance(n.ctx, ast.Store)]
                loads = [n for n in occ if isinstance(n.ctx, ast.Load)]
                if len(stores) != 1 or len(loads) != 1 or any(isinstance(n.ctx, ast.Del) for n in occ):
                    continue
                if any(isinstance(x, (ast.Yield, ast.YieldFrom, ast.Await, ast.NamedExpr, ast.Lambda)) for x in ast.walk(st.value)):
                    continue
                free = {n.id for n in ast.walk(st.value) if isinstance(n, ast.Name)}
                use_stmt = None
                ok = True
                for later in block[i + 1:]:
                    has_use = any(n is loads[0] for n in ast.walk(later))
                    compound = isinstance(later, (ast.For, ast.While, ast.If, ast.With, ast.Try, ast.Match, ast.FunctionDef, ast.ClassDef))
                    if has_use:
                        # inside a loop the temp would be re-evaluated per iteration; inside a nested def it would be captured late
                        if isinstance(later, (ast.For, ast.While, ast.FunctionDef, ast.AsyncFunctionDef, ast.ClassDef)):
                            ok = False
                        elif compound and (_stored_names(later) & free):
                            ok = False
                        use_stmt = later
                        break
                    if _stored_names(later) & (free | {nm}):
                        ok = False
                        break
                    # a call statement in between may mutate what `expr` reads only if it mentions those names
                    if isinstance(later, (ast.Expr, ast.AugAssign)) and ({n.id for n in ast.walk(later) if isinstance(n, ast.Name)} & free):
                        ok = False
                        break
                if not ok or use_stmt is None:
                    continue
                # the single use must be a plain read (not the base of a store / in-place update / method call statement)
                bad_ctx = False
                for p in ast.walk(use_stmt):
                    if isinstance(p, (ast.Subscript, ast.Attribute)) and p.value is loads[0] and isinstance(p.ctx, (ast.Store, ast.Del)):
                        bad_ctx = True
                    if isinstance(p, ast.AugAssign) and any(x is loads[0] for x in ast.walk(p.target)):
                        bad_ctx = True
                    if isinstance(p, (ast.ListComp, ast.SetComp, ast.DictComp, ast.GeneratorExp, ast.Lambda)) and any(x is loads[0] for x in ast.walk(p)):
                        # evaluated per element: only the outermost iterable is evaluated once
                        first_iter = p.generators[0].iter if hasattr(p, "generators") else None
                        if first_iter is None or not any(x is loads[0] for x in ast.walk(first_iter)):
                            bad_ctx = True
                if isinstance(use_stmt, ast.Expr) and isinstance(use_stmt.value, ast.Call) and isinstance(use_stmt.value.func, ast.Attribute) and use_stmt.value.func.value is loads[0]:
                    bad_ctx = True
                if bad_ctx:
                    continue
                new = copy.deepcopy(st.value)
                if not _replace_node(use_stmt, loads[0], new):
                    continue
                del block[i]
                if not block:
                    block.append(ast.Pass())
                done.append(nm)
                hit = True
                break
            if hit:
                break
        if not hit:
            break
    return done


def _replace_node(root, old, new):
    for parent in ast.walk(root):
        for field, val in ast.iter_fields(parent):
            if val is old:
                setattr(parent, field, new)
                return True
            if isinstance(val, list):
                for i, v in enumerate(val):
                    if v is old:
                        val[i] = new
                        return True
    return False


# -------------------------------------------------------------------------------------------------
# Orientation: one spelling for mirrored comparisons and for negated two-armed branches

class _Orient(ast.NodeTransformer):
    FL = {ast.Gt: ast.Lt, ast.GtE: ast.LtE}

    def visit_Compare(self, node):
        self.generic_visit(node)
        if len(node.ops) == 1 and type(node.ops[0]) in self.FL:
            return ast.copy_location(ast.Compare(left=node.comparators[0], ops=[self.FL[type(node.ops[0])]()], comparators=[node.left]), node)
        return node

    def visit_If(self, node):
        self.generic_visit(node)
        if isinstance(node.test, ast.UnaryOp) and isinstance(node.test.op, ast.Not) and node.orelse and not (len(node.orelse) == 1 and isinstance(node.orelse[0], ast.If)):
            node.test, node.body, node.orelse = node.test.operand, node.orelse, node.body
        return node


def orient(fnode):
    """`a > b` -> `b < a`, `a >= b` -> `b <= a`; `if not c: A else: B` -> `if c: B else: A` (in place)."""
    new = _Orient().visit(fnode)
    ast.fix_missing_locations(new)
    return new


# -------------------------------------------------------------------------------------------------
# Re-extraction of reference locals that were inlined away ("inline variable" refactors)

def _blank_dump(node, loc):
    c = copy.deepcopy(node)
    for n in ast.walk(c):
        if isinstance(n, ast.Name) and n.id in loc:
            n.id = "$"
        if hasattr(n, "ctx"):
            n.ctx = ast.Load()
    return hashlib.sha1(ast.dump(c, annotate_fields=False).encode()).hexdigest()[:16]


def single_defs(fnode, order=None):
    """reference locals bound exactly once, by a plain `R = E` -> blank-dump hash of E"""
    order = order if order is not None else local_order(fnode)
    loc = set(order)
    out = {}
    for nm in order:
        binds = [n for n in ast.walk(fnode) if isinstance(n, ast.Name) and n.id == nm and isinstance(n.ctx, ast.Store)]
        if len(binds) != 1:
            continue
        for st in ast.walk(fnode):
            if isinstance(st, ast.Assign) and len(st.targets) == 1 and st.targets[0] is binds[0]:
                if not any(isinstance(x, (ast.Yield, ast.YieldFrom, ast.Await, ast.NamedExpr, ast.Lambda)) for x in ast.walk(st.value)) and not isinstance(st.value, (ast.Name, ast.Constant)):
                    out[nm] = _blank_dump(st.value, loc)
    return out


def reextract_missing(fnode, ref):
    """A reference local R (bound once by `R = E`) that the current function no longer has, while an expression with the same
    alpha-invariant shape as E occurs exactly once: re-introduce `R = <that expression>` immediately before the statement that contains it
    and read R there (the reverse of an "inline variable" refactor).  Returns the list of re-extracted names."""
    sd = ref.get("single") or {}
    if not sd:
        return []
    done = []
    for _round in range(30):
        order = local_order(fnode)
        loc = set(order) | set(ref["order"])
        missing = [nm for nm in ref["order"] if nm in sd and nm not in order and not any(isinstance(n, ast.Name) and n.id == nm for n in ast.walk(fnode))]
        hit = False
        for nm in missing:
            want = sd[nm]
            cands = []
            for block in _blocks(fnode):
                for i, st in enumerate(block):
                    if isinstance(st, (ast.FunctionDef, ast.AsyncFunctionDef, ast.ClassDef)):
                        continue
                    # only the statement's own expressions (headers of compound statements), not nested blocks
                    exprs = []
                    if isinstance(st, (ast.If, ast.While)):
                        exprs = [st.test]
                    elif isinstance(st, ast.For):
                        exprs = [st.iter]
                    elif isinstance(st, (ast.With,)):
                        exprs = [it.context_expr for it in st.items]
                    elif isinstance(st, (ast.Try, ast.Match)):
                        exprs = []
                    else:
                        exprs = [x for x in ast.iter_child_nodes(st) if isinstance(x, ast.expr)]
                    for e in exprs:
                        for x in ast.walk(e):
                            if isinstance(x, ast.expr) and not isinstance(x, (ast.Name, ast.Constant)) and isinstance(getattr(x, "ctx", ast.Load()), ast.Load) and _blank_dump(x, loc) == want:
                                cands.append((block, i, st, x))
            if len(cands) != 1:
                continue
            block, i, st, x = cands[0]
            # not inside a comprehension / lambda of that statement (its free variables would be bound there)
            inside = False
            for p in ast.walk(st):
                if isinstance(p, (ast.ListComp, ast.SetComp, ast.DictComp, ast.GeneratorExp, ast.Lambda)) and p is not x and any(y is x for y in ast.walk(p)):
                    bound = {t.id for g in getattr(p, "generators", []) for t in ast.walk(g.target) if isinstance(t, ast.Name)}
                    if bound & {y.id for y in ast.walk(x) if isinstance(y, ast.Name)}:
                        inside = True
            if inside:
                continue
            new_name = ast.Name(id=nm, ctx=ast.Load())
            ast.copy_location(new_name, x)
            if not _replace_node(st, x, new_name):
                continue
            asg = ast.Assign(targets=[ast.Name(id=nm, ctx=ast.Store())], value=x)
            ast.copy_location(asg, st)
            ast.fix_missing_locations(asg)
            block.insert(i, asg)
            done.append(nm)
            hit = True
            break
        if not hit:
            break
    return done
