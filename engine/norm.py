"""Expression normaliser: ast expression -> canonical nested-tuple term.

Canonical form: single-assignment locals inlined, commutative operands sorted, dagger / transpose /
conjugate idioms unified, matmul spellings unified, call arguments keyed by the callee's formal
names when the callee is a repo function, comparisons oriented.  Rules compare terms, never text.
"""

from __future__ import annotations

import ast

from fractions import Fraction

from .model import DEFAULT, MISSING, FunctionInfo, RepoModel, local_names, unparse, walk_no_nested


def _isnum(v):
    return isinstance(v, (int, Fraction)) and not isinstance(v, bool)


def _numc(v):
    """canonical numeric constant term"""
    if isinstance(v, Fraction) and v.denominator == 1:
        v = int(v)
    return ("c", v)

CONJ_FUNCS = {"numpy.conj", "numpy.conjugate"}
# (number of leading positional arguments kept, names of the following ones)
LIB_SIGNATURES = {
    "numpy.linalg.norm": (1, ["ord", "axis", "keepdims"]),
    "scipy.linalg.norm": (1, ["ord", "axis", "keepdims"]),
    "numpy.allclose": (2, ["rtol", "atol", "equal_nan"]),
    "numpy.isclose": (2, ["rtol", "atol", "equal_nan"]),
    "numpy.linalg.matrix_rank": (1, ["tol", "hermitian"]),
    "numpy.round": (1, ["decimals"]),
    "numpy.around": (1, ["decimals"]),
    "numpy.clip": (1, ["a_min", "a_max"]),
}
T_FUNCS = {"numpy.transpose"}
MATMUL_FUNCS = {"numpy.matmul", "numpy.dot"}


def tkey(t):
    return repr(t)


def mk(op, *xs):
    return (op,) + tuple(xs)


def sort_terms(ts):
    return tuple(sorted(ts, key=tkey))


class Env:
    """Per-function environment: which locals can be inlined (single static assignment outside loops)."""

    def __init__(self, model: RepoModel, f: FunctionInfo, inline=True):
        self.model = model
        self.f = f
        self.inline = inline
        self.defs: dict[str, list[ast.AST]] = {}
        self.single: dict[str, ast.AST] = {}
        self._stack: set[str] = set()
        self.params = {p.name for p in f.params}
        self._collect()

    def _collect(self):
        fn = self.f.node
        loops = []

        def rec(node, in_loop):
            for ch in ast.iter_child_nodes(node):
                if isinstance(ch, (ast.FunctionDef, ast.AsyncFunctionDef, ast.ClassDef)):
                    continue
                il = in_loop
                if isinstance(ch, (ast.For, ast.While)):
                    il = True
                if isinstance(ch, ast.Assign):
                    for t in ch.targets:
                        self._bind(t, ch.value, in_loop)
                elif isinstance(ch, ast.AnnAssign) and ch.value is not None:
                    self._bind(ch.target, ch.value, in_loop)
                elif isinstance(ch, ast.AugAssign):
                    self._bind(ch.target, None, in_loop)
                elif isinstance(ch, (ast.For, ast.comprehension)):
                    self._bind(ch.target, None, True)
                elif isinstance(ch, ast.NamedExpr):
                    self._bind(ch.target, ch.value, in_loop)
                elif isinstance(ch, (ast.With,)):
                    for it in ch.items:
                        if it.optional_vars is not None:
                            self._bind(it.optional_vars, None, in_loop)
                elif isinstance(ch, ast.ExceptHandler) and ch.name:
                    self.defs.setdefault(ch.name, []).append(None)
                rec(ch, il)

        rec(fn, False)
        for name, ds in self.defs.items():
            if len(ds) == 1 and ds[0] is not None and name not in self.params:
                self.single[name] = ds[0]

    def _bind(self, target, value, in_loop):
        if isinstance(target, ast.Name):
            self.defs.setdefault(target.id, []).append(None if in_loop else value)
            if in_loop:
                # a loop-carried variable is never inlined
                self.defs[target.id].append(None)
        elif isinstance(target, (ast.Tuple, ast.List)):
            for i, e in enumerate(target.elts):
                if isinstance(e, ast.Name):
                    if value is not None and not in_loop:
                        sub = ast.Subscript(value=value, slice=ast.Constant(value=i), ctx=ast.Load())
                        self.defs.setdefault(e.id, []).append(sub)
                    else:
                        self.defs.setdefault(e.id, []).extend([None, None])
                else:
                    self._bind(e, None, True)
        elif isinstance(target, ast.Starred):
            self._bind(target.value, None, True)
        elif isinstance(target, (ast.Subscript, ast.Attribute)):
            # in-place store through a name: the name is no longer a pure alias of its definition
            base = target
            while isinstance(base, (ast.Subscript, ast.Attribute)):
                base = base.value
            if isinstance(base, ast.Name) and isinstance(target, ast.Subscript):
                self.defs.setdefault(base.id, []).append(None)


class Normalizer:
    def __init__(self, model: RepoModel, f: FunctionInfo, inline=True, env: Env | None = None):
        self.model = model
        self.f = f
        self.env = env or Env(model, f, inline)
        self.inline = inline
        self.bound: list[dict[str, str]] = []

    # ---------------------------------------------------------------------------------------
    def __call__(self, node):
        return self.n(node)

    def n(self, node):  # noqa: C901
        if node is None:
            return ("c", None)
        if node is DEFAULT or node is MISSING:
            return ("default",)
        m = getattr(self, "n_" + type(node).__name__, None)
        if m is None:
            return ("?", unparse(node))
        return m(node)

    def n_Constant(self, node):
        v = node.value
        if isinstance(v, bool) or v is None or isinstance(v, str):
            return ("c", v)
        if isinstance(v, int):
            return ("c", v)
        if isinstance(v, float):
            if v == int(v) and abs(v) < 1e15:
                return ("c", int(v))
            fr = Fraction(v).limit_denominator(4096)
            if float(fr) == v:
                return _numc(fr)
            return ("c", v)
        return ("c", repr(v))

    def n_Name(self, node):
        for b in reversed(self.bound):
            if node.id in b:
                return ("b", b[node.id])
        if self.inline and node.id in self.env.single and node.id not in self.env._stack:
            self.env._stack.add(node.id)
            try:
                return self.n(self.env.single[node.id])
            finally:
                self.env._stack.discard(node.id)
        if node.id in local_names(self.f.node):
            return ("n", node.id)
        if node.id in self.model._local_imports(self.f):
            r = self.model.resolve_expr(self.f, node)
            if r is not None:
                return self._ref(r, node)
        # enclosing function's locals
        p = self.f.parent
        while p is not None:
            if node.id in local_names(p.node):
                return ("n", node.id)
            p = p.parent
        r = self.model.resolve_global(self.f.module.name, node.id)
        if r is None:
            return ("n", node.id)
        return self._ref(r, node)

    def _ref(self, r, node):
        if r[0] == "func":
            return ("fn", r[1].qualname)
        if r[0] == "class":
            return ("cls", r[1].qualname)
        if r[0] == "lib":
            from .model import canon_lib

            return ("lib", canon_lib(r[1]))
        if r[0] == "mod":
            return ("mod", r[1])
        if r[0] == "var":
            return ("g", unparse(node))
        return ("n", unparse(node))

    def n_Attribute(self, node):
        r = None
        # only resolve pure Name.attr chains whose root is not a local
        root = node
        while isinstance(root, ast.Attribute):
            root = root.value
        if isinstance(root, ast.Name) and root.id not in local_names(self.f.node) and not any(
            root.id in b for b in self.bound
        ):
            r = self.model.resolve_expr(self.f, node)
            if r is not None:
                return self._ref(r, node)
        v = self.n(node.value)
        if node.attr == "T":
            return self._T(v)
        if node.attr == "H":
            return self._dag(v)
        if node.attr == "real":
            return ("real", v)
        if node.attr == "imag":
            return ("imag", v)
        return ("attr", v, node.attr)

    # dagger algebra
    def _T(self, v):
        if v[0] == "T":
            return v[1]
        if v[0] == "conj":
            return self._dag(v[1])
        if v[0] == "dag":
            return self._conj(v[1])
        return ("T", v)

    def _conj(self, v):
        if v[0] == "conj":
            return v[1]
        if v[0] == "T":
            return self._dag(v[1])
        if v[0] == "dag":
            return self._T(v[1])
        if v[0] == "c":
            return v
        return ("conj", v)

    def _dag(self, v):
        if v[0] == "dag":
            return v[1]
        if v[0] == "T":
            return self._conj(v[1])
        if v[0] == "conj":
            return self._T(v[1])
        return ("dag", v)

    def n_Call(self, node):
        fn = node.func
        # method idioms on arbitrary receivers
        if isinstance(fn, ast.Attribute):
            recv_is_local = True
            a = fn.attr
            if a in ("conj", "conjugate") and not node.args:
                base = self.n(fn.value)
                if base[0] not in ("lib", "mod"):
                    return self._conj(base)
            if a == "transpose" and not node.args and not node.keywords:
                base = self.n(fn.value)
                if base[0] not in ("lib", "mod"):
                    return self._T(base)
            if a == "getH" and not node.args:
                return self._dag(self.n(fn.value))
            if a == "dot" and len(node.args) == 1:
                base = self.n(fn.value)
                if base[0] not in ("lib", "mod"):
                    return self._matmul([base, self.n(node.args[0])])
        cal = self.model.resolve_call(self.f, node)
        if cal.kind == "lib":
            lib = cal.lib
            if lib in CONJ_FUNCS and len(node.args) == 1:
                return self._conj(self.n(node.args[0]))
            if lib in T_FUNCS and len(node.args) == 1 and not node.keywords:
                return self._T(self.n(node.args[0]))
            if lib in MATMUL_FUNCS and len(node.args) == 2:
                return self._matmul([self.n(node.args[0]), self.n(node.args[1])])
            if lib in ("numpy.linalg.solve", "scipy.linalg.solve") and len(node.args) == 2 and not node.keywords:
                # solve(A, B) == inv(A) @ B
                return self._matmul([("call", "numpy.linalg.inv", (self.n(node.args[0]),), ()), self.n(node.args[1])])
            if lib == "numpy.vdot" and len(node.args) == 2 and not node.keywords:
                # vdot(A, B) == sum(conj(A) * B) == Tr(Dagger(A) @ B)   (vdot conjugates its FIRST argument)
                return ("call", "numpy.trace", (self._matmul([self._dag(self.n(node.args[0])), self.n(node.args[1])]),), ())
            if lib == "numpy.outer" and len(node.args) == 2 and not node.keywords:
                # outer(a, b) == a b^T for (flattened) vectors: outer(v, conj(w)) is |v><w|
                return self._matmul([self.n(node.args[0]), self._T(self.n(node.args[1]))])
            if lib == "scipy.linalg.inv" and len(node.args) == 1 and not node.keywords:
                return ("call", "numpy.linalg.inv", (self.n(node.args[0]),), ())
            if lib == "numpy.real" and len(node.args) == 1:
                return ("real", self.n(node.args[0]))
            if lib == "numpy.imag" and len(node.args) == 1:
                return ("imag", self.n(node.args[0]))
            args = tuple(self.n(a) for a in node.args)
            kws = tuple(sorted(((k.arg or "**"), self.n(k.value)) for k in node.keywords))
            sig = LIB_SIGNATURES.get(lib)
            if sig and len(args) > sig[0] and not any(isinstance(a, ast.Starred) for a in node.args):
                # merge positional and keyword spellings: positional arguments beyond the first sig[0] become keywords
                extra = args[sig[0]:]
                names = sig[1][: len(extra)]
                if len(names) == len(extra):
                    kws = tuple(sorted(list(kws) + list(zip(names, extra))))
                    args = args[: sig[0]]
            return ("call", lib, args, kws)
        if cal.kind in ("repo", "class") and cal.func is not None:
            b = self.model.bind(node, cal.func)
            items = []
            for k, v in b.items():
                if k in ("*opaque",):
                    items.append((k, ("c", True)))
                elif k == "*extra":
                    items.append((k, tuple(self.n(x) for x in v)))
                elif k == "**extra":
                    for kk, vv in v.items():
                        items.append(("**" + kk, self.n(vv)))
                elif k == "**opaque":
                    items.append((k, self.n(v)))
                elif v is DEFAULT:
                    items.append((k, self.n(cal.func.param(k).default)))
                elif v is MISSING:
                    items.append((k, ("missing",)))
                else:
                    items.append((k, self.n(v)))
            key = cal.func.qualname if cal.kind == "repo" else cal.cls.qualname
            return ("call", key, (), tuple(sorted(items, key=lambda kv: kv[0])))
        if cal.kind == "class":
            args = tuple(self.n(a) for a in node.args)
            kws = tuple(sorted(((k.arg or "**"), self.n(k.value)) for k in node.keywords))
            return ("call", cal.cls.qualname, args, kws)
        fterm = self.n(fn)
        args = tuple(self.n(a.value) if isinstance(a, ast.Starred) else self.n(a) for a in node.args)
        kws = tuple(sorted(((k.arg or "**"), self.n(k.value)) for k in node.keywords))
        return ("call", fterm, args, kws)

    def _matmul(self, ts):
        flat = []
        for t in ts:
            if t[0] == "@":
                flat.extend(t[1])
            else:
                flat.append(t)
        return ("@", tuple(flat))

    def n_BinOp(self, node):
        l, r = self.n(node.left), self.n(node.right)
        op = type(node.op).__name__
        if op == "MatMult":
            return self._matmul([l, r])
        if op == "Add":
            return self._add([l, r])
        if op == "Sub":
            return self._add([l, self._neg(r)])
        if op == "Mult":
            return self._mul([l, r])
        if op == "Div":
            if r[0] == "c" and _isnum(r[1]) and r[1] != 0:
                return self._mul([l, _numc(Fraction(1) / Fraction(r[1]))])
            return ("/", l, r)
        if op == "Pow" and l[0] == "c" and r[0] == "c" and _isnum(l[1]) and isinstance(r[1], int) and not isinstance(r[1], bool) and abs(r[1]) <= 64 \
                and (l[1] != 0 or r[1] > 0):
            return _numc(Fraction(l[1]) ** r[1])
        sym = {"Pow": "**", "FloorDiv": "//", "Mod": "%", "BitXor": "^", "BitAnd": "&", "BitOr": "|",
               "LShift": "<<", "RShift": ">>"}.get(op, op)
        if sym in ("^", "&", "|"):
            return (sym, sort_terms([l, r]))
        return (sym, l, r)

    def _neg(self, t):
        if t[0] == "neg":
            return t[1]
        if t[0] == "c" and isinstance(t[1], (int, float, Fraction)) and not isinstance(t[1], bool):
            return ("c", -t[1])
        if t[0] == "+":
            return ("+", sort_terms([self._neg(x) for x in t[1]]))
        return ("neg", t)

    def _add(self, ts):
        flat = []
        for t in ts:
            if t[0] == "+":
                flat.extend(t[1])
            else:
                flat.append(t)
        consts = [t for t in flat if t[0] == "c" and isinstance(t[1], (int, float, Fraction)) and not isinstance(t[1], bool)]
        rest = [t for t in flat if t not in consts]
        if consts:
            s = sum(t[1] for t in consts)
            if s != 0 or not rest:
                rest.append(_numc(s) if _isnum(s) else ("c", s))
        if len(rest) == 1:
            return rest[0]
        return ("+", sort_terms(rest))

    def _mul(self, ts):
        flat = []
        sign = 1
        for t in ts:
            if t[0] == "*":
                flat.extend(t[1])
            elif t[0] == "neg":
                sign = -sign
                if t[1][0] == "*":
                    flat.extend(t[1][1])
                else:
                    flat.append(t[1])
            else:
                flat.append(t)
        nums = [t for t in flat if t[0] == "c" and _isnum(t[1])]
        if nums:
            rest = [t for t in flat if t not in nums]
            k = Fraction(1)
            for t in nums:
                k *= Fraction(t[1])
            if k < 0:
                k, sign = -k, -sign
            if k == 0:
                return ("c", 0)
            flat = rest + ([_numc(k)] if k != 1 or not rest else [])
        out = ("*", sort_terms(flat)) if len(flat) > 1 else flat[0]
        return out if sign == 1 else self._neg(out)

    def n_UnaryOp(self, node):
        v = self.n(node.operand)
        if isinstance(node.op, ast.USub):
            return self._neg(v)
        if isinstance(node.op, ast.Not):
            return self._not(v)
        if isinstance(node.op, ast.UAdd):
            return v
        return ("~", v)

    def _not(self, v):
        if v[0] == "not":
            return v[1]
        if v[0] == "cmp":
            inv = {"<": ">=", "<=": ">", ">": "<=", ">=": "<", "==": "!=", "!=": "==", "in": "notin",
                   "notin": "in", "is": "isnot", "isnot": "is"}
            return self._cmp(inv[v[1]], v[2], v[3])
        if v[0] == "and":
            return ("or", sort_terms([self._not(x) for x in v[1]]))
        if v[0] == "or":
            return ("and", sort_terms([self._not(x) for x in v[1]]))
        if v[0] == "c" and isinstance(v[1], bool):
            return ("c", not v[1])
        return ("not", v)

    def _cmp(self, op, a, b):
        if op == ">":
            return ("cmp", "<", b, a)
        if op == ">=":
            return ("cmp", "<=", b, a)
        if op in ("==", "!="):
            a, b = sorted([a, b], key=tkey)
        return ("cmp", op, a, b)

    def n_Compare(self, node):
        ops = {"Lt": "<", "LtE": "<=", "Gt": ">", "GtE": ">=", "Eq": "==", "NotEq": "!=", "In": "in",
               "NotIn": "notin", "Is": "is", "IsNot": "isnot"}
        left = self.n(node.left)
        parts = []
        for op, c in zip(node.ops, node.comparators):
            right = self.n(c)
            parts.append(self._cmp(ops[type(op).__name__], left, right))
            left = right
        if len(parts) == 1:
            return parts[0]
        return ("and", sort_terms(parts))

    def n_BoolOp(self, node):
        vals = [self.n(v) for v in node.values]
        op = "and" if isinstance(node.op, ast.And) else "or"
        flat = []
        for v in vals:
            if v[0] == op:
                flat.extend(v[1])
            else:
                flat.append(v)
        return (op, sort_terms(flat))

    def n_Subscript(self, node):
        v, i = self.n(node.value), self.n(node.slice)
        # constant index into a literal display: the element itself
        if v[0] in ("list", "tuple") and i[0] == "c" and isinstance(i[1], int) and not isinstance(i[1], bool):
            if -len(v) + 1 <= i[1] < len(v) - 1:
                return v[1 + i[1]] if i[1] >= 0 else v[i[1]]
        if v[0] == "call" and v[1] == "numpy.array" and len(v[2]) == 1 and v[2][0][0] in ("list", "tuple") and \
                i[0] == "c" and isinstance(i[1], int) and not isinstance(i[1], bool) and 0 <= i[1] < len(v[2][0]) - 1:
            el = v[2][0][1 + i[1]]
            if el[0] not in ("list", "tuple"):
                return el
        return ("sub", v, i)

    def n_Slice(self, node):
        return ("slice", self.n(node.lower) if node.lower else ("c", None),
                self.n(node.upper) if node.upper else ("c", None),
                self.n(node.step) if node.step else ("c", None))

    def n_Tuple(self, node):
        return ("tuple",) + tuple(self.n(e) for e in node.elts)

    def n_List(self, node):
        return ("list",) + tuple(self.n(e) for e in node.elts)

    def n_Set(self, node):
        return ("set", sort_terms([self.n(e) for e in node.elts]))

    def n_Dict(self, node):
        return ("dict", tuple((self.n(k), self.n(v)) for k, v in zip(node.keys, node.values)))

    def n_Starred(self, node):
        return ("star", self.n(node.value))

    def n_IfExp(self, node):
        return ("ifexp", self.n(node.test), self.n(node.body), self.n(node.orelse))

    def n_NamedExpr(self, node):
        return self.n(node.value)

    def n_JoinedStr(self, node):
        return ("c", "<fstring>")

    def n_Lambda(self, node):
        names = [a.arg for a in node.args.args]
        self.bound.append({nm: f"l{len(self.bound)}_{i}" for i, nm in enumerate(names)})
        try:
            return ("lambda", len(names), self.n(node.body))
        finally:
            self.bound.pop()

    def _comp(self, kind, node, elts):
        depth = len(self.bound)
        pushed = 0
        gens = []
        try:
            for gi, g in enumerate(node.generators):
                it = self.n(g.iter)
                names = [x.id for x in ast.walk(g.target) if isinstance(x, ast.Name)]
                self.bound.append({nm: f"v{depth}_{gi}_{i}" for i, nm in enumerate(names)})
                pushed += 1
                tg = self.n(g.target)
                ifs = tuple(self.n(c) for c in g.ifs)
                gens.append((tg, it, ifs))
            body = tuple(self.n(e) for e in elts)
            return _fuse_comp(("comp", kind, body, tuple(gens)))
        finally:
            for _ in range(pushed):
                self.bound.pop()

    def n_ListComp(self, node):
        return self._comp("list", node, [node.elt])

    def n_GeneratorExp(self, node):
        return self._comp("list", node, [node.elt])

    def n_SetComp(self, node):
        return self._comp("set", node, [node.elt])

    def n_DictComp(self, node):
        return self._comp("dict", node, [node.key, node.value])


# ---------------------------------------------------------------------------------------------
def _replace_term(t, old, new):
    if t == old:
        return new
    if isinstance(t, tuple):
        return tuple(_replace_term(x, old, new) if isinstance(x, tuple) else x for x in t)
    return t


def _fuse_comp(t):
    """[f(a) for a in [g(k) for k in K]]  ==  [f(g(k)) for k in K]   and
    [f(a, k) for a, k in zip([g(k) for k in K], K)]  ==  [f(g(k), k) for k in K]   (parallel lists built from the same source).
    Only single-generator, filter-free inner comprehensions are fused; anything else is returned unchanged."""
    _, kind, body, gens = t
    out = []
    changed = False
    for tg, it, ifs in gens:
        inner = None
        # case A: iterate directly over a list comprehension
        if it[0] == "comp" and it[1] == "list" and len(it[3]) == 1 and not it[3][0][2] and len(it[2]) == 1 and tg[0] == "b":
            tg2, it2, _ = it[3][0]
            body = tuple(_replace_term(b_, tg, it[2][0]) for b_ in body)
            ifs = tuple(_replace_term(c_, tg, it[2][0]) for c_ in ifs)
            out.append((tg2, it2, ifs))
            changed = True
            continue
        # case B: zip of a comprehension over Y with Y itself (either order)
        if it[0] == "call" and it[1] == "builtins.zip" and len(it[2]) == 2 and not it[3] and tg[0] == "tuple" and len(tg) == 3:
            for ci, oi in ((0, 1), (1, 0)):
                c_, o_ = it[2][ci], it[2][oi]
                if c_[0] == "comp" and c_[1] == "list" and len(c_[3]) == 1 and not c_[3][0][2] and len(c_[2]) == 1 and c_[3][0][1] == o_ and c_[3][0][0][0] == "b":
                    inner = (ci, oi, c_)
                    break
            if inner is not None:
                ci, oi, c_ = inner
                t_c, t_o = tg[1 + ci], tg[1 + oi]
                if t_c[0] == "b" and t_o[0] == "b":
                    val = _replace_term(c_[2][0], c_[3][0][0], t_o)
                    body = tuple(_replace_term(b_, t_c, val) for b_ in body)
                    ifs = tuple(_replace_term(x_, t_c, val) for x_ in ifs)
                    out.append((t_o, it[2][oi], ifs))
                    changed = True
                    continue
        out.append((tg, it, ifs))
    return ("comp", kind, body, tuple(out)) if changed else t


def subterms(t):
    """Pre-order iteration over all sub-terms of a term."""
    yield t
    if isinstance(t, tuple):
        for x in t[1:] if t and isinstance(t[0], str) else t:
            if isinstance(x, tuple):
                yield from subterms(x)


def contains(t, pred) -> bool:
    return any(pred(s) for s in subterms(t))


def mentions_name(t, name: str) -> bool:
    return contains(t, lambda s: isinstance(s, tuple) and len(s) == 2 and s[0] == "n" and s[1] == name)


def calls_to(t, key: str):
    """Sub-terms that are calls to `key` (qualname suffix or library dotted name)."""
    out = []
    for s in subterms(t):
        if isinstance(s, tuple) and len(s) == 4 and s[0] == "call" and isinstance(s[1], str):
            if s[1] == key or s[1].endswith("." + key):
                out.append(s)
    return out


def kwarg(callterm, name, default=None):
    for k, v in callterm[3]:
        if k == name:
            return v
    return default


def show(t, depth=0) -> str:
    """Readable rendering of a term for reports."""
    if not isinstance(t, tuple) or not t:
        return repr(t)
    h = t[0]
    if not isinstance(h, str):
        return "(" + ", ".join(show(x) for x in t) + ")"
    if h == "comp":
        gens = " ".join(f"for {show(g[0])} in {show(g[1])}" + "".join(f" if {show(c)}" for c in g[2]) for g in t[3])
        return "[" + ", ".join(show(x) for x in t[2]) + " " + gens + "]"
    if h == "c":
        return repr(t[1])
    if h in ("n", "b", "g"):
        return str(t[1])
    if h in ("lib", "fn", "cls", "mod"):
        return t[1].split(".")[-1] if h != "lib" else t[1]
    if h == "call":
        callee = t[1] if isinstance(t[1], str) else show(t[1])
        callee = callee.split(".")[-1] if isinstance(t[1], str) and not t[1].startswith(("numpy", "scipy", "cvxpy", "picos", "builtins")) else callee
        args = [show(a) for a in t[2]] + [f"{k}={show(v)}" for k, v in t[3]]
        return f"{callee}({', '.join(args)})"
    if h in ("dag", "T", "conj", "neg", "not", "real", "imag"):
        return f"{h}({show(t[1])})"
    if h in ("+", "*", "and", "or", "@"):
        sep = {"+": " + ", "*": " * ", "and": " and ", "or": " or ", "@": " @ "}[h]
        return "(" + sep.join(show(x) for x in t[1]) + ")"
    if h == "cmp":
        return f"({show(t[2])} {t[1]} {show(t[3])})"
    if h == "sub":
        return f"{show(t[1])}[{show(t[2])}]"
    if h == "attr":
        return f"{show(t[1])}.{t[2]}"
    if h in ("tuple", "list"):
        return ("(" if h == "tuple" else "[") + ", ".join(show(x) for x in t[1:]) + (")" if h == "tuple" else "]")
    if h == "slice":
        return ":".join("" if x == ("c", None) else show(x) for x in t[1:])
    if h == "?":
        return t[1]
    return h + "(" + ", ".join(show(x) if isinstance(x, tuple) else repr(x) for x in t[1:]) + ")"
