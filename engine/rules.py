"""Generic rule helpers shared by the per-property modules."""

from __future__ import annotations

import ast

from . import flow as flw
from .dataflow import origins, param_is_live
from .effects import effects_on_params
from .model import DEFAULT, MISSING, FunctionInfo, calls_in, unparse, walk_no_nested
from .norm import Normalizer, calls_to, contains, kwarg, mentions_name, show, subterms, tkey


# ---------------------------------------------------------------------------------------------
def calls_from(model, f: FunctionInfo, callee_short: str, include_nested=False):
    """Call nodes in f that resolve to repo function `callee_short` (qualname suffix) or library
    dotted name."""
    out = []
    for c in calls_in(f.node, include_nested):
        cal = model.resolve_call(f, c)
        k = cal.key
        if k == callee_short or k.endswith("." + callee_short):
            out.append((c, cal))
    return out


def path_conds(model, f, node, norm=None):
    """Normalised (term, polarity) branch conditions governing the statement containing `node`."""
    norm = norm or Normalizer(model, f, inline=False)
    hit = flw.find_stmt_of(f.node, node)
    if hit is None:
        return []
    _, facts = hit
    return [(norm(t), pol) for t, pol in flw.conds(facts)]


def cond_implies_none(conds, pname) -> bool:
    """Does the path condition imply `pname is None`?"""
    for t, pol in conds:
        if t == ("cmp", "is", ("n", pname), ("c", None)) and pol:
            return True
        if t == ("cmp", "isnot", ("n", pname), ("c", None)) and not pol:
            return True
    return False


# ---------------------------------------------------------------------------------------------
def r_thread(ctx, f: FunctionInfo, pname: str, callee_short: str, formal: str | None = None, rule="R-THREAD",
             min_sites=1, src=None, allow_none_path=True):
    """Every call f -> callee binds `formal` to an expression deriving from f's parameter `pname`
    (or from `src`, e.g. 'self.reps')."""
    model = ctx.model
    formal = formal or pname
    src = src or pname
    sites = calls_from(model, f, callee_short)
    key = f"{src}->{callee_short}.{formal}"
    if len(sites) < min_sites:
        ctx.ob(rule, f, key, False, f"expected >= {min_sites} call(s) to {callee_short} forwarding `{src}`; found {len(sites)}")
        return
    og = origins(f)
    for c, cal in sites:
        fi = cal.func
        if fi is None:
            ctx.ob(rule, f, key, None, "callee has no analysable signature", c)
            continue
        b = model.bind(c, fi)
        if "*opaque" in b or "**opaque" in b:
            ctx.ob(rule, f, key, None, "opaque *args/**kwargs at call", c)
            continue
        if formal not in b:
            ctx.ob(rule, f, key, False, f"{callee_short} has no parameter `{formal}` any more", c)
            continue
        a = b[formal]
        if a is DEFAULT or a is MISSING:
            if allow_none_path and cond_implies_none(path_conds(model, f, c), pname):
                ctx.ob(rule, f, key, True, f"`{formal}` omitted on a path where `{pname}` is None", c)
            else:
                ctx.ob(rule, f, key, False,
                       f"call `{unparse(c)[:80]}` does not pass `{formal}`: the callee computes with its default "
                       f"instead of the caller's `{src}`", c)
            continue
        if og.derives_from(a, src):
            ctx.ob(rule, f, key, True, f"`{formal}={unparse(a)[:40]}` derives from `{src}`", c)
        else:
            ctx.ob(rule, f, key, False, f"`{formal}={unparse(a)[:60]}` does not derive from `{src}`", c)


def r_bind_literal(ctx, f: FunctionInfo, callee_short: str, formal: str, expected, rule="R-BIND", min_sites=1,
                   which=None):
    """Every call f -> callee binds `formal` to the literal `expected` (compared as normalised term)."""
    model = ctx.model
    sites = calls_from(model, f, callee_short)
    if which is not None:
        sites = [s for s in sites if which(s[0])]
    key = f"{callee_short}.{formal}=={expected!r}"
    if len(sites) < min_sites:
        ctx.ob(rule, f, key, False, f"expected >= {min_sites} call(s) to {callee_short}; found {len(sites)}")
        return
    N = Normalizer(model, f)
    for c, cal in sites:
        fi = cal.func
        b = model.bind(c, fi)
        a = b.get(formal, MISSING)
        if a is DEFAULT:
            t = N(fi.param(formal).default)
        elif a is MISSING:
            ctx.ob(rule, f, key, False, f"`{formal}` not bound at `{unparse(c)[:80]}`", c)
            continue
        else:
            t = N(a)
        want = expected if isinstance(expected, tuple) else ("c", expected)
        if t == want:
            ctx.ob(rule, f, key, True, f"`{formal}` bound to {show(t)}", c)
        elif t[0] in ("c", "list", "tuple"):
            ctx.ob(rule, f, key, False, f"`{formal}` bound to {show(t)}, the definition requires {show(want)}", c)
        else:
            ctx.ob(rule, f, key, None, f"`{formal}` bound to non-literal {show(t)}", c)


def r_live(ctx, f: FunctionInfo, pname: str, rule="R-LIVE"):
    """A documented option must be able to influence the result."""
    if f.param(pname) is None:
        ctx.ob(rule, f, f"param:{pname}", False, f"documented parameter `{pname}` no longer exists")
        return
    ok = param_is_live(f, pname)
    ctx.ob(rule, f, f"param:{pname}", ok,
           f"`{pname}` reaches a return value / governing condition" if ok else
           f"parameter `{pname}` cannot influence any returned value: no data or control dependence from it")


def r_effect_free(ctx, f: FunctionInfo, params=None, rule="R-EFFECT", allow=(), self_is_owner=True):
    """No store reaches caller-owned storage."""
    es = effects_on_params(ctx.model, f, params, self_is_owner=self_is_owner)
    names = params if params is not None else [p.name for p in f.params if p.name not in ("self", "cls")]
    bad = {}
    for e in es:
        if (e.target, e.how) in allow or e.target in allow:
            continue
        bad.setdefault(e.target, []).append(e)
    for p in names:
        tgt = f"param:{p}"
        if tgt in bad:
            e = bad[tgt][0]
            ctx.ob(rule, f, f"no-write:{p}", False,
                   f"`{e.text}` ({e.how}) writes into the caller's `{p}` (alias {e.via})", e.node)
        else:
            ctx.ob(rule, f, f"no-write:{p}", True, f"no store reaches the caller's `{p}`")
    for tgt, lst in bad.items():
        if tgt.startswith("self:"):
            e = lst[0]
            ctx.ob(rule, f, f"no-write:{tgt}", False,
                   f"`{e.text}` ({e.how}) modifies the object's state outside __init__", e.node)


# ---------------------------------------------------------------------------------------------
# R-GUARD: interval interpretation of raise-guards
def _conjuncts(t):
    if t[0] == "and":
        out = []
        for x in t[1]:
            out += _conjuncts(x)
        return out
    return [t]


def guard_facts_at_returns(model, f: FunctionInfo, norm=None):
    """For every normal return: list of normalised conditions known to hold (as positive terms)."""
    norm = norm or Normalizer(model, f, inline=False)
    res = flw.flow(f.node)
    out = []
    for rnode, facts in res.returns:
        held = []
        for x in facts:
            if x[0] == "cond":
                t = norm(x[1])
                t = t if x[2] else norm._not(t)
                held += _conjuncts(t)
            elif x[0] == "loopguard":
                # for all iterations: not(conj of conds)
                cs = x[2]
                if len(cs) == 1:
                    t = norm(cs[0][0])
                    t = norm._not(t) if cs[0][1] else t
                    for c in _conjuncts(t):
                        held.append(("forall", c))
        out.append((rnode, facts, held))
    return out


def interval_of(held, subject_pred):
    """From held comparisons extract [lo, hi] bounds (with strictness) on the subject term.
    subject_pred(term) -> True for the subject expression."""
    lo = hi = None
    for t in held:
        if t[0] == "forall":
            t = t[1]
        if t[0] != "cmp":
            continue
        op, a, b = t[1], t[2], t[3]
        if op in ("<", "<="):
            if subject_pred(b) and a[0] == "c":
                lo = (a[1], op == "<")
            elif subject_pred(a) and b[0] == "c":
                hi = (b[1], op == "<")
    return lo, hi


def r_guard_interval(ctx, f: FunctionInfo, pname: str, lo, hi, rule="R-GUARD", subject=None, strict_lo=False,
                     strict_hi=False):
    """Every normal return of f is dominated by a raise-guard accepting exactly pname in [lo, hi]
    (None = unbounded)."""
    model = ctx.model
    key = f"{pname} in [{lo},{hi}]"
    subj = subject or (lambda t: t == ("n", pname))
    rets = guard_facts_at_returns(model, f)
    if not rets:
        ctx.ob(rule, f, key, None, "no normal return")
        return
    for rnode, facts, held in rets:
        glo, ghi = interval_of(held, subj)
        problems = []
        if lo is not None:
            if glo is None:
                problems.append(f"no lower bound on `{pname}` is enforced before this return")
            elif glo[0] != lo or glo[1] != strict_lo:
                problems.append(f"lower bound enforced is {'>' if glo[1] else '>='} {glo[0]}, documented {lo}")
        if hi is not None:
            if ghi is None:
                problems.append(f"no upper bound on `{pname}` is enforced before this return")
            elif ghi[0] != hi or ghi[1] != strict_hi:
                problems.append(f"upper bound enforced is {'<' if ghi[1] else '<='} {ghi[0]}, documented {hi}")
        if problems:
            ctx.ob(rule, f, key, False, "; ".join(problems), rnode or f.node)
            return
    ctx.ob(rule, f, key, True, f"a raising guard for `{pname}` outside [{lo},{hi}] dominates all {len(rets)} normal return(s)")


def guard_calls_dominating(model, f: FunctionInfo, node_or_none=None):
    """Repo/lib calls that appear in raise-guards (or executed statements) dominating all normal
    returns (node_or_none None) -- returns list over returns of lists of (call term, polarity|None)."""
    N = Normalizer(model, f, inline=False)
    res = flw.flow(f.node)
    out = []
    for rnode, facts in res.returns:
        items = []
        for x in facts:
            if x[0] == "cond":
                items.append((N(x[1]), x[2], x[1]))
            elif x[0] == "stmt":
                st = x[1]
                if isinstance(st, ast.Expr):
                    items.append((N(st.value), None, st.value))
            elif x[0] == "loopguard":
                for t, pol in x[2]:
                    items.append((("forall", N(t)), pol, t))
        out.append((rnode, items))
    return out


def r_guard_pred(ctx, f: FunctionInfo, pred_short: str, subject_param: str, rule="R-GUARD", polarity_ok=True,
                 exclude_when=None, key=None):
    """Every normal return is dominated by a raise-guard `if not pred(subject): raise`.
    exclude_when(facts_conds) -> True for returns that are outside the rule (e.g. the cvxpy branch)."""
    model = ctx.model
    key = key or f"{pred_short}({subject_param}) dominates"
    N = Normalizer(model, f, inline=False)
    res = flw.flow(f.node)
    og = origins(f)
    n_ret = 0
    for rnode, facts in res.returns:
        cond_terms = [(N(t), pol) for t, pol in flw.conds(facts)]
        if exclude_when and exclude_when(cond_terms, facts):
            continue
        n_ret += 1
        ok = False
        for x in facts:
            tests = []
            if x[0] == "cond":
                t = N(x[1])
                t = t if x[2] else N._not(t)
                tests = _conjuncts(t)
            elif x[0] == "loopguard" and len(x[2]) >= 1:
                t = N(x[2][-1][0])
                t = N._not(t) if x[2][-1][1] else t
                tests = _conjuncts(t)
            for t in tests:
                # positive occurrence of pred(subject)
                for c in calls_to(t, pred_short):
                    if t == c or (t[0] == "cmp" and c in (t[2], t[3])):
                        # which argument
                        args = list(c[2]) + [v for _, v in c[3]]
                        if any(_term_derives(a, subject_param, og) for a in args):
                            ok = True
        if not ok:
            ctx.ob(rule, f, key, False,
                   f"a normal return is reachable without `{pred_short}({subject_param})` having been required",
                   rnode or f.node)
            return
    if n_ret == 0:
        ctx.ob(rule, f, key, None, "no governed return")
    else:
        ctx.ob(rule, f, key, True, f"`{pred_short}({subject_param})` is required on every path to the {n_ret} governed return(s)")


def _term_derives(t, pname, og) -> bool:
    names = {s[1] for s in subterms(t) if isinstance(s, tuple) and len(s) == 2 and s[0] in ("n", "b")}
    return pname in og.of_names(names)


# ---------------------------------------------------------------------------------------------
def return_terms(model, f: FunctionInfo, inline=True):
    N = Normalizer(model, f, inline=inline)
    res = flw.flow(f.node)
    out = []
    for rnode, facts in res.returns:
        if rnode is None or rnode.value is None:
            out.append((rnode, facts, ("c", None)))
        else:
            out.append((rnode, facts, N(rnode.value)))
    return out, N


def find_calls_lib(model, f: FunctionInfo, lib: str):
    return [c for c in calls_in(f.node) if model.resolve_call(f, c).key == lib]


def keyword_value(call: ast.Call, name: str):
    for kw in call.keywords:
        if kw.arg == name:
            return kw.value
    return None


# ---------------------------------------------------------------------------------------------
def _stores_to(fnode, name):
    out = []
    for n in walk_no_nested(fnode):
        if isinstance(n, ast.Assign):
            for t in n.targets:
                for x in ast.walk(t):
                    if isinstance(x, ast.Name) and x.id == name and isinstance(x.ctx, ast.Store):
                        out.append(n)
        elif isinstance(n, (ast.AugAssign, ast.AnnAssign)):
            if isinstance(n.target, ast.Name) and n.target.id == name:
                out.append(n)
        elif isinstance(n, (ast.For, ast.comprehension)):
            for x in ast.walk(n.target):
                if isinstance(x, ast.Name) and x.id == name:
                    out.append(n)
        elif isinstance(n, ast.NamedExpr) and n.target.id == name:
            out.append(n)
    return out


def value_at(model, f: FunctionInfo, name: str, node, norm=None, _depth=0):
    """Symbolic value (normalised term) of local `name` at the statement containing `node`, following
    the must-executed assignments in order (Assign / AugAssign with a constant).  None if some
    assignment to the name may or may not have executed (not decidable syntactically)."""
    hit = flw.find_stmt_of(f.node, node)
    if hit is None:
        return None
    stmt, facts = hit
    norm = norm or Normalizer(model, f, inline=False)
    executed = [x[1] for x in facts if x[0] == "stmt"]
    all_stores = _stores_to(f.node, name)
    ex_ids = {id(s) for s in executed}
    line = getattr(stmt, "lineno", 0)
    val = ("n", name) if f.param(name) is not None else None
    for s in all_stores:
        if id(s) in ex_ids:
            continue
        if s is stmt:
            continue
        # a store not known to have executed: harmless only if it is lexically after the point and
        # not in an enclosing loop, or sits in a sibling branch that ends in return/raise
        if getattr(s, "lineno", 0) > line and not any(x[0] == "inloop" for x in facts):
            continue
        if _in_terminated_branch(f.node, s):
            continue
        return None
    for s in executed:
        if s not in all_stores:
            continue
        if isinstance(s, ast.Assign) and len(s.targets) == 1 and isinstance(s.targets[0], ast.Name):
            val = _subst(norm(s.value), name, val)
        elif isinstance(s, ast.AugAssign) and isinstance(s.target, ast.Name) and val is not None:
            rhs = norm(s.value)
            if isinstance(s.op, ast.Sub):
                val = norm._add([val, norm._neg(rhs)])
            elif isinstance(s.op, ast.Add):
                val = norm._add([val, rhs])
            elif isinstance(s.op, ast.Mult):
                val = norm._mul([val, rhs])
            else:
                return None
        elif isinstance(s, ast.Assign):
            # tuple unpacking etc.
            for t in s.targets:
                if isinstance(t, (ast.Tuple, ast.List)):
                    for i, e in enumerate(t.elts):
                        if isinstance(e, ast.Name) and e.id == name:
                            val = ("sub", norm(s.value), ("c", i))
        else:
            return None
    return val


def last_def_at(model, f: FunctionInfo, name: str, node, norm=None):
    """The last plain assignment `name = expr` that must have executed before `node`, provided no other store to
    `name` can execute between it and `node`.  Occurrences of `name` inside the returned term denote the OLDER value."""
    hit = flw.find_stmt_of(f.node, node)
    if hit is None:
        return None
    stmt, facts = hit
    norm = norm or Normalizer(model, f, inline=False)
    executed = [x[1] for x in facts if x[0] == "stmt"]
    stores = _stores_to(f.node, name)
    last = None
    for s_ in executed:
        if s_ in stores and isinstance(s_, ast.Assign) and len(s_.targets) == 1 and isinstance(s_.targets[0], ast.Name):
            last = s_
        elif s_ in stores:
            last = None
    if last is None:
        return None
    ex_ids = {id(x) for x in executed}
    for s_ in stores:
        if id(s_) in ex_ids or s_ is stmt:
            continue
        if last.lineno < getattr(s_, "lineno", 0) < getattr(stmt, "lineno", 10**9) and not _in_terminated_branch(f.node, s_):
            return None
    return norm(last.value)


def _subst(t, name, val):
    if val is None:
        return t
    if t == ("n", name):
        return val
    if isinstance(t, tuple):
        return tuple(_subst(x, name, val) if isinstance(x, tuple) else x for x in t)
    return t


def _in_terminated_branch(fnode, stmt):
    """Is `stmt` inside a nested block (if/else/try/with/match arm) that ends in return/raise, so that
    control cannot flow from it to code after that block?"""
    def rec(body, depth):
        for s in body:
            if s is stmt:
                return []
            blocks = []
            for fld in ("body", "orelse", "finalbody"):
                sub = getattr(s, fld, None)
                if isinstance(sub, list) and sub and isinstance(sub[0], ast.stmt):
                    blocks.append(sub)
            for h in getattr(s, "handlers", []) or []:
                blocks.append(h.body)
            for c in getattr(s, "cases", []) or []:
                blocks.append(c.body)
            for b in blocks:
                r = rec(b, depth + 1)
                if r is not None:
                    return r + [(s, b)]
        return None
    chain = rec(fnode.body, 0)
    if not chain:
        return False
    for owner, blk in chain:
        if isinstance(owner, (ast.For, ast.While)):
            continue
        if blk and isinstance(blk[-1], (ast.Return, ast.Raise)):
            return True
    return False


def expand_at(model, f, term, node, names, norm=None):
    """Replace free local names in `term` by their symbolic value at `node` (one level)."""
    for nm in names:
        if mentions_name(term, nm):
            v = value_at(model, f, nm, node, norm)
            if v is not None:
                term = _subst(term, nm, v)
    return term


# ---------------------------------------------------------------------------------------------
def _is_setlike(t):
    if not isinstance(t, tuple) or not t:
        return False
    if t[0] in ("set",):
        return True
    if t[0] == "comp" and t[1] == "set":
        return True
    if t[0] == "call" and t[1] in ("builtins.set", "builtins.frozenset", "numpy.setdiff1d_unsorted"):
        return True
    if t[0] == "call" and isinstance(t[1], tuple) and t[1][0] == "attr" and t[1][2] in (
            "difference", "union", "intersection", "symmetric_difference", "keys") and _is_setlike(t[1][1]):
        return True
    if t[0] in ("+", "|", "&", "^"):
        xs = t[1]
        return any(_is_setlike(x[1] if x[0] == "neg" else x) for x in xs)
    if t[0] == "neg":
        return _is_setlike(t[1])
    return False


def unordered_leaks(t, ordered=False):
    """Sub-terms where a set-valued expression is turned into a sequence without sorting."""
    out = []
    if not isinstance(t, tuple) or not t:
        return out
    if _is_setlike(t):
        if not ordered:
            out.append(t)
        return out
    if t[0] == "call":
        is_sorted = t[1] in ("builtins.sorted", "numpy.sort", "numpy.unique", "numpy.setdiff1d")
        for a in t[2]:
            out += unordered_leaks(a, is_sorted)
        for _, v in t[3]:
            if isinstance(v, tuple):
                out += unordered_leaks(v, is_sorted)
        return out
    for x in t[1:]:
        if isinstance(x, tuple):
            if x and isinstance(x[0], str):
                out += unordered_leaks(x, False)
            else:
                for y in x:
                    if isinstance(y, tuple):
                        out += unordered_leaks(y, False)
    return out


def r_order(ctx, f: FunctionInfo, callee_short: str, formal: str, rule="R-ORDER"):
    """The value bound to an order-sensitive formal (a permutation / axis list) must not derive from
    the iteration order of a set."""
    model = ctx.model
    og = origins(f)
    N = Normalizer(model, f, inline=False)
    key = f"{callee_short}.{formal} order-stable"
    sites = calls_from(model, f, callee_short)
    if not sites:
        ctx.ob(rule, f, key, None, f"no call to {callee_short}", required=False)
        return
    for c, cal in sites:
        b = model.bind(c, cal.func)
        a = b.get(formal)
        if not isinstance(a, ast.AST):
            continue
        names = og.of(a)
        leaks = []
        rhs_nodes = [a]
        for n in walk_no_nested(f.node):
            if isinstance(n, ast.Assign):
                for t in n.targets:
                    if any(isinstance(x, ast.Name) and x.id in names for x in ast.walk(t)):
                        rhs_nodes.append(n.value)
        for r in rhs_nodes:
            for lk in unordered_leaks(N(r)):
                leaks.append((r, lk))
        if leaks:
            r, lk = leaks[0]
            ctx.ob(rule, f, key, False,
                   f"`{unparse(r)[:80]}` turns a set into a sequence without sorting and flows into `{formal}` of "
                   f"{callee_short}: the subsystem order then depends on set iteration order", r)
        else:
            ctx.ob(rule, f, key, True, f"no unordered collection flows into `{formal}`", c)


# ---------------------------------------------------------------------------------------------
def rename_term(t, mapping):
    """Rename free names ('n', x) according to mapping."""
    if isinstance(t, tuple):
        if len(t) == 2 and t[0] == "n" and t[1] in mapping:
            return ("n", mapping[t[1]])
        return tuple(rename_term(x, mapping) if isinstance(x, tuple) else x for x in t)
    return t


def resort(t):
    """Re-sort commutative operand tuples after a renaming."""
    if not isinstance(t, tuple) or not t:
        return t
    t = tuple(resort(x) if isinstance(x, tuple) else x for x in t)
    if t[0] in ("+", "*", "and", "or", "^", "&", "|", "set") and len(t) == 2 and isinstance(t[1], tuple):
        return (t[0], tuple(sorted(t[1], key=tkey)))
    if t[0] == "cmp" and t[1] in ("==", "!="):
        a, b = sorted([t[2], t[3]], key=tkey)
        return ("cmp", t[1], a, b)
    return t


def bool_atoms(t):
    if t[0] in ("and", "or"):
        out = []
        for x in t[1]:
            for a in bool_atoms(x):
                if a not in out:
                    out.append(a)
        return out
    if t[0] == "not":
        return bool_atoms(t[1])
    return [t]


def bool_eval(t, env):
    if t[0] == "and":
        return all(bool_eval(x, env) for x in t[1])
    if t[0] == "or":
        return any(bool_eval(x, env) for x in t[1])
    if t[0] == "not":
        return not bool_eval(t[1], env)
    if t[0] == "c":
        return bool(t[1])
    return env[tkey(t)]


def _neg_atom(t):
    inv = {"<": ">=", "<=": ">", ">": "<=", ">=": "<", "==": "!=", "!=": "==", "in": "notin", "notin": "in",
           "is": "isnot", "isnot": "is"}
    if t[0] == "cmp":
        op, a, b = t[1], t[2], t[3]
        # canonical orientation is '<' / '<=' only
        n = inv[op]
        if n == ">":
            return ("cmp", "<", b, a)
        if n == ">=":
            return ("cmp", "<=", b, a)
        return ("cmp", n, a, b)
    return None


def bool_equiv(a, b):
    """Truth-table equivalence of two boolean terms over their comparison / call atoms."""
    import itertools

    atoms = []
    for t in bool_atoms(a) + bool_atoms(b):
        if t not in atoms:
            atoms.append(t)
    # fold an atom and its negation into one variable
    var = {}
    pol = {}
    for t in atoms:
        k = tkey(t)
        nt = _neg_atom(t)
        if nt is not None and tkey(nt) in var:
            var[k] = var[tkey(nt)]
            pol[k] = not pol[tkey(nt)]
        else:
            var[k] = len(set(var.values()))
            pol[k] = True
    nv = len(set(var.values()))
    if nv > 12:
        return None
    for bits in itertools.product([False, True], repeat=nv):
        env = {k: (bits[var[k]] if pol[k] else not bits[var[k]]) for k in var}
        if bool_eval(a, env) != bool_eval(b, env):
            return False
    return True


# ---------------------------------------------------------------------------------------------
TOL_ROLE = {"rtol": "rel", "atol": "abs"}


def r_tol_forward(ctx, f: FunctionInfo, rule="R-TOL", min_calls=1, only=None, skip=()):
    """f has rtol/atol parameters: every call to a repo function (or numpy allclose/isclose) that takes
    rtol/atol must receive f's rtol as rtol and f's atol as atol (not swapped, not dropped)."""
    model = ctx.model
    og = origins(f)
    n = 0
    mine = [p for p in ("rtol", "atol") if f.param(p) is not None]
    if not mine:
        ctx.ob(rule, f, "has rtol/atol", False, "the predicate no longer exposes rtol/atol")
        return 0
    for c in calls_in(f.node):
        cal = model.resolve_call(f, c)
        if cal.kind == "repo" and cal.func is not None:
            callee = cal.func.name
            if only is not None and callee not in only:
                continue
            if callee in skip:
                continue
            formals = [p for p in ("rtol", "atol") if cal.func.param(p) is not None]
            if not formals:
                continue
            b = model.bind(c, cal.func)
            for p in formals:
                if p not in mine:
                    continue
                n += 1
                a = b.get(p)
                key = f"{p}->{callee}.{p}"
                if a is DEFAULT or a is MISSING:
                    ctx.ob(rule, f, key, False, f"`{unparse(c)[:70]}` does not forward `{p}`: the verdict ignores the caller's tolerance", c)
                elif og.derives_from(a, p) and not any(og.derives_from(a, q) for q in mine if q != p):
                    ctx.ob(rule, f, key, True, f"{p}={unparse(a)}", c)
                else:
                    other = [q for q in mine if q != p and og.derives_from(a, q)]
                    ctx.ob(rule, f, key, False,
                           f"`{p}` of {callee} receives `{unparse(a)}`" + (f" (the {TOL_ROLE[other[0]]}ative/absolute roles are exchanged)" if other else ""), c)
        elif cal.kind == "lib" and cal.lib in ("numpy.allclose", "numpy.isclose"):
            # positional: (a, b, rtol, atol)
            vals = {}
            if len(c.args) > 2:
                vals["rtol"] = c.args[2]
            if len(c.args) > 3:
                vals["atol"] = c.args[3]
            for kw in c.keywords:
                if kw.arg in ("rtol", "atol"):
                    vals[kw.arg] = kw.value
            for p in mine:
                n += 1
                key = f"{p}->{cal.lib.split('.')[-1]}.{p}"
                a = vals.get(p)
                if a is None:
                    ctx.ob(rule, f, key, False, f"`{unparse(c)[:70]}` does not receive `{p}`", c)
                elif og.derives_from(a, p) and not any(og.derives_from(a, q) for q in mine if q != p):
                    ctx.ob(rule, f, key, True, f"{p}={unparse(a)}", c)
                else:
                    ctx.ob(rule, f, key, False, f"`{p}` of {cal.lib} receives `{unparse(a)}`", c)
    if n < min_calls:
        ctx.ob(rule, f, "tolerances reach a comparison", False, f"no tolerance-taking call receives rtol/atol (found {n})")
    return n


def kraus_sandwich_terms(term):
    """Sub-terms K @ X @ Dagger(K): returns list of (ok, subterm)."""
    out = []
    for s in subterms(term):
        if isinstance(s, tuple) and s and s[0] == "@" and len(s[1]) == 3:
            a, x, b = s[1]
            out.append((b == ("dag", a) or (a[0] == "dag" and False), s))
    return out


# ---------------------------------------------------------------------------------------------
def _isinstance_kinds(f: FunctionInfo, pname: str):
    """Type names tested with isinstance(pname, ...) anywhere in f."""
    kinds = set()
    for n in walk_no_nested(f.node):
        if isinstance(n, ast.Call) and isinstance(n.func, ast.Name) and n.func.id == "isinstance" and len(n.args) == 2 and \
                isinstance(n.args[0], ast.Name) and n.args[0].id == pname:
            t = n.args[1]
            els = t.elts if isinstance(t, ast.Tuple) else [t]
            for e in els:
                kinds.add(unparse(e).split(".")[-1])
    return kinds


def r_kind_int(ctx, f: FunctionInfo, pname: str, rule="R-KIND", _seen=None):
    """A parameter declared `int | ...` must have a path for a Python int: either the function discriminates int itself,
    or it hands the parameter on to a callee that does, before any sequence operation (len, subscript, .shape, iteration)
    is applied to it."""
    model = ctx.model
    _seen = _seen or set()
    p = f.param(pname)
    key = f"{pname}: int alternative handled"
    if p is None:
        ctx.ob(rule, f, key, False, f"parameter `{pname}` no longer exists")
        return None
    ann = unparse(p.annotation) if p.annotation is not None else ""
    if "int" not in [x.strip() for x in ann.replace("None", "").split("|")]:
        ctx.ob(rule, f, key, None, f"`{pname}` is declared `{ann}`", required=False)
        return None
    verdict = _kind_int_handled(model, f, pname, set())
    if verdict[0] is True:
        ctx.ob(rule, f, key, True, verdict[1])
    elif verdict[0] is False:
        ctx.ob(rule, f, key, False, f"`{pname}` is declared `{ann}` but {verdict[1]}", verdict[2])
    else:
        ctx.ob(rule, f, key, None, verdict[1], required=False)
    return verdict[0]


SEQ_KINDS = {"list", "ndarray", "tuple", "Sequence", "matrix"}
INT_KINDS = {"int", "Integral", "Number", "integer", "float"}


class _MayBeInt:
    """Abstract execution of the function body specialised to `p` being a Python int: isinstance / is-None tests on p
    are decided, integer constants assigned on the way are tracked so that correlated flags (`num_sys = 1` ...
    `if num_sys == 1:`) are followed, undecidable tests fork.  Records sequence operations applied to p while it is
    still the int, and calls that receive it."""

    def __init__(self, f, pname):
        self.f = f
        self.p = pname
        self.hits = []
        self.passed = []
        self.block(f.node.body, (True, {}))

    # -- test evaluation ----------------------------------------------------------------------
    def decide(self, test, st):
        """True / False / None (unknown) under the assumption that p is an int (if st[0])"""
        alive, consts = st
        t = test
        if isinstance(t, ast.UnaryOp) and isinstance(t.op, ast.Not):
            d = self.decide(t.operand, st)
            return None if d is None else (not d)
        if isinstance(t, ast.BoolOp):
            ds = [self.decide(v, st) for v in t.values]
            if isinstance(t.op, ast.And):
                if any(d is False for d in ds):
                    return False
                return True if all(d is True for d in ds) else None
            if any(d is True for d in ds):
                return True
            return False if all(d is False for d in ds) else None
        if alive and isinstance(t, ast.Call) and isinstance(t.func, ast.Name) and t.func.id == "isinstance" and len(t.args) == 2 and \
                isinstance(t.args[0], ast.Name) and t.args[0].id == self.p:
            k = t.args[1]
            kinds = {unparse(e).split(".")[-1] for e in (k.elts if isinstance(k, ast.Tuple) else [k])}
            if kinds & {"int", "Integral", "Number", "integer", "object"}:
                return True
            if kinds <= (SEQ_KINDS | {"float", "str", "dict", "set", "Variable", "Expression", "complex", "floating"}):
                return False
            return None
        if alive and isinstance(t, ast.Compare) and len(t.ops) == 1 and isinstance(t.left, ast.Name) and t.left.id == self.p and \
                isinstance(t.comparators[0], ast.Constant) and t.comparators[0].value is None:
            if isinstance(t.ops[0], ast.Is):
                return False
            if isinstance(t.ops[0], ast.IsNot):
                return True
        if isinstance(t, ast.Compare) and len(t.ops) == 1:
            a, b = self.cval(t.left, consts), self.cval(t.comparators[0], consts)
            if a is not None and b is not None:
                op = t.ops[0]
                try:
                    return {ast.Eq: a == b, ast.NotEq: a != b, ast.Lt: a < b, ast.LtE: a <= b, ast.Gt: a > b, ast.GtE: a >= b}.get(type(op))
                except TypeError:
                    return None
        return None

    @staticmethod
    def cval(e, consts):
        if isinstance(e, ast.Constant) and isinstance(e.value, (int, float)) and not isinstance(e.value, bool):
            return e.value
        if isinstance(e, ast.Name) and e.id in consts:
            return consts[e.id]
        return None

    # -- expressions ------------------------------------------------------------------------------
    def expr(self, e, st):
        if e is None or st is None or not st[0]:
            return
        if isinstance(e, ast.IfExp):
            d = self.decide(e.test, st)
            self.expr(e.test, st)
            if d is not False:
                self.expr(e.body, st)
            if d is not True:
                self.expr(e.orelse, st)
            return
        if isinstance(e, ast.BoolOp):
            for v in e.values:
                self.expr(v, st)
                d = self.decide(v, st)
                if (isinstance(e.op, ast.And) and d is False) or (isinstance(e.op, ast.Or) and d is True):
                    break
            return
        p = self.p
        if isinstance(e, ast.Call) and any(isinstance(a, ast.Name) and a.id == p for a in list(e.args) + [k.value for k in e.keywords]):
            self.passed.append(e)
        if isinstance(e, ast.Call) and isinstance(e.func, ast.Name) and e.func.id in ("len", "iter", "enumerate", "zip", "min", "max", "sum", "sorted", "list", "tuple") and \
                any(isinstance(a, ast.Name) and a.id == p for a in e.args):
            self.hits.append((e, f"`{unparse(e)}` is applied to it"))
        elif isinstance(e, ast.Subscript) and isinstance(e.value, ast.Name) and e.value.id == p and isinstance(e.ctx, ast.Load):
            self.hits.append((e, f"it is subscripted (`{unparse(e)}`)"))
        elif isinstance(e, ast.Attribute) and isinstance(e.value, ast.Name) and e.value.id == p and e.attr in ("shape", "ndim", "T", "astype", "flatten", "tolist", "size"):
            self.hits.append((e, f"`.{e.attr}` is taken of it"))
        elif isinstance(e, (ast.ListComp, ast.SetComp, ast.GeneratorExp, ast.DictComp)):
            for g in e.generators:
                if isinstance(g.iter, ast.Name) and g.iter.id == p:
                    self.hits.append((g.iter, "it is iterated"))
        for ch in ast.iter_child_nodes(e):
            if isinstance(ch, ast.comprehension):
                self.expr(ch.iter, st)
                for c in ch.ifs:
                    self.expr(c, st)
            elif isinstance(ch, ast.keyword):
                self.expr(ch.value, st)
            elif isinstance(ch, ast.expr):
                self.expr(ch, st)

    # -- statements -------------------------------------------------------------------------------
    @staticmethod
    def merge(a, b):
        if a is None:
            return b
        if b is None:
            return a
        consts = {k: v for k, v in a[1].items() if b[1].get(k) == v}
        return (a[0] or b[0], consts)

    def block(self, body, st):
        for s in body:
            st = self.stmt(s, st)
            if st is None:
                return None
        return st

    def stmt(self, s, st):  # noqa: C901
        if isinstance(s, (ast.FunctionDef, ast.AsyncFunctionDef, ast.ClassDef)):
            return st
        if isinstance(s, ast.If):
            self.expr(s.test, st)
            d = self.decide(s.test, st)
            # walrus in the test: `(num_sys := len(dim)) == 1`
            ra = rb = None
            if d is not False:
                ra = self.block(s.body, (st[0], dict(st[1])))
            if d is not True:
                rb = self.block(s.orelse, (st[0], dict(st[1])))
            if d is True:
                return ra
            if d is False:
                return rb
            return self.merge(ra, rb)
        if isinstance(s, (ast.For, ast.AsyncFor)):
            if isinstance(s.iter, ast.Name) and s.iter.id == self.p and st[0]:
                self.hits.append((s.iter, "it is iterated"))
            self.expr(s.iter, st)
            inner = (st[0], {})
            r = self.block(s.body, inner)
            return self.merge((st[0], {}), r) if r is not None else (st[0], {})
        if isinstance(s, ast.While):
            self.expr(s.test, st)
            r = self.block(s.body, (st[0], {}))
            return self.merge((st[0], {}), r) if r is not None else (st[0], {})
        if isinstance(s, (ast.With, ast.AsyncWith)):
            return self.block(s.body, st)
        if isinstance(s, ast.Try):
            r = self.block(s.body, (st[0], dict(st[1])))
            out = r
            for h in s.handlers:
                out = self.merge(out, self.block(h.body, (st[0], {})))
            return out
        if isinstance(s, (ast.Return, ast.Raise)):
            self.expr(getattr(s, "value", None) or getattr(s, "exc", None), st)
            return None
        if isinstance(s, ast.Assign):
            self.expr(s.value, st)
            alive, consts = st
            consts = dict(consts)
            for t in s.targets:
                if isinstance(t, ast.Name):
                    if t.id == self.p:
                        alive = False
                    v = self.cval(s.value, consts)
                    if v is not None:
                        consts[t.id] = v
                    else:
                        consts.pop(t.id, None)
                elif isinstance(t, (ast.Tuple, ast.List)):
                    for e in t.elts:
                        if isinstance(e, ast.Name):
                            consts.pop(e.id, None)
                            if e.id == self.p:
                                alive = False
                elif isinstance(t, ast.Subscript):
                    self.expr(t.slice, st)
                    if isinstance(t.value, ast.Name) and t.value.id == self.p and alive:
                        self.hits.append((t, f"an item of it is assigned (`{unparse(t)}`)"))
            return (alive, consts)
        if isinstance(s, ast.AugAssign):
            self.expr(s.value, st)
            consts = dict(st[1])
            if isinstance(s.target, ast.Name):
                consts.pop(s.target.id, None)
            return (st[0], consts)
        if isinstance(s, ast.AnnAssign):
            self.expr(s.value, st)
            if isinstance(s.target, ast.Name) and s.target.id == self.p:
                return (False, st[1])
            return st
        if isinstance(s, ast.Expr):
            self.expr(s.value, st)
            return st
        if isinstance(s, ast.Match):
            out = st
            for c in s.cases:
                out = self.merge(out, self.block(c.body, (st[0], dict(st[1]))))
            return out
        return st


def _kind_int_handled(model, f, pname, seen):
    if f.qualname in seen:
        return (True, "recursive call (same analysis applies)", None)
    seen = seen | {f.qualname}
    kinds = _isinstance_kinds(f, pname)
    mb = _MayBeInt(f, pname)
    seq_ops = sorted(mb.hits, key=lambda x: getattr(x[0], "lineno", 0))
    # delegation: the parameter is passed on unchanged to a repo function
    deleg = []
    for c in mb.passed:
        cal = model.resolve_call(f, c)
        if cal.kind == "repo" and cal.func is not None:
            b = model.bind(c, cal.func)
            for formal, a in b.items():
                if isinstance(a, ast.Name) and a.id == pname and isinstance(formal, str) and not formal.startswith("*"):
                    deleg.append((c, cal.func, formal))
    if seq_ops:
        one_sided = " (the function tests isinstance(.., float) only: a one-sided discrimination)" if "float" in kinds and "int" not in kinds else ""
        first = seq_ops[0]
        return (False, f"{first[1]} on a path where it can still be a Python int{one_sided}", first[0])
    if deleg:
        verdicts = [_kind_int_handled(model, callee, formal, seen) for c, callee, formal in deleg]
        bad = [v for v in verdicts if v[0] is False]
        if bad:
            return (False, f"it is forwarded to {deleg[verdicts.index(bad[0])][1].name}, where {bad[0][1]}", deleg[verdicts.index(bad[0])][0])
        if all(v[0] is True for v in verdicts):
            return (True, f"no sequence operation while it may be an int; forwarded to {', '.join(sorted({d[1].name for d in deleg}))}, which handle int", None)
        return (None, "forwarded to callees with unknown handling", None)
    return (True, "no sequence operation is applied while the parameter may still be a Python int", None)


# ---------------------------------------------------------------------------------------------
def r_dtype_buffer(ctx, f: FunctionInfo, param: str, rule="R-DTYPE"):
    """A result buffer whose dtype is copied from ONE input element (x[0].dtype / a local built from it) must not
    receive the data of the other elements: numpy silently casts on item assignment (complex -> real drops the
    imaginary part with a warning, float -> int truncates silently)."""
    model = ctx.model
    og = origins(f)
    N = Normalizer(model, f, inline=True)
    bufs = {}
    for n in walk_no_nested(f.node):
        if isinstance(n, ast.Assign) and len(n.targets) == 1 and isinstance(n.targets[0], ast.Name) and isinstance(n.value, ast.Call):
            k = model.resolve_call(f, n.value).key
            if k in ("numpy.zeros", "numpy.empty", "numpy.ones", "numpy.full"):
                dt = next((kw.value for kw in n.value.keywords if kw.arg == "dtype"), None)
                if dt is None:
                    continue
                t = N(dt)
                one_elem = any(isinstance(s_, tuple) and s_ and s_[0] == "attr" and s_[2] == "dtype" and mentions_name(s_[1], param) and
                               any(isinstance(x, tuple) and x and x[0] == "sub" and x[1] == ("n", param) and x[2][0] == "c" for x in subterms(s_[1]))
                               for s_ in subterms(t))
                if one_elem:
                    bufs[n.targets[0].id] = n
    key = f"no result buffer takes its dtype from a single element of `{param}`"
    bad = None
    for n in walk_no_nested(f.node):
        if isinstance(n, ast.Assign) and isinstance(n.targets[0], ast.Subscript):
            b = n.targets[0].value
            while isinstance(b, ast.Subscript):
                b = b.value
            if isinstance(b, ast.Name) and b.id in bufs and og.derives_from(n.value, param):
                bad = (n, bufs[b.id])
    if bad:
        ctx.ob(rule, f, key, False,
               f"`{unparse(bad[1])[:70]}` fixes the buffer's dtype from one element of `{param}` and `{unparse(bad[0])[:50]}` stores the other elements "
               "into it: mixed real/complex or int/float families are silently cast down", bad[0])
    else:
        ctx.ob(rule, f, key, True, "no such buffer")


def r_dtype_default_buffer(ctx, f: FunctionInfo, param: str, rule="R-DTYPE"):
    """Buffers created by np.zeros / np.empty / np.ones that receive (by item assignment) data deriving from the array
    parameter `param` must be allocated with that parameter's dtype (or an explicit complex dtype): the default float64
    buffer silently discards imaginary parts."""
    model = ctx.model
    og = origins(f)
    bufs = {}
    for n in walk_no_nested(f.node):
        if isinstance(n, ast.Assign) and len(n.targets) == 1 and isinstance(n.targets[0], ast.Name) and isinstance(n.value, ast.Call):
            k = model.resolve_call(f, n.value).key
            if k in ("numpy.zeros", "numpy.empty", "numpy.ones", "numpy.full", "numpy.ndarray"):
                dt = next((kw.value for kw in n.value.keywords if kw.arg == "dtype"), None)
                ok = dt is not None and (og.derives_from(dt, param) or "complex" in unparse(dt))
                bufs.setdefault(n.targets[0].id, []).append((n, ok))
    n_recv = 0
    bad = None
    for n in walk_no_nested(f.node):
        # in-place accumulation into the buffer: numpy refuses (or truncates) when the increment is complex
        if isinstance(n, ast.AugAssign) and isinstance(n.target, ast.Name) and n.target.id in bufs and og.derives_from(n.value, param):
            n_recv += 1
            for alloc, ok in bufs[n.target.id]:
                if not ok:
                    bad = (n, alloc)
        if isinstance(n, ast.Assign) and isinstance(n.targets[0], ast.Subscript):
            b = n.targets[0].value
            while isinstance(b, ast.Subscript):
                b = b.value
            if isinstance(b, ast.Name) and b.id in bufs and og.derives_from(n.value, param):
                n_recv += 1
                for alloc, ok in bufs[b.id]:
                    if not ok:
                        bad = (n, alloc)
    key = f"buffers receiving slices of `{param}` are allocated with its dtype"
    if bad:
        ctx.ob(rule, f, key, False, f"`{unparse(bad[1])[:70]}` is a default-dtype (float64) buffer and `{unparse(bad[0])[:60]}` stores data of `{param}` into it: "
               "complex entries are cast to real (imaginary parts discarded)", bad[0])
    elif n_recv:
        ctx.ob(rule, f, key, True, f"{n_recv} receiving store(s), all into buffers typed after `{param}`")
    else:
        ctx.ob(rule, f, key, None, "no receiving buffer found", required=False)


# ---------------------------------------------------------------------------------------------
_WRAPPERS = {"int", "round", "float", "abs"}


def _strip_wrap(e):
    while True:
        if isinstance(e, ast.Call) and e.args and ((isinstance(e.func, ast.Name) and e.func.id in _WRAPPERS) or
                                                   (isinstance(e.func, ast.Attribute) and e.func.attr in ("round", "rint", "int64", "int32", "floor"))):
            e = e.args[0]
            continue
        return e


def scalar_dim_expansions(f: FunctionInfo):
    """Sites `T = [A, B]` / `T = np.array([A, B])` / 2x2 `[[A, B], [A', B']]` that turn the scalar T into the pair of local
    dimensions, one element being T itself and the other a quotient by T.  Yields (assign, row_elts, scalar_first)."""
    defs: dict[str, list] = {}
    for n in walk_no_nested(f.node):
        if isinstance(n, ast.Assign) and len(n.targets) == 1 and isinstance(n.targets[0], ast.Name):
            defs.setdefault(n.targets[0].id, []).append(n.value)

    def is_scalar(e, T):
        e = _strip_wrap(e)
        if isinstance(e, ast.Subscript) and isinstance(e.slice, ast.Constant) and e.slice.value == 0:  # T was [d] : T[0]
            e = e.value
        return isinstance(e, ast.Name) and e.id == T

    def is_quot(e, T, depth=0):
        e = _strip_wrap(e)
        while isinstance(e, ast.Subscript):
            e = _strip_wrap(e.value)
        if isinstance(e, ast.BinOp) and isinstance(e.op, (ast.Div, ast.FloorDiv)):
            return is_scalar(e.right, T)
        if isinstance(e, ast.Name) and e.id != T and depth < 2:
            return any(is_quot(v, T, depth + 1) for v in defs.get(e.id, []))
        return False

    out = []
    for n in walk_no_nested(f.node):
        if not (isinstance(n, ast.Assign) and len(n.targets) == 1 and isinstance(n.targets[0], ast.Name)):
            continue
        T = n.targets[0].id
        v = n.value
        if isinstance(v, ast.Call) and v.args and isinstance(v.func, ast.Attribute) and v.func.attr in ("array", "asarray"):
            v = v.args[0]
        if not isinstance(v, (ast.List, ast.Tuple)):
            continue
        rows = [v.elts] if not all(isinstance(x, (ast.List, ast.Tuple)) for x in v.elts) else [x.elts for x in v.elts]
        for r in rows:
            if len(r) != 2:
                continue
            s = [is_scalar(x, T) for x in r]
            q = [is_quot(x, T) for x in r]
            if (s[0] and q[1]) or (s[1] and q[0]):
                out.append((n, r, bool(s[0] and q[1])))
        # 2x2 form: row 0 describes the ROW dimensions (numerator = row total, index 0 of the size pair), row 1 the column dimensions
        if len(rows) == 2 and all(len(r) == 2 for r in rows):
            tot = []
            for r in rows:
                qe = [x for x in r if is_quot(x, T)]
                e = _strip_wrap(qe[0]) if qe else None
                if isinstance(e, ast.BinOp) and isinstance(e.left, ast.Subscript) and isinstance(e.left.slice, ast.Constant) and isinstance(e.left.value, ast.Name):
                    tot.append((e.left.value.id, e.left.slice.value))
                else:
                    tot.append(None)
            if None not in tot and tot[0][0] == tot[1][0]:
                out.append((n, ("rowcol", tot), tot[0][1] == 0 and tot[1][1] == 1))
    return out


def r_scalar_dim_expand(ctx, f: FunctionInfo, rule="R-KIND", chain=None):
    """A scalar `dim` names the FIRST local dimension: it expands to [dim, total / dim], never [total / dim, dim] (the
    list form [d_A, d_B] and the scalar form d_A must denote the same bipartition)."""
    sites = scalar_dim_expansions(f)
    per: dict[str, int] = {}
    for n, r, ok in sites:
        T = n.targets[0].id
        if isinstance(r, tuple) and r and r[0] == "rowcol":
            ctx.ob(rule, f, f"2x2 expansion of scalar `{T}`: row 0 divides the row total, row 1 the column total", ok,
                   f"rows use {r[1][0][0]}[0] and {r[1][0][0]}[1]" if ok else
                   f"`{unparse(n)[:80]}`: the quotients divide {r[1][0][0]}[{r[1][0][1]}] and {r[1][1][0]}[{r[1][1][1]}] -- the row table must come from the number of rows and the "
                   "column table from the number of columns (they differ for rectangular operators)", n, chain=chain)
            continue
        per[T] = per.get(T, 0) + 1
        key = f"scalar `{T}` expands to [{T}, total/{T}]" + (f" #{per[T]}" if per[T] > 1 else "")
        ctx.ob(rule, f, key, ok, f"`{unparse(n)[:70]}`" if ok else
               f"`{unparse(n)[:80]}` puts the quotient first: a scalar `{T}` = d then means d_B = d, while the list form and the documentation take "
               "the scalar as the first subsystem's dimension -- for unequal local dimensions the two forms denote different bipartitions", n, chain=chain)
    return len(sites)


# ---------------------------------------------------------------------------------------------
def _array_params(f: FunctionInfo):
    out = []
    for p in f.params:
        ann = unparse(p.annotation) if p.annotation is not None else ""
        if "ndarray" in ann or "list[np" in ann:
            out.append(p.name)
    return out


def cross_param_stores(model, f: FunctionInfo, params=None):
    """Item assignments `B[...] = V` where the array B was created by arithmetic on array parameters S (so its dtype is
    that of S) and V depends on an array parameter outside S.  Returns (n_buffers, [(store, alloc, S, extra)])."""
    og = origins(f)
    aps = set(params if params is not None else _array_params(f))
    if len(aps) < 2:
        return 0, []
    bufs = {}
    for n in walk_no_nested(f.node):
        if isinstance(n, ast.Assign) and len(n.targets) == 1 and isinstance(n.targets[0], ast.Name):
            v = n.value
            # arithmetic / copy / slice of parameters (numpy result_type of the operands); allocation calls with dtype are not this rule's
            if isinstance(v, ast.Call):
                k = model.resolve_call(f, v).key or ""
                if k in ("numpy.empty", "numpy.zeros", "numpy.ones", "numpy.full", "numpy.empty_like", "numpy.zeros_like", "numpy.ones_like", "numpy.full_like"):
                    # an allocation whose dtype is computed from some of the array parameters (dtype=np.result_type(a, b), dtype=a.dtype,
                    # zeros_like(a)): the buffer can hold what those parameters hold, nothing wider
                    dt = next((kw.value for kw in v.keywords if kw.arg == "dtype"), None)
                    src = dt if dt is not None else (v.args[0] if k.endswith("_like") and v.args else None)
                    if src is not None and not (isinstance(src, (ast.Name, ast.Attribute)) and unparse(src) in ("float", "complex", "int", "np.float64", "np.complex128", "bool")):
                        S_ = og.of(src) & aps
                        if S_:
                            bufs.setdefault(n.targets[0].id, []).append((n, S_))
                    continue
                if not (isinstance(v.func, ast.Attribute) and v.func.attr in ("copy", "astype") or k in ("numpy.copy", "numpy.array", "numpy.asarray", "copy.copy", "copy.deepcopy")):
                    continue
                if any(kw.arg == "dtype" for kw in v.keywords) or (isinstance(v.func, ast.Attribute) and v.func.attr == "astype"):
                    continue
            elif not isinstance(v, (ast.BinOp, ast.Subscript, ast.UnaryOp)):
                continue
            direct = {x.id for x in ast.walk(v) if isinstance(x, ast.Name)} & aps
            # a float literal / true division already promotes to float: no narrowing to int
            floaty = any(isinstance(x, ast.Constant) and isinstance(x.value, (float, complex)) for x in ast.walk(v)) or \
                any(isinstance(x, ast.BinOp) and isinstance(x.op, ast.Div) for x in ast.walk(v))
            if direct and not floaty:
                bufs.setdefault(n.targets[0].id, []).append((n, direct))
    found = []
    for n in walk_no_nested(f.node):
        if isinstance(n, ast.Assign) and isinstance(n.targets[0], ast.Subscript):
            b = n.targets[0].value
            while isinstance(b, ast.Subscript):
                b = b.value
            if isinstance(b, ast.Name) and b.id in bufs:
                vs = (og.of(n.value) & aps)
                for alloc, S in bufs[b.id]:
                    extra = vs - S
                    if extra:
                        found.append((n, alloc, S, extra))
    return len(bufs), found


def r_dtype_cross_param(ctx, f: FunctionInfo, params=None, rule="R-DTYPE", chain=None):
    """Scoped to functions whose array parameters are independent numeric data families (not dimension vectors)."""
    nb, found = cross_param_stores(ctx.model, f, params)
    key = "no array typed by one parameter receives another parameter's values by item assignment"
    if found:
        st, alloc, S, extra = found[0]
        ctx.ob(rule, f, key, False, f"`{unparse(alloc)[:60]}` has the dtype of {sorted(S)}; `{unparse(st)[:70]}` stores values depending on {sorted(extra)} into it: "
               "with an integer (or real) first family and real (or complex) second family the store truncates silently", st, chain=chain)
    else:
        ctx.ob(rule, f, key, True, f"{nb} parameter-typed array(s), none receives another parameter's data", chain=chain)
    return nb


# ---------------------------------------------------------------------------------------------
_CACHE_DECORATORS = {"lru_cache", "cache", "cached_property", "memoize", "memoized"}


def local_names_of(f):
    from .model import local_names
    try:
        return set(local_names(f.node)) | {p.name for p in f.params}
    except Exception:  # noqa: BLE001
        return {p.name for p in f.params}


def r_fresh_result(ctx, f: FunctionInfo, rule="R-EFFECT", chain=None):
    """A function that returns a mutable array / list hands out a fresh object on every call: it is not memoised (a
    functools cache returns the SAME ndarray to every caller, so one caller's in-place normalisation corrupts every
    later result), and does not return module-level mutable state."""
    bad = None
    for d in getattr(f.node, "decorator_list", []):
        x = d.func if isinstance(d, ast.Call) else d
        nm = x.attr if isinstance(x, ast.Attribute) else x.id if isinstance(x, ast.Name) else ""
        if nm in _CACHE_DECORATORS:
            bad = d
    ann = unparse(f.node.returns) if getattr(f.node, "returns", None) is not None else ""
    mutable = any(k in ann for k in ("ndarray", "list", "dict", "matrix", "csr", "dia_")) or ann == ""
    # a hand-written memo: the function stores into a module-level container (dict / list / set) -- state that survives the call
    mod = f.module
    if bad is None and mod is not None and f.parent is None:
        glob = {t.id for st in getattr(mod, "tree", ast.Module(body=[], type_ignores=[])).body if isinstance(st, (ast.Assign, ast.AnnAssign))
                for t in (st.targets if isinstance(st, ast.Assign) else [st.target]) if isinstance(t, ast.Name)
                and isinstance(st.value, (ast.Dict, ast.List, ast.Set, ast.Call)) and not (isinstance(st.value, ast.Call) and getattr(st.value.func, "id", "") in ("frozenset", "tuple", "TypeVar"))}
        loc = local_names_of(f)
        for x in walk_no_nested(f.node):
            tgt = None
            if isinstance(x, ast.Subscript) and isinstance(x.ctx, (ast.Store, ast.Del)) and isinstance(x.value, ast.Name):
                tgt = x.value.id
            elif isinstance(x, ast.Call) and isinstance(x.func, ast.Attribute) and isinstance(x.func.value, ast.Name) and x.func.attr in ("append", "update", "setdefault", "add", "pop", "clear", "extend", "insert", "popitem"):
                tgt = x.func.value.id
            if tgt is not None and tgt in glob and tgt not in loc:
                ctx.ob(rule, f, "every call returns a fresh array (no memoisation of mutable results)", False,
                       f"`{unparse(x)[:60]}` (line {x.lineno}) stores into the module-level `{tgt}`: results are remembered between calls (keyed by object identity or by value), so a "
                       "caller that re-uses a buffer whose CONTENTS changed gets the answer for the old contents", x, chain=chain)
                return
    if bad is not None and mutable:
        ctx.ob(rule, f, "every call returns a fresh array (no memoisation of mutable results)", False,
               f"`@{unparse(bad)}` memoises a function returning `{ann or 'an unannotated value'}`: all callers with equal arguments share one mutable object, "
               "so an in-place update by one caller changes what later calls return", bad, chain=chain)
    else:
        ctx.ob(rule, f, "every call returns a fresh array (no memoisation of mutable results)", True, "not memoised", chain=chain)


# ---------------------------------------------------------------------------------------------
def sparse_unsafe_subscripts(f: FunctionInfo, name: str):
    """Typestate of `name` in {D (dense), S (sparse), M (may be either)} through the structured statements of f; returns
    (n_subscripts_checked, [Subscript nodes evaluated while the value may still be a scipy.sparse matrix]).
    scipy's dia_matrix (what sparse.eye / iden(is_sparse=True) produce) does not support indexing."""
    bad, count = [], [0]

    def is_sparse_test(t):
        """-> polarity-normalised: ('issparse', positive?) or None"""
        neg = False
        while isinstance(t, ast.UnaryOp) and isinstance(t.op, ast.Not):
            neg = not neg
            t = t.operand
        if isinstance(t, ast.Call) and ((isinstance(t.func, ast.Attribute) and t.func.attr in ("issparse", "isspmatrix")) or
                                        (isinstance(t.func, ast.Name) and t.func.id in ("issparse", "isspmatrix"))):
            if t.args and isinstance(t.args[0], ast.Name) and t.args[0].id == name:
                return not neg
        return None

    def densifies(v):
        if isinstance(v, ast.Call):
            if isinstance(v.func, ast.Attribute) and v.func.attr in ("toarray", "todense") and isinstance(v.func.value, ast.Name) and v.func.value.id == name:
                return True
            if isinstance(v.func, ast.Attribute) and v.func.attr in ("array", "asarray") and v.args and isinstance(v.args[0], ast.Call) and densifies(v.args[0]):
                return True
        return False

    def scan_expr(e, st):
        if e is None:
            return
        for n in ast.walk(e):
            if isinstance(n, ast.Subscript) and isinstance(n.value, ast.Name) and n.value.id == name and isinstance(n.ctx, ast.Load):
                count[0] += 1
                if st != "D":
                    bad.append(n)

    def join(a, b):
        if a is None:
            return b
        if b is None:
            return a
        return a if a == b else "M"

    def block(stmts, st):
        for s in stmts:
            if st is None:
                return None
            st = stmt(s, st)
        return st

    def stmt(s, st):
        if isinstance(s, (ast.Return, ast.Raise)):
            scan_expr(getattr(s, "value", None) or getattr(s, "exc", None), st)
            return None
        if isinstance(s, ast.If):
            pol = is_sparse_test(s.test)
            scan_expr(s.test, st)
            if pol is None:
                a, b = block(s.body, st), block(s.orelse, st)
            else:
                a = block(s.body, "S" if pol else "D")
                b = block(s.orelse, "D" if pol else "S") if s.orelse else ("D" if pol else "S")
                if st == "D":  # already dense: the test cannot make it sparse again
                    a = block(s.body, "D") if not pol else a
                    b = "D" if not s.orelse else b
            return join(a, b)
        if isinstance(s, (ast.For, ast.While)):
            scan_expr(s.iter if isinstance(s, ast.For) else s.test, st)
            out = st
            for _ in range(2):
                e = block(s.body, out)
                out = join(out, e)
            return out
        if isinstance(s, (ast.With, ast.Try)):
            out = block(s.body, st)
            for h in getattr(s, "handlers", []):
                out = join(out, block(h.body, st))
            return out
        if isinstance(s, ast.Assign) and len(s.targets) == 1 and isinstance(s.targets[0], ast.Name) and s.targets[0].id == name:
            if densifies(s.value):
                return "D"
            scan_expr(s.value, st)
            return st
        if isinstance(s, (ast.FunctionDef, ast.ClassDef)):
            return st
        for ch in ast.iter_child_nodes(s):
            if isinstance(ch, ast.expr):
                scan_expr(ch, st)
        return st

    block(f.node.body, "M")
    return count[0], bad


def r_sparse_safe(ctx, f: FunctionInfo, name: str, rule="R-KIND", chain=None):
    n, bad = sparse_unsafe_subscripts(f, name)
    tests = any(isinstance(x, ast.Call) and "issparse" in unparse(x.func) for x in walk_no_nested(f.node))
    key = f"`{name}` is indexed only after it is known to be dense"
    if not tests:
        ctx.ob(rule, f, key, None, f"the function never tests `{name}` for sparsity", required=False, chain=chain)
        return
    ctx.ob(rule, f, key, not bad, f"{n} subscript(s), all on the dense representation" if not bad else
           f"`{unparse(bad[0])}` runs while `{name}` may still be a scipy.sparse matrix (the function itself tests issparse({name}) elsewhere): "
           "dia_matrix -- what iden(.., is_sparse=True) returns -- is not subscriptable", bad[0] if bad else None, chain=chain)


# ---------------------------------------------------------------------------------------------
def _parents(fnode):
    par = {}
    for p in ast.walk(fnode):
        for ch in ast.iter_child_nodes(p):
            par[id(ch)] = p
    return par


def r_roots_rounded(ctx, f: FunctionInfo, rule="R-KIND", chain=None):
    """An inferred local dimension `N ** (1 / k)` (or sqrt) is a float that may sit just below the integer (64 ** (1/3) ==
    3.9999999999999996); it must pass through round / np.round / np.rint before it is used as a dimension (int(), astype(int),
    integer product).  Every fractional power in the function must have a rounding call among its ancestors or be the
    operand of a comparison with its own rounding (the 'is it an integer' test)."""
    par = _parents(f.node)
    sites, bad = 0, []
    for n in walk_no_nested(f.node):
        is_root = False
        if isinstance(n, ast.BinOp) and isinstance(n.op, ast.Pow):
            e = n.right
            if isinstance(e, ast.BinOp) and isinstance(e.op, ast.Div) and isinstance(e.left, ast.Constant) and e.left.value == 1 and not (isinstance(e.right, ast.Constant) and e.right.value == 1):
                is_root = True
            if isinstance(e, ast.Constant) and isinstance(e.value, float) and 0 < e.value < 1:
                is_root = True
        if not is_root:
            continue
        # only roots of sizes (shape / len) are dimension inferences
        txt = unparse(n.left)
        if not any(k in txt for k in ("shape", "len(", "dims", "size")):
            continue
        sites += 1
        p = par.get(id(n))
        ok = False
        while p is not None and not isinstance(p, ast.stmt):
            if isinstance(p, ast.Call):
                nm = p.func.attr if isinstance(p.func, ast.Attribute) else p.func.id if isinstance(p.func, ast.Name) else ""
                if nm in ("round", "rint", "around"):
                    ok = True
                    break
            p = par.get(id(p))
        if not ok:
            bad.append(n)
    if sites:
        ctx.ob(rule, f, "inferred local dimensions (k-th roots of a size) are rounded before use", not bad,
               f"{sites} root(s), all inside round()" if not bad else
               f"`{unparse(bad[0])[:60]}` is used without rounding: a perfect power can come out one ulp low (64 ** (1/3) == 3.9999999999999996) and the later integer "
               "product of the dimensions then misses the size of the operand", bad[0] if bad else None, chain=chain)
    return sites


def r_subsystem_count(ctx, f: FunctionInfo, dim_name="dim", rule="R-SHAPE", chain=None):
    """When a function builds or accepts a two-row dimension table (rows = row / column dimensions, columns = subsystems), the
    number of subsystems is the number of COLUMNS: `len(dim)` of such a table counts its rows."""
    two_row = False
    for n in walk_no_nested(f.node):
        if isinstance(n, ast.Assign) and len(n.targets) == 1 and isinstance(n.targets[0], ast.Name) and n.targets[0].id == dim_name:
            v = n.value
            if isinstance(v, ast.Call) and v.args and isinstance(v.args[0], (ast.List, ast.Tuple)) and v.args[0].elts and all(isinstance(e, (ast.List, ast.Tuple)) for e in v.args[0].elts) \
                    and len(v.args[0].elts) == 2:
                two_row = True
        if isinstance(n, ast.Subscript) and isinstance(n.value, ast.Name) and n.value.id == dim_name and isinstance(n.slice, ast.Tuple) and len(n.slice.elts) == 2:
            two_row = True
    if not two_row:
        return 0
    from . import flow as flw

    bad, n_len = [], 0
    for n in walk_no_nested(f.node):
        if isinstance(n, ast.Call) and isinstance(n.func, ast.Name) and n.func.id == "len" and n.args and isinstance(n.args[0], ast.Name) and n.args[0].id == dim_name:
            n_len += 1
            # harmless when the table is known to be one-dimensional on this path (e.g. under `len(dim.shape) == 1`)
            hit = flw.find_stmt_of(f.node, n)
            conds = " & ".join(unparse(t) for t, pol in flw.conds(hit[1]) if pol) if hit else ""
            if "shape) == 1" in conds or "ndim == 1" in conds:
                continue
            # used as an extent to BUILD the table (np.ones((2, len(dim)))) on a path where dim is still 1-D: also harmless
            stmt = hit[0] if hit else None
            if isinstance(stmt, ast.Assign) and len(stmt.targets) == 1 and isinstance(stmt.targets[0], ast.Name) and stmt.targets[0].id == dim_name:
                continue
            bad.append(n)
    ctx.ob(rule, f, f"the subsystem count of the `{dim_name}` table is its number of columns", not bad,
           f"{n_len} len({dim_name}) use(s), none on a two-row table" if not bad else
           f"`{unparse(bad[0])}` counts the ROWS of a table that can have two rows (row / column dimensions): with separate row and column dimensions for n > 2 subsystems "
           "the count is 2 and valid subsystem indices are rejected or mis-permuted", bad[0] if bad else None, chain=chain)
    return 1


# ---------------------------------------------------------------------------------------------
_CLAMPS = {"clip", "max", "min", "maximum", "minimum", "abs", "absolute", "fmax", "fmin"}


def r_domain_clamped(ctx, f: FunctionInfo, rule="R-GUARD", chain=None):
    """A real square root of a DIFFERENCE of computed quantities (1 - F, a**2 - b), or an arccos / arcsin of a computed quantity, sits on
    the boundary of its domain exactly at the extreme cases the property singles out (identical states, pure states): rounding then
    pushes the argument outside and the result is nan.  Such an argument must pass through a clamp (np.clip / max / maximum / abs) --
    in the expression itself or in the definition of a local it reads.  Square roots of parameters only (sqrt(1 - gamma)) and of
    plain products are not boundary-prone here."""
    model = ctx.model
    params = {p.name for p in f.params}
    defs: dict[str, list] = {}
    for n in walk_no_nested(f.node):
        if isinstance(n, ast.Assign) and len(n.targets) == 1 and isinstance(n.targets[0], ast.Name):
            defs.setdefault(n.targets[0].id, []).append(n.value)

    def expand(e, depth=0):
        """the expression together with the definitions of the locals it reads (two levels)"""
        out = [e]
        if depth < 2:
            for x in ast.walk(e):
                if isinstance(x, ast.Name) and x.id in defs and x.id not in params:
                    for d in defs[x.id]:
                        out += expand(d, depth + 1)
        return out

    def computed(e):
        return any(isinstance(x, ast.Call) and not (isinstance(x.func, ast.Attribute) and x.func.attr in ("sqrt", "round", "real", "float", "array")) for x in ast.walk(e))

    # names holding computed eigenvalues of a Hermitian / PSD matrix: `w, v = eig(h)(X)`, `w = eigvalsh(X)`.  The zero eigenvalues of a
    # rank-deficient PSD matrix come out as -1e-17: their real square root is nan
    eig_names = set()
    for n in walk_no_nested(f.node):
        if isinstance(n, ast.Assign) and len(n.targets) == 1 and isinstance(n.value, ast.Call):
            k_ = model.resolve_call(f, n.value).key or ""
            if k_ in ("numpy.linalg.eig", "numpy.linalg.eigh", "scipy.linalg.eig", "scipy.linalg.eigh") and isinstance(n.targets[0], ast.Tuple) and n.targets[0].elts \
                    and isinstance(n.targets[0].elts[0], ast.Name):
                eig_names.add(n.targets[0].elts[0].id)
            if k_ in ("numpy.linalg.eigvalsh", "scipy.linalg.eigvalsh") and isinstance(n.targets[0], ast.Name):
                eig_names.add(n.targets[0].id)
    eig_bad = []

    sites, bad = 0, []
    for c in walk_no_nested(f.node):
        if not (isinstance(c, ast.Call) and c.args):
            continue
        k = model.resolve_call(f, c).key or ""
        if k not in ("numpy.sqrt", "math.sqrt", "numpy.arccos", "numpy.arcsin", "math.acos", "math.asin"):
            continue
        parts = expand(c.args[0])
        prone = False
        if k.endswith("sqrt") and isinstance(c.args[0], ast.Name) and c.args[0].id in eig_names:
            # np.sqrt applied directly to the eigenvalue vector (an element-wise clamp, abs or a complex cast would appear in the argument)
            sites += 1
            eig_bad.append(c)
            bad.append(c)
            continue
        if k.endswith("sqrt"):
            for p_ in parts:
                for x in ast.walk(p_):
                    if isinstance(x, ast.BinOp) and isinstance(x.op, ast.Sub) and (computed(x.left) or computed(x.right) or any(isinstance(y, ast.Name) and y.id in defs for y in ast.walk(x))):
                        # a difference whose operands come from computations (not only from parameters / constants)
                        names = {y.id for y in ast.walk(x) if isinstance(y, ast.Name)}
                        if computed(x) or (names - params):
                            prone = True
            # the determinant of a (possibly rank-deficient) positive semidefinite matrix: 0 up to rounding, of either sign
            if any(isinstance(x, ast.Call) and (model.resolve_call(f, x).key or "") in ("numpy.linalg.det", "scipy.linalg.det") for p_ in parts for x in ast.walk(p_)):
                prone = True
        else:
            prone = any(computed(p_) for p_ in parts)
        if not prone:
            continue
        sites += 1
        clamped = any(isinstance(x, ast.Call) and (getattr(x.func, "attr", getattr(x.func, "id", "")) in _CLAMPS) for p_ in parts for x in ast.walk(p_))
        if not clamped:
            bad.append(c)
    if sites:
        ctx.ob(rule, f, "boundary-prone sqrt / arccos arguments are clamped to their domain", not bad,
               f"{sites} site(s), each behind clip / max / abs" if not bad else
               (f"`{unparse(eig_bad[0])[:80]}` (line {eig_bad[0].lineno}): real square root of computed eigenvalues -- the zero eigenvalues of a rank-deficient positive semidefinite "
                "matrix come out as about -1e-17, and np.sqrt of those is nan (scipy.linalg.sqrtm / a clamp / a complex cast does not have this edge)") if eig_bad else
               f"`{unparse(bad[0])[:80]}`: the argument is a difference (or a computed quantity) that reaches the edge of the domain exactly for identical / pure inputs; "
               "rounding of a few ulp makes it negative (or > 1) and the result is nan", bad[0] if bad else None, chain=chain)
    return sites


# ---------------------------------------------------------------------------------------------
def r_hermitian_solver_operand(ctx, f: FunctionInfo, rule="R-PRED", chain=None):
    """np.linalg.eigh / eigvalsh / scipy.linalg.eigh read ONE triangle of their argument: they are only meaningful on Hermitian operands.
    A bare product X @ Y of two different operators (not of the forms A @ Dagger(A), Dagger(A) @ A, A @ H @ Dagger(A)) is not Hermitian
    in general -- e.g. rho @ rho_tilde in the concurrence formula has a real spectrum but is not a Hermitian matrix."""
    model = ctx.model
    from .norm import Normalizer as _N
    N = _N(model, f, inline=True)
    sites, bad = 0, None
    for c in walk_no_nested(f.node):
        if isinstance(c, ast.Call) and c.args and (model.resolve_call(f, c).key or "") in ("numpy.linalg.eigh", "numpy.linalg.eigvalsh", "scipy.linalg.eigh", "scipy.linalg.eigvalsh"):
            sites += 1
            t = N(c.args[0])
            if t[0] == "@":
                fs = list(t[1])
                sym = len(fs) >= 2 and all((fs[i] == ("dag", fs[-1 - i])) or (fs[-1 - i] == ("dag", fs[i])) or (i == len(fs) - 1 - i) for i in range(len(fs) // 2 + 1))
                if not sym:
                    bad = c
    if sites:
        ctx.ob(rule, f, "Hermitian eigen-solvers are applied to Hermitian operands (not to a bare product of two operators)", bad is None,
               f"{sites} call(s) on Hermitian-shaped operands" if bad is None else
               f"`{unparse(bad)[:80]}`: the operand is a product X @ Y that is not of the form A @ Dagger(A) / A @ H @ Dagger(A): it is not Hermitian in general, and eigh / eigvalsh then "
               "silently diagonalise the Hermitian matrix built from one triangle (wrong eigenvalues whenever X and Y do not commute)", bad, chain=chain)
    return sites


# ---------------------------------------------------------------------------------------------
def r_values_not_rounded(ctx, f: FunctionInfo, rule="R-ROUND", chain=None):
    """A constructor of a named state / standard matrix returns its amplitudes as computed.  Rounding to a fixed number of
    decimals (np.around(x, 4)) makes 1/sqrt(3) into 0.5774: the vector is no longer a unit vector (norm^2 = 1.00006) and the
    defining identities hold only to 1e-4.  Rounding *without* decimals is how dimensions are inferred and is not this rule's."""
    bad, sites = None, 0
    returned = set()
    for n in walk_no_nested(f.node):
        if isinstance(n, ast.Return) and n.value is not None:
            returned |= {x.id for x in ast.walk(n.value) if isinstance(x, ast.Name)}
    for n in walk_no_nested(f.node):
        if not isinstance(n, ast.Call):
            continue
        nm = n.func.attr if isinstance(n.func, ast.Attribute) else n.func.id if isinstance(n.func, ast.Name) else ""
        if nm not in ("around", "round", "round_"):
            continue
        sites += 1
        is_method = isinstance(n.func, ast.Attribute) and not (isinstance(n.func.value, ast.Name) and n.func.value.id in ("np", "numpy"))
        dec = [kw.value for kw in n.keywords if kw.arg in ("decimals", "ndigits")] + list(n.args[(0 if is_method else 1):(1 if is_method else 2)])
        if dec and not (isinstance(dec[0], ast.Constant) and dec[0].value in (0, None)):
            bad = bad or n
    key = "returned amplitudes / entries are not rounded to a fixed number of decimals"
    if bad is not None:
        ctx.ob(rule, f, key, False, f"`{unparse(bad)[:70]}` rounds values to {unparse(bad.args[-1] if bad.args else bad.keywords[0].value)} decimals: "
               "irrational amplitudes (1/sqrt(n)) are truncated, so the result is not normalised and its defining identities fail beyond that precision", bad, chain=chain)
    else:
        ctx.ob(rule, f, key, True, f"{sites} rounding call(s), none with a decimals argument", chain=chain)


# ---------------------------------------------------------------------------------------------
def r_dense_into_kron(ctx, f: FunctionInfo, rule="R-SPARSE", chain=None):
    """np.kron (and toqito's tensor(), which folds with np.kron) does not form the Kronecker product of scipy.sparse operands:
    it returns an object of the wrong shape without raising.  A value that may be sparse -- the result of a call whose
    `is_sparse` argument is not the literal False, or of a csr/csc/dia constructor -- must not reach such a call."""
    m = ctx.model
    og = origins(f)
    producers = []
    for n in walk_no_nested(f.node):
        if not isinstance(n, ast.Call):
            continue
        k = m.resolve_call(f, n).key or ""
        tail = k.rsplit(".", 1)[-1]
        if tail in ("csr_array", "csr_matrix", "csc_array", "csc_matrix", "dia_matrix", "dia_array", "coo_matrix", "coo_array", "lil_matrix") or k.startswith("scipy.sparse."):
            if tail not in ("issparse", "isspmatrix"):
                producers.append(n)
            continue
        callee = m.functions.get(k)
        if callee is None:
            continue
        try:
            b = m.bind(n, callee)
        except Exception:  # noqa: BLE001
            continue
        a = b.get("is_sparse")
        if isinstance(a, ast.AST) and not (isinstance(a, ast.Constant) and a.value is False):
            producers.append(n)
        elif a is not None and not isinstance(a, ast.AST):
            # the callee's own default
            dflt = next((p.default for p in callee.params if p.name == "is_sparse"), None)
            if isinstance(dflt, ast.Constant) and dflt.value is True:
                producers.append(n)
    # not producers after all: densified on the spot (`f(..., True).toarray()`), or an operand of a sum / difference (dense + sparse
    # is dense)
    par = _parents(f.node)
    keep = []
    for n in producers:
        p_ = par.get(id(n))
        if isinstance(p_, ast.Attribute) and p_.attr in ("toarray", "todense"):
            continue
        q_, dense_sum = p_, False
        while q_ is not None and not isinstance(q_, ast.stmt):
            if isinstance(q_, ast.BinOp) and isinstance(q_.op, (ast.Add, ast.Sub)):
                dense_sum = True
            q_ = par.get(id(q_))
        if not dense_sum:
            keep.append(n)
    producers = keep
    pid = {id(x) for x in producers}
    tainted = set()
    for n in walk_no_nested(f.node):
        if isinstance(n, ast.Assign) and any(id(x) in pid for x in ast.walk(n.value)):
            for t in n.targets:
                tainted |= {x.id for x in ast.walk(t) if isinstance(x, ast.Name)}
        if isinstance(n, ast.Call) and isinstance(n.func, ast.Attribute) and n.func.attr in ("append", "extend", "insert") and isinstance(n.func.value, ast.Name) \
                and any(id(x) in pid for a in n.args for x in ast.walk(a)):
            tainted.add(n.func.value.id)
    # a later densification of the same name (x = x.toarray()) clears nothing here: flow-insensitive, so only report when no
    # densifying call wraps the operand itself
    bad, sites = None, 0
    for n in walk_no_nested(f.node):
        if not isinstance(n, ast.Call):
            continue
        k = m.resolve_call(f, n).key or ""
        if not (k == "numpy.kron" or k.endswith("tensor.tensor")):
            continue
        sites += 1
        for a in list(n.args) + [kw.value for kw in n.keywords]:
            if isinstance(a, ast.Call) and isinstance(a.func, ast.Attribute) and a.func.attr in ("toarray", "todense"):
                continue
            direct = any(id(x) in pid for x in ast.walk(a))
            names = og.of(a) | {x.id for x in ast.walk(a) if isinstance(x, ast.Name)}
            if direct or names & tainted:
                bad = bad or (n, a)
    key = "no possibly-sparse value is handed to np.kron / tensor()"
    if bad is not None:
        n, a = bad
        ctx.ob(rule, f, key, False, f"`{unparse(n)[:60]}`: the operand `{unparse(a)[:40]}` may be a scipy.sparse array "
               f"(from `{unparse(producers[0])[:50]}`); np.kron does not build the Kronecker product of sparse operands and returns an array of the wrong shape", n, chain=chain)
    else:
        ctx.ob(rule, f, key, True, f"{sites} kron / tensor call(s), {len(producers)} possibly-sparse producer(s), none connected", chain=chain)


# ---------------------------------------------------------------------------------------------
_NPMATRIX_MAKERS = ("csc_matrix", "csr_matrix", "lil_matrix", "coo_matrix", "dia_matrix", "dok_matrix", "bsr_matrix", "matrix", "asmatrix", "mat", "bmat")


def r_no_npmatrix(ctx, f: FunctionInfo, rule="R-KIND", chain=None):
    """A function documented to return an ndarray must not return numpy.matrix: scipy's *_matrix classes turn `S + dense`,
    `S += dense` and `.todense()` into np.matrix, whose indexing keeps two dimensions (`m[0]` is 1 x n, reshape to more than two
    axes raises) -- partial_trace, is_trace_preserving etc. fail on it.  Flags such a maker whose value flows to a return
    without `.toarray()` / `np.asarray`."""
    m = ctx.model
    og = origins(f)
    makers = []
    for n in walk_no_nested(f.node):
        if isinstance(n, ast.Call):
            k = m.resolve_call(f, n).key or ""
            tail = k.rsplit(".", 1)[-1]
            if (k.startswith("scipy.sparse") and tail in _NPMATRIX_MAKERS) or k in ("numpy.matrix", "numpy.asmatrix", "numpy.mat", "numpy.bmat"):
                makers.append(n)
            elif isinstance(n.func, ast.Attribute) and n.func.attr == "todense":
                makers.append(n)
    tainted = set()
    mid = {id(x) for x in makers}
    for n in walk_no_nested(f.node):
        if isinstance(n, (ast.Assign, ast.AugAssign)) and any(id(x) in mid for x in ast.walk(n.value)):
            tg = n.targets if isinstance(n, ast.Assign) else [n.target]
            for t in tg:
                tainted |= {x.id for x in ast.walk(t) if isinstance(x, ast.Name)}
    bad = None
    for n in walk_no_nested(f.node):
        if isinstance(n, ast.Return) and n.value is not None:
            for e in (n.value.elts if isinstance(n.value, ast.Tuple) else [n.value]):
                while isinstance(e, ast.IfExp):
                    e = e.body
                if isinstance(e, ast.Call) and ((isinstance(e.func, ast.Attribute) and e.func.attr in ("toarray", "A")) or
                                                (m.resolve_call(f, e).key or "") in ("numpy.asarray", "numpy.array")):
                    continue
                names = {x.id for x in ast.walk(e) if isinstance(x, ast.Name)}
                if any(id(x) in mid for x in ast.walk(e)) or (names & tainted) or (og.of(e) & tainted and isinstance(e, ast.Name)):
                    bad = bad or (n, e)
    key = "returned arrays are ndarrays, never numpy.matrix (no scipy *_matrix / np.matrix value reaches a return)"
    if bad is not None:
        ctx.ob(rule, f, key, False, f"`{unparse(makers[0])[:50]}` makes a scipy sparse *matrix* / np.matrix; adding dense arrays to it yields numpy.matrix, which "
               f"`{unparse(bad[0])[:50]}` returns: 2-D-only semantics break partial_trace / is_trace_preserving on the result (\"shape too large to be a matrix\")", bad[0], chain=chain)
    else:
        ctx.ob(rule, f, key, True, f"{len(makers)} matrix-class maker(s), none reaches a return", chain=chain)


# ---------------------------------------------------------------------------------------------
def r_operand_preserved(ctx, f: FunctionInfo, pname: str, rule="R-COV", chain=None):
    """The operator a predicate / measure is asked about may be re-bound only to something that denotes the same operator up to a
    positive scalar: X / s, np.array(X) and friends, its Hermitian part (X + X^+)/2 (a no-op on the Hermitian operators the property
    quantifies over).  A combination of X with its bare transpose or bare conjugate -- (X + X.T)/2 -- is the entrywise real part of a
    Hermitian X: a different operator for every complex state, silently."""
    from .norm import Normalizer as _N, subterms as _sub
    N = _N(ctx.model, f, inline=False)
    X = ("n", pname)
    sites, bad, unk = 0, None, None
    for n in walk_no_nested(f.node):
        if isinstance(n, ast.Assign) and len(n.targets) == 1 and isinstance(n.targets[0], ast.Name) and n.targets[0].id == pname:
            t = N(n.value)
        elif isinstance(n, ast.AugAssign) and isinstance(n.target, ast.Name) and n.target.id == pname:
            t = N(ast.BinOp(left=ast.Name(id=pname, ctx=ast.Load()), op=n.op, right=n.value))
        else:
            continue
        if X not in list(_sub(t)) and t != X:
            continue  # re-bound to something else entirely (a default, a conversion of another value): not this rule's
        sites += 1
        ok = None
        core = t
        # strip positive scalings
        while True:
            if core[0] == "/" and core[1] != X and X in list(_sub(core[1])) and X not in [y for y in _sub(core[2]) if y == X and False]:
                core = core[1]
            elif core[0] == "/" and core[1] == X:
                core = X
            elif core[0] == "*" and sum(1 for y in core[1] if y == X or X in list(_sub(y))) == 1 and all(y[0] in ("c", "call", "n", "/", "**") for y in core[1] if not (y == X or X in list(_sub(y)))):
                core = next(y for y in core[1] if y == X or X in list(_sub(y)))
            else:
                break
        if core == X:
            ok = True
        elif core[0] == "call" and core[1] in ("numpy.array", "numpy.asarray", "numpy.asarray_chkfinite", "numpy.copy", "numpy.ascontiguousarray", "numpy.atleast_2d") and core[2] and core[2][0] == X:
            ok = True
        elif core[0] == "call" and isinstance(core[1], tuple) and core[1][0] == "attr" and core[1][1] == X and core[1][2] in ("copy", "astype", "toarray", "todense"):
            ok = True
        elif core[0] == "+" and len(core[1]) == 2 and set(core[1]) == {X, ("dag", X)}:
            ok = True
        elif core[0] == "+" and len(core[1]) == 2 and X in core[1] and (("T", X) in core[1] or ("conj", X) in core[1]):
            ok = False
        elif core in (("T", X), ("conj", X)):
            ok = False
        if ok is False:
            bad = bad or n
        elif ok is None:
            unk = unk or n
    key = f"`{pname}` is only re-bound to the same operator (scaling, conversion, Hermitian part)"
    if bad is not None:
        ctx.ob(rule, f, key, False, f"`{unparse(bad)[:70]}` combines `{pname}` with its bare transpose / conjugate: for a Hermitian operator that is its entrywise real part "
               "(X^T = conj X), so every complex input is replaced by a different, real operator before it is examined; the Hermitian part is (X + X.conj().T)/2", bad, chain=chain)
    elif unk is not None:
        ctx.ob(rule, f, key, None, f"`{unparse(unk)[:70]}`: not one of the recognised operator-preserving forms", unk, chain=chain, required=False)
    else:
        ctx.ob(rule, f, key, True, f"{sites} re-binding(s), all operator-preserving", chain=chain)


# ---------------------------------------------------------------------------------------------
def r_parallel_families(ctx, f: FunctionInfo, names, rule="R-ENUM", chain=None):
    """`states[k]` is prepared with probability `probs[k]`: the two lists are parallel.  Re-binding one of them to a *selection*
    (a filtered comprehension, a comprehension over a filtered index list, a slice, a sort) without re-binding the other with the
    same selection shifts every later joint index: p_k multiplies the wrong state."""
    names = [n for n in names if f.param(n) is not None]
    if len(names) < 2:
        return
    defs: dict[str, list] = {}
    for n in walk_no_nested(f.node):
        if isinstance(n, ast.Assign) and len(n.targets) == 1 and isinstance(n.targets[0], ast.Name):
            defs.setdefault(n.targets[0].id, []).append(n)

    def filtered_source(it, depth=0):
        """text of the selecting source if the iterable is (derived from) a filtered list, else None"""
        if isinstance(it, ast.Name) and depth < 2:
            for d in defs.get(it.id, []):
                v = d.value
                if isinstance(v, ast.ListComp) and any(g.ifs for g in v.generators):
                    return unparse(v)
                if isinstance(v, ast.Call) and getattr(v.func, "id", getattr(v.func, "attr", "")) in ("sorted", "argsort", "nonzero", "flatnonzero", "where", "filter"):
                    return unparse(v)
        if isinstance(it, ast.Call) and getattr(it.func, "id", getattr(it.func, "attr", "")) in ("sorted", "reversed", "filter", "argsort", "nonzero", "flatnonzero"):
            return unparse(it)
        if isinstance(it, (ast.ListComp, ast.GeneratorExp)) and any(g.ifs for g in it.generators):
            return unparse(it)
        return None

    sel: dict[str, list] = {n: [] for n in names}
    for nm in names:
        for d in defs.get(nm, []):
            v = d.value
            src = None
            if isinstance(v, ast.ListComp):
                if any(g.ifs for g in v.generators):
                    src = "if " + " and ".join(unparse(c) for g in v.generators for c in g.ifs)
                else:
                    for g in v.generators:
                        fs = filtered_source(g.iter)
                        if fs:
                            src = fs
            elif isinstance(v, ast.Subscript) and isinstance(v.value, ast.Name) and v.value.id == nm and isinstance(v.slice, ast.Slice) and \
                    not (v.slice.lower is None and v.slice.upper is None and v.slice.step is None):
                src = f"[{unparse(v.slice)}]"
            elif isinstance(v, ast.Call) and getattr(v.func, "id", getattr(v.func, "attr", "")) in ("sorted", "reversed", "filter") and nm in unparse(v):
                src = unparse(v.func)
            if src and nm in {x.id for x in ast.walk(v) if isinstance(x, ast.Name)}:
                sel[nm].append((d, src))
    bad = None
    for nm in names:
        for d, src in sel[nm]:
            for other in names:
                if other != nm and not any(s2 == src for _, s2 in sel[other]):
                    bad = bad or (nm, other, d, src)
    key = f"parallel lists {names} are only re-bound together (same selection on each)"
    if bad:
        nm, other, d, src = bad
        ctx.ob(rule, f, key, False, f"`{unparse(d)[:70]}` keeps only the members of `{nm}` selected by `{src[:50]}` while `{other}` keeps all of its entries: "
               f"`{nm}[k]` and `{other}[k]` no longer belong to the same member (every entry after the first dropped one is paired with the wrong weight)", d, chain=chain)
    else:
        ctx.ob(rule, f, key, True, f"{sum(len(v) for v in sel.values())} selecting re-binding(s), consistent", chain=chain)


# ---------------------------------------------------------------------------------------------
def r_chunk_tail(ctx, f: FunctionInfo, rule="R-ENUM", chain=None):
    """An index range [0, N) handed out in blocks [k*B, (k+1)*B) for k in range(N // B) loses the last N % B indices: the block count
    has to be the ceiling ((N + B - 1) // B, -(-N // B), ceil(N / B)) and the last block clipped, or the tail handled separately."""
    sites, bad = 0, None
    for n in walk_no_nested(f.node):
        gens = []
        if isinstance(n, (ast.ListComp, ast.GeneratorExp, ast.SetComp)):
            gens = [(g.target, g.iter, n) for g in n.generators]
        elif isinstance(n, ast.For):
            gens = [(n.target, n.iter, n)]
        for tgt, it, body in gens:
            if not (isinstance(tgt, ast.Name) and isinstance(it, ast.Call) and isinstance(it.func, ast.Name) and it.func.id == "range" and len(it.args) == 1):
                continue
            cnt = it.args[0]
            if not (isinstance(cnt, ast.BinOp) and isinstance(cnt.op, ast.FloorDiv)):
                continue
            total, blk = cnt.left, cnt.right
            # ceiling idioms: (N + B - 1) // B ; handled by the shape of `total`
            if isinstance(total, ast.BinOp) and isinstance(total.op, (ast.Add, ast.Sub)) and unparse(blk) in unparse(total):
                continue
            if isinstance(total, ast.UnaryOp):
                continue
            bt = unparse(blk)
            k = tgt.id
            uses = [x for x in ast.walk(body) if isinstance(x, ast.BinOp) and isinstance(x.op, ast.Mult) and
                    ((unparse(x.left) == k and unparse(x.right) == bt) or (unparse(x.right) == k and unparse(x.left) == bt))]
            upper = [x for x in ast.walk(body) if isinstance(x, ast.BinOp) and isinstance(x.op, ast.Mult) and
                     (unparse(x.left).replace(" ", "") in (f"({k}+1)", f"{k}+1", f"(1+{k})") or unparse(x.right).replace(" ", "") in (f"({k}+1)", f"{k}+1", f"(1+{k})"))]
            if not (uses and upper):
                continue
            sites += 1
            # a separate treatment of the tail somewhere in the function: N % B, or range(.., N) starting at (N // B) * B
            tail = any(isinstance(x, ast.BinOp) and isinstance(x.op, ast.Mod) and unparse(x.right) == bt for x in ast.walk(f.node))
            if not tail:
                bad = bad or (n, unparse(total), bt)
    key = "block-wise enumeration covers the last partial block"
    if bad:
        ctx.ob(rule, f, key, False, f"blocks [k*{bad[2]}, (k+1)*{bad[2]}) for k in range({bad[1]} // {bad[2]}) stop at {bad[2]}*({bad[1]} // {bad[2]}): the last {bad[1]} % {bad[2]} "
               "indices are never visited (a maximum over the enumeration can only come out too small)", bad[0], chain=chain)
    elif sites:
        ctx.ob(rule, f, key, True, f"{sites} block-wise enumeration(s), tail handled", chain=chain)
    return sites


# ---------------------------------------------------------------------------------------------
_ONESHOT = {"combinations", "combinations_with_replacement", "permutations", "product", "map", "filter", "zip", "iter", "enumerate", "reversed", "chain",
            "islice", "starmap", "accumulate", "groupby", "zip_longest", "pairwise"}


def r_oneshot_iterator(ctx, f: FunctionInfo, rule="R-ENUM", chain=None):
    """A one-shot iterator (itertools.combinations(..), map(..), zip(..), a generator expression) bound to a name is empty after its first
    traversal.  Bound outside a loop and traversed inside it (or traversed twice), it yields its items for the first outer iteration
    only: every later iteration of the enclosing loop silently skips the inner traversal."""
    par = _parents(f.node)

    def oneshot(e):
        if isinstance(e, ast.GeneratorExp):
            return True
        if isinstance(e, ast.IfExp):
            return oneshot(e.body) or oneshot(e.orelse)
        if isinstance(e, ast.Call):
            nm = e.func.attr if isinstance(e.func, ast.Attribute) else e.func.id if isinstance(e.func, ast.Name) else ""
            return nm in _ONESHOT
        return False

    def loops_of(n):
        out = []
        p = par.get(id(n))
        while p is not None and p is not f.node:
            if isinstance(p, (ast.For, ast.While, ast.ListComp, ast.GeneratorExp, ast.SetComp, ast.DictComp)):
                out.append(p)
            p = par.get(id(p))
        return out

    sites, bad = 0, None
    for a in walk_no_nested(f.node):
        if not (isinstance(a, ast.Assign) and len(a.targets) == 1 and isinstance(a.targets[0], ast.Name) and oneshot(a.value)):
            continue
        nm = a.targets[0].id
        sites += 1
        a_loops = {id(x) for x in loops_of(a)}
        trav = []
        for n in walk_no_nested(f.node):
            it = None
            if isinstance(n, ast.For):
                it = n.iter
            elif isinstance(n, ast.comprehension):
                it = n.iter
            if isinstance(it, ast.Name) and it.id == nm and getattr(n, "lineno", getattr(it, "lineno", 0)) >= a.lineno:
                trav.append((n, it))
        for n, it in trav:
            # loops that enclose the traversal but not the binding: the traversal is repeated, the binding is not
            outer = [lp for lp in loops_of(it) if id(lp) not in a_loops and lp is not n]
            # (a `for` statement is its own loop: exclude it; for a comprehension generator the comprehension node encloses `it`)
            if isinstance(n, ast.comprehension):
                comp = par.get(id(n))
                # the first generator's iterable is evaluated once per evaluation of the comprehension
                outer = [lp for lp in outer if lp is not comp or (comp.generators and comp.generators[0] is not n)]
            if outer:
                bad = bad or (a, it, outer[0])
        if len(trav) >= 2 and bad is None:
            # two traversals of the same one-shot iterator on one path (not in exclusive branches): the second is empty
            t1, t2 = trav[0][0], trav[1][0]
            # only when both are statements of one block (exclusive if-arms each traverse it once)
            if isinstance(t1, ast.For) and isinstance(t2, ast.For) and par.get(id(t1)) is par.get(id(t2)) and not isinstance(par.get(id(t1)), ast.If):
                bad = bad or (a, trav[1][1], None)
    key = "no one-shot iterator is traversed more than once"
    if bad:
        a, it, lp = bad
        ctx.ob(rule, f, key, False, f"`{unparse(a)[:70]}` binds a one-shot iterator; `for .. in {it.id}` (line {it.lineno}) "
               + (f"runs inside the loop at line {getattr(lp, 'lineno', '?')} that does not re-create it: after the first outer iteration it is exhausted and the inner loop body is skipped"
                  if lp is not None else "is its second traversal: it is already exhausted there"), it, chain=chain)
    elif sites:
        ctx.ob(rule, f, key, True, f"{sites} one-shot iterator binding(s), each traversed once", chain=chain)
    return sites


# ---------------------------------------------------------------------------------------------
def r_family_preserved(ctx, f: FunctionInfo, name: str, what="member", rule="R-ENUM", chain=None):
    """The list parameter `name` is a family whose members are addressed by position afterwards (Kraus operator i, block (i, j) of the
    complement, state k with prior k).  Re-binding it to a filtered comprehension / a slice drops members and renumbers the rest."""
    if f.param(name) is None:
        return
    bad, sites = None, 0
    for n in walk_no_nested(f.node):
        if isinstance(n, ast.Assign) and len(n.targets) == 1 and isinstance(n.targets[0], ast.Name) and n.targets[0].id == name:
            sites += 1
            v = n.value
            if isinstance(v, ast.ListComp) and any(g.ifs for g in v.generators) and name in {x.id for x in ast.walk(v) if isinstance(x, ast.Name)}:
                bad = bad or (n, "if " + " and ".join(unparse(c) for g in v.generators for c in g.ifs))
            elif isinstance(v, ast.Subscript) and isinstance(v.value, ast.Name) and v.value.id == name and isinstance(v.slice, ast.Slice) and \
                    not (v.slice.lower is None and v.slice.upper is None and v.slice.step is None):
                bad = bad or (n, f"[{unparse(v.slice)}]")
            elif isinstance(v, ast.Call) and getattr(v.func, "id", "") == "filter":
                bad = bad or (n, "filter(..)")
    key = f"every {what} of `{name}` is kept (no filtering re-binding)"
    if bad:
        ctx.ob(rule, f, key, False, f"`{unparse(bad[0])[:70]}` keeps only the {what}s selected by `{bad[1][:40]}`: the remaining ones are renumbered, so anything indexed by the "
               f"{what}'s position (output blocks (i, j), paired weights) no longer refers to the caller's {what} i", bad[0], chain=chain)
    else:
        ctx.ob(rule, f, key, True, f"{sites} re-binding(s), none selective", chain=chain)


# ---------------------------------------------------------------------------------------------
def r_index_array_dtype(ctx, f: FunctionInfo, pname: str, rule="R-KIND", chain=None):
    """`np.array([])` is a float64 array and cannot index anything.  A list parameter that names a SET of positions (possibly empty) and
    is later used as an index array has to be converted with an integer dtype."""
    if f.param(pname) is None:
        return
    conv = [n for n in walk_no_nested(f.node) if isinstance(n, ast.Assign) and len(n.targets) == 1 and isinstance(n.targets[0], ast.Name) and n.targets[0].id == pname
            and isinstance(n.value, ast.Call) and unparse(n.value.func) in ("np.array", "numpy.array", "np.asarray", "numpy.asarray") and n.value.args
            and isinstance(n.value.args[0], ast.Name) and n.value.args[0].id == pname]
    if not conv:
        # in-line form: X[.., np.array(p) - 1] -- the conversion sits inside the subscript
        for x in walk_no_nested(f.node):
            if not isinstance(x, ast.Subscript):
                continue
            for c in ast.walk(x.slice):
                if isinstance(c, ast.Call) and unparse(c.func) in ("np.array", "numpy.array", "np.asarray", "numpy.asarray") and c.args and isinstance(c.args[0], ast.Name) and c.args[0].id == pname:
                    typed = any(kw.arg == "dtype" and "int" in unparse(kw.value) for kw in c.keywords) or (len(c.args) > 1 and "int" in unparse(c.args[1]))
                    ctx.ob(rule, f, f"the index array made from the list `{pname}` has an integer dtype (an empty list included)", typed,
                           f"`{unparse(c)[:60]}`" if typed else
                           f"`{unparse(c)[:60]}` gives a float64 array for the empty list: the empty permutation / set of positions then fails as an index "
                           "(IndexError: arrays used as indices must be of integer type)", c, chain=chain)
                    return
        return
    n = conv[0]
    # used as an index array AFTER the conversion (x[.., p] with p itself an element of the subscript, not p[0])
    used = any(isinstance(x, ast.Subscript) and getattr(x, "lineno", 0) > n.lineno and
               any(isinstance(y, ast.Name) and y.id == pname for y in ([x.slice] + (list(x.slice.elts) if isinstance(x.slice, ast.Tuple) else [])))
               for x in walk_no_nested(f.node))
    if not used:
        return
    typed = any(kw.arg == "dtype" and "int" in unparse(kw.value) for kw in n.value.keywords) or (len(n.value.args) > 1 and "int" in unparse(n.value.args[1]))
    later = any(isinstance(x, ast.Call) and isinstance(x.func, ast.Attribute) and x.func.attr == "astype" and isinstance(x.func.value, ast.Name) and x.func.value.id == pname
                and x.args and "int" in unparse(x.args[0]) for x in walk_no_nested(f.node))
    ok = typed or later
    ctx.ob(rule, f, f"the index array made from the list `{pname}` has an integer dtype (an empty list included)", ok,
           f"`{unparse(n)[:60]}`" if ok else
           f"`{unparse(n)[:60]}` gives a float64 array for the empty list: the empty set of positions then fails as an index "
           "(IndexError: arrays used as indices must be of integer type) instead of leaving the operand unchanged", n, chain=chain)


# ---------------------------------------------------------------------------------------------
def r_scalar_dim_bipartite(ctx, f: FunctionInfo, rule="R-KIND", chain=None):
    """A scalar `dim` d means the bipartition [d, N/d] -- in every function of the library, and in their documentation.  In a branch that is
    taken for a scalar dim (isinstance(dim, int|float), len(dim) == 1, max(dim.shape) == 1), `dim` may only be re-bound to that pair (or to
    a one-element array holding the scalar); a re-binding to k equal factors ([d] * k, np.full(k, d), np.repeat) gives the same call a
    different meaning whenever N happens to be a power of d."""
    def scalar_test(t):
        u = unparse(t).replace(" ", "")
        for x in ast.walk(t):
            if isinstance(x, ast.Call) and isinstance(x.func, ast.Name) and x.func.id == "isinstance" and len(x.args) == 2 and unparse(x.args[0]) == "dim":
                ts = x.args[1].elts if isinstance(x.args[1], ast.Tuple) else [x.args[1]]
                if any(unparse(y) in ("int", "float", "np.integer", "numbers.Integral", "numbers.Real", "np.floating") for y in ts):
                    return True
        return ("len(dim)==1" in u or "max(dim.shape)==1" in u or "max(dim.shape))==1" in u or "len(dim))==1" in u or "dim.size==1" in u)
    bad, sites = None, 0
    # only functions that expand the scalar against the size of an operand ([dim, N/dim]) are of this kind; permutation_operator /
    # swap_operator have no operand and document the scalar as the common local dimension of all subsystems
    if not scalar_dim_expansions(f):
        return 0
    for n in walk_no_nested(f.node):
        if not (isinstance(n, ast.If) and scalar_test(n.test)):
            continue
        for st in ast.walk(ast.Module(body=n.body, type_ignores=[])):
            if isinstance(st, ast.Assign) and len(st.targets) == 1 and isinstance(st.targets[0], ast.Name) and st.targets[0].id == "dim":
                sites += 1
                v = st.value
                while isinstance(v, ast.Call) and unparse(v.func) in ("np.array", "numpy.array", "np.asarray", "np.int_", "list") and v.args:
                    v = v.args[0]
                if isinstance(v, (ast.List, ast.Tuple)):
                    rows = v.elts if not all(isinstance(x, (ast.List, ast.Tuple)) for x in v.elts) else v.elts[0].elts
                    if len(rows) > 2:
                        bad = bad or st
                elif isinstance(v, ast.Call) and unparse(v.func) in ("np.full", "np.repeat", "np.tile", "np.ones", "numpy.full", "numpy.repeat", "numpy.tile"):
                    bad = bad or st
                elif isinstance(v, ast.BinOp) and isinstance(v.op, ast.Mult) and (isinstance(v.left, ast.List) or isinstance(v.right, ast.List)):
                    bad = bad or st
    key = "a scalar `dim` always means the bipartition [dim, N/dim]"
    if bad is not None:
        ctx.ob(rule, f, key, False, f"`{unparse(bad)[:70]}` (line {bad.lineno}) turns a scalar dim into several equal factors: `f(X, sys, d)` on an operator of size d^k, k > 2, now acts on "
               "k subsystems of dimension d instead of on [d, N/d] -- a different subsystem is transposed / traced for the same call", bad, chain=chain)
    elif sites:
        ctx.ob(rule, f, key, True, f"{sites} re-binding(s) of `dim` in scalar branches, all pairs", chain=chain)
    return sites


# ---------------------------------------------------------------------------------------------
def r_default_dim_table(ctx, f: FunctionInfo, rule="R-KIND", chain=None):
    """`dim` omitted: two subsystems of equal size.  Written as a two-row table it is [[sqrt(rows), sqrt(rows)], [sqrt(cols), sqrt(cols)]]:
    the first ROW holds the row dimensions of both subsystems, the second the column dimensions.  Any other arrangement of the two
    square roots describes a different factorisation as soon as the operand is rectangular."""
    from .norm import Normalizer as _N
    N = _N(ctx.model, f, inline=False)
    n_sites = 0
    for n in walk_no_nested(f.node):
        if not (isinstance(n, ast.If) and unparse(n.test).replace(" ", "") in ("dimisNone", "Noneisdim")):
            continue
        for st in n.body:
            if not (isinstance(st, ast.Assign) and isinstance(st.targets[0], ast.Name) and st.targets[0].id == "dim"):
                continue
            t = N(st.value)
            if not (t[0] == "call" and t[1] == "numpy.array" and t[2] and t[2][0][0] == "list" and len(t[2][0]) == 3 and all(r[0] == "list" and len(r) == 3 for r in t[2][0][1:])):
                # a SCALAR default (one square root for rows and columns alike) in a function that otherwise keeps separate row and column
                # dimensions: the scalar branch then divides both totals by the same first dimension -- wrong for rectangular operands
                scalar_like = (t[0] == "call" and t[1] in ("builtins.int", "builtins.max", "builtins.min", "builtins.round", "numpy.max", "numpy.min", "numpy.round")) or \
                    (t[0] == "sub" and t[2][0] == "c")
                rowcol = [x for x in scalar_dim_expansions(f) if isinstance(x[1], tuple) and x[1] and x[1][0] == "rowcol"]
                if scalar_like and rowcol and "sqrt" in " ".join(unparse(d.value) for d in walk_no_nested(f.node) if isinstance(d, ast.Assign) and
                                                                isinstance(d.targets[0], ast.Name) and d.targets[0].id in {y.id for y in ast.walk(st.value) if isinstance(y, ast.Name)}):
                    n_sites += 1
                    ctx.ob(rule, f, "omitted dim: rows split as (sqrt r, sqrt r), columns as (sqrt c, sqrt c)", False,
                           f"`{unparse(st)[:70]}` makes the default a single number: the scalar branch then uses it as the first dimension of BOTH the rows and the columns, so a "
                           "rectangular operand (4 x 16) is split as rows (4, 1) and columns (4, 4) instead of (2, 2) and (4, 4)", st, chain=chain)
                continue
            rows = [tuple(r[1:]) for r in t[2][0][1:]]
            names = {x[1][1] for r in rows for x in r if x[0] == "sub" and x[1][0] == "n" and x[2][0] == "c"}
            if len(names) != 1 or not all(x[0] == "sub" and x[2][0] == "c" for r in rows for x in r):
                continue
            rd = next(iter(names))
            # rd must be the rounded square roots of the operand's (rows, cols)
            dfs = [d for d in walk_no_nested(f.node) if isinstance(d, ast.Assign) and isinstance(d.targets[0], ast.Name) and d.targets[0].id == rd]
            if not (dfs and "sqrt" in unparse(dfs[-1].value)):
                continue
            n_sites += 1
            R0, R1 = ("sub", ("n", rd), ("c", 0)), ("sub", ("n", rd), ("c", 1))
            ok = rows == [(R0, R0), (R1, R1)]
            ctx.ob(rule, f, "omitted dim: rows split as (sqrt r, sqrt r), columns as (sqrt c, sqrt c)", ok,
                   "[[sqrt(rows), sqrt(rows)], [sqrt(cols), sqrt(cols)]]" if ok else
                   f"default table `{unparse(st.value)[:80]}`: the first row must hold the two row dimensions (both sqrt(#rows)) and the second the two column dimensions; "
                   "for a rectangular operand this table has the wrong products", st, chain=chain)
    return n_sites


# ---------------------------------------------------------------------------------------------
def r_index_label_layout(ctx, f: FunctionInfo, rule="R-LAYOUT", chain=None):
    """A subsystem permutation computed on an array of index labels:  L = arange(N).reshape(dims, order=O1);  L.transpose(axes).ravel(order=O2).
    toqito's Kronecker convention is row-major over the subsystems, i.e. order='C' with axes = perm, or order='F' (with reversed dims) and the
    reversal-conjugate axes (n-1) - perm[::-1].  order='F' with the plain perm permutes the MIRRORED subsystems; O1 != O2 scrambles the labels."""
    sites = 0
    for n in walk_no_nested(f.node):
        if not (isinstance(n, ast.Assign) and len(n.targets) == 1 and isinstance(n.targets[0], ast.Name) and isinstance(n.value, ast.Call)):
            continue
        v = n.value
        if not (isinstance(v.func, ast.Attribute) and v.func.attr == "reshape" and isinstance(v.func.value, ast.Call) and unparse(v.func.value.func) in ("np.arange", "numpy.arange")):
            continue
        lab = n.targets[0].id
        o1 = next((kw.value.value for kw in v.keywords if kw.arg == "order" and isinstance(kw.value, ast.Constant)), "C")
        for c in walk_no_nested(f.node):
            if not (isinstance(c, ast.Call) and isinstance(c.func, ast.Attribute) and c.func.attr in ("ravel", "flatten", "reshape") and isinstance(c.func.value, ast.Call)
                    and isinstance(c.func.value.func, ast.Attribute) and c.func.value.func.attr == "transpose" and isinstance(c.func.value.func.value, ast.Name)
                    and c.func.value.func.value.id == lab):
                continue
            sites += 1
            o2 = next((kw.value.value for kw in c.keywords if kw.arg == "order" and isinstance(kw.value, ast.Constant)), "C")
            ax = c.func.value.args[0] if c.func.value.args else None
            # resolve a local
            srcs = [ax]
            if isinstance(ax, ast.Name):
                srcs = [d.value for d in walk_no_nested(f.node) if isinstance(d, ast.Assign) and isinstance(d.targets[0], ast.Name) and d.targets[0].id == ax.id] or [ax]
            txt = " ".join(unparse(x) for x in srcs if x is not None)
            conj = "[::-1]" in txt and "-" in txt
            uses_perm = "perm" in txt
            if o1 != o2:
                ok, why = False, f"labels are laid out with order='{o1}' and read back with order='{o2}'"
            elif not uses_perm:
                ok, why = None, f"axes `{txt[:50]}` do not mention perm"
            elif o1 == "C":
                ok, why = (not conj), ("order='C' with axes = perm" if not conj else "order='C' with reversal-conjugated axes: the mirrored subsystems are permuted")
            else:
                ok, why = conj, ("order='F' with axes (n-1) - perm[::-1]" if conj else
                                 f"order='F' labels are transposed with `{txt[:50]}` as if they were row-major: subsystem k of the F-ordered labels is party n-1-k, so the "
                                 "operator permutes the mirrored parties (it is still a permutation matrix, and agrees with the right one for two parties and mirror-symmetric perms)")
            ctx.ob(rule, f, "index-label permutation follows the row-major Kronecker convention", ok, why, c, chain=chain, required=ok is not None)
    return sites


# ---------------------------------------------------------------------------------------------
def r_count_after_expansion(ctx, f: FunctionInfo, rule="R-KIND", chain=None):
    """The number of subsystems is only known once a scalar `dim` has been expanded to [dim, N/dim] (`num_sys = 2` inside that branch).  A value
    computed from the provisional count before the expansion (sys % num_sys, range(num_sys), ...) is wrong for the scalar form: with
    num_sys == 1 every subsystem index collapses to 0."""
    fix = None
    for n in walk_no_nested(f.node):
        if isinstance(n, ast.If):
            for st in ast.walk(ast.Module(body=n.body, type_ignores=[])):
                if isinstance(st, ast.Assign) and len(st.targets) == 1 and isinstance(st.targets[0], ast.Name) and st.targets[0].id == "num_sys" \
                        and isinstance(st.value, ast.Constant) and st.value.value == 2:
                    fix = n
    if fix is None:
        return 0
    early = [x for x in walk_no_nested(f.node) if isinstance(x, ast.Name) and x.id == "num_sys" and isinstance(x.ctx, ast.Load) and x.lineno < fix.lineno]
    # uses inside the test of the expanding `if` itself are the recognition of the scalar form
    early = [x for x in early if not any(y is x for y in ast.walk(fix.test))]
    ctx.ob(rule, f, "the subsystem count is used only after a scalar dim has been expanded", not early,
           "no use of `num_sys` ahead of the expansion" if not early else
           f"`num_sys` is read at line {early[0].lineno}, before the scalar-dim branch (line {fix.lineno}) sets it to 2: for `dim` given as a single number it is still 1 there, "
           "so anything derived from it (subsystem indices taken modulo the count, ranges over the subsystems) is computed for ONE subsystem", early[0] if early else None, chain=chain)
    return 1


# ---------------------------------------------------------------------------------------------
def r_guard_not_preempted(ctx, f: FunctionInfo, rule="R-GUARD", chain=None):
    """A raising guard `isclose(sum(p), 1)` (or `sum(p) != 1`) tests the CALLER's weights.  A statement that normalises `p` (p /= sum(p),
    p = p / sum(p)) on the way to the guard makes the test vacuous: every vector of the right length is accepted.  A normalisation is only
    legitimate in a block that has just re-bound `p` to values the function generated itself (p = np.random.rand(..); p /= p.sum())."""
    par = _parents(f.node)
    guards = []
    for n in walk_no_nested(f.node):
        if isinstance(n, ast.If) and any(isinstance(x, ast.Raise) for x in n.body):
            for c in ast.walk(n.test):
                if isinstance(c, ast.Call) and getattr(c.func, "attr", getattr(c.func, "id", "")) in ("isclose", "allclose") and c.args:
                    s = c.args[0]
                    if isinstance(s, ast.Call) and getattr(s.func, "attr", getattr(s.func, "id", "")) == "sum":
                        who = s.args[0] if s.args else getattr(s.func, "value", None)
                        if isinstance(who, ast.Name):
                            guards.append((n, who.id))
    n_sites = 0
    for g, p in guards:
        n_sites += 1
        bad = None
        for st in walk_no_nested(f.node):
            if getattr(st, "lineno", 10**9) >= g.lineno:
                continue
            val = None
            if isinstance(st, ast.AugAssign) and isinstance(st.op, ast.Div) and isinstance(st.target, ast.Name) and st.target.id == p:
                val = st.value
            elif isinstance(st, ast.Assign) and len(st.targets) == 1 and isinstance(st.targets[0], ast.Name) and st.targets[0].id == p and isinstance(st.value, ast.BinOp) \
                    and isinstance(st.value.op, ast.Div) and any(isinstance(x, ast.Name) and x.id == p for x in ast.walk(st.value.left)):
                val = st.value.right
            if val is None:
                continue
            if not any(isinstance(x, ast.Call) and getattr(x.func, "attr", getattr(x.func, "id", "")) in ("sum", "norm") for x in ast.walk(val)):
                continue
            # the block holding the normalisation: was `p` re-bound there, earlier, to a value that does not come from `p`?
            blk = par.get(id(st))
            body = None
            for fld in ("body", "orelse", "finalbody"):
                if isinstance(getattr(blk, fld, None), list) and any(x is st for x in getattr(blk, fld)):
                    body = getattr(blk, fld)
            own = False
            for x in (body or []):
                if x is st:
                    break
                if isinstance(x, ast.Assign) and any(isinstance(t, ast.Name) and t.id == p for t in x.targets) and isinstance(blk, ast.If) \
                        and not any(isinstance(y, ast.Name) and y.id == p and isinstance(y.ctx, ast.Load) for y in ast.walk(x.value) if not _is_size_use(x.value, y)):
                    own = True
            if not own:
                bad = st
                break
        ctx.ob(rule, f, f"the sum-to-one guard tests the caller's `{p}` (no normalisation ahead of it)", bad is None,
               "only freshly generated weights are normalised" if bad is None else
               f"`{unparse(bad)[:60]}` (line {bad.lineno}) rescales the caller's `{p}` before the guard at line {g.lineno}: after it the sum IS 1, so vectors with the wrong "
               "total (and all-negative ones, whose signs flip) are accepted instead of raising", bad, chain=chain)
    return n_sites


def _is_size_use(expr, name_node):
    """`name_node` occurs in `expr` only as an exponent / size argument (np.random.rand(4 ** q)): the new value does not carry the old one"""
    par = {}
    for p in ast.walk(expr):
        for ch in ast.iter_child_nodes(p):
            par[id(ch)] = p
    p = par.get(id(name_node))
    while p is not None:
        if isinstance(p, ast.Call) and getattr(p.func, "attr", getattr(p.func, "id", "")) in ("rand", "random", "random_sample", "uniform", "dirichlet", "ones", "full", "zeros"):
            return True
        p = par.get(id(p))
    return False


# ---------------------------------------------------------------------------------------------
def r_stale_length(ctx, f: FunctionInfo, rule="R-ENUM", chain=None):
    """L = len(V) taken BEFORE V is zero-padded (V = np.pad(V, ..)) is the length of the unpadded vector.  A loop `for k in range(L)` after
    the padding stops short of the padded tail: whatever the loop compares or accumulates never sees the other operand's extra entries."""
    lens = {}
    for n in walk_no_nested(f.node):
        if isinstance(n, ast.Assign) and len(n.targets) == 1 and isinstance(n.targets[0], ast.Name) and isinstance(n.value, ast.Call) and getattr(n.value.func, "id", "") == "len" \
                and n.value.args and isinstance(n.value.args[0], ast.Name):
            lens[n.targets[0].id] = (n.value.args[0].id, n.lineno)
    pads = {}
    for n in walk_no_nested(f.node):
        if isinstance(n, ast.Assign) and len(n.targets) == 1 and isinstance(n.targets[0], ast.Name) and isinstance(n.value, ast.Call) \
                and getattr(n.value.func, "attr", "") in ("pad", "append", "concatenate", "hstack") and any(isinstance(x, ast.Name) and x.id == n.targets[0].id for x in ast.walk(n.value)):
            pads.setdefault(n.targets[0].id, []).append(n.lineno)
    if not pads or not lens:
        return 0
    bad, sites = None, 0
    for n in walk_no_nested(f.node):
        if not isinstance(n, ast.For):
            continue
        it = n.iter
        if isinstance(it, ast.Call) and getattr(it.func, "id", "") == "range" and len(it.args) == 1 and isinstance(it.args[0], ast.Name) and it.args[0].id in lens:
            v, l0 = lens[it.args[0].id]
            indexed = {x.value.id for x in ast.walk(n) if isinstance(x, ast.Subscript) and isinstance(x.value, ast.Name)}
            if v in pads and any(l0 < pl < n.lineno for pl in pads[v]) and (indexed & set(pads)):
                sites += 1
                bad = bad or (n, it.args[0].id, v)
        elif any(isinstance(x, ast.Name) and x.id in pads for x in ast.walk(it)) and n.lineno > min(min(v) for v in pads.values()):
            sites += 1
    if sites:
        ctx.ob(rule, f, "loops after the zero-padding run over the padded length", bad is None,
               f"{sites} loop(s) take their length when they start" if bad is None else
               f"`for .. in range({bad[1]})` (line {bad[0].lineno}): `{bad[1]} = len({bad[2]})` was taken before `{bad[2]}` was padded, so when `{bad[2]}` is the shorter operand the "
               "entries of the other one beyond that length are never visited", bad[0] if bad else None, chain=chain)
    return sites


# ---------------------------------------------------------------------------------------------
# exits confirmed by reading to be independent of the option (one line of reason each)
_OPTION_FREE_EXITS = {
    ("symmetric_projection", "partial"): ("np.eye(dim)", "p = 1: the projector is the identity, which is also its own isometry form"),
    ("antisymmetric_projection", "partial"): ("np.eye(dim)", "p = 1: the projector is the identity, which is also its own isometry form"),
    ("permute_systems", "inv_perm"): ("np.array(input_mat)", "a one-row matrix with row_only: nothing is permuted, in either direction"),
}


def r_option_before_return(ctx, f: FunctionInfo, rule="R-THREAD", chain=None):
    """A boolean option (default False/True) that selects the FORM of the result (return_dm, is_sparse, partial, ...) has to be consulted on every
    path that returns a result.  A `return` placed textually before the first read of the option -- and not inside a branch on it --
    cannot depend on it: that exit silently ignores the option."""
    opts = [p.name for p in f.params if isinstance(getattr(p, "default", None), ast.Constant) and isinstance(p.default.value, bool)]
    n_sites = 0
    for p in opts:
        free = _OPTION_FREE_EXITS[(f.name, p)][0] if (f.name, p) in _OPTION_FREE_EXITS else None
        reads = [x for x in walk_no_nested(f.node) if isinstance(x, ast.Name) and x.id == p and isinstance(x.ctx, ast.Load)]
        if not reads:
            continue
        first = min(x.lineno for x in reads)
        early = [r for r in walk_no_nested(f.node) if isinstance(r, ast.Return) and r.value is not None and r.lineno < first
                 and not isinstance(r.value, ast.Constant) and unparse(r.value) != free]  # a constant verdict (False for a non-square matrix) has no form to select
        n_sites += 1
        ctx.ob(rule, f, f"option `{p}` is consulted on every returning path", not early,
               f"first read at line {first}, no earlier return" if not early else
               f"`{unparse(early[0])[:60]}` (line {early[0].lineno}) returns before `{p}` is read for the first time (line {first}): on that path the caller's `{p}` is ignored and "
               "the result has the default form", early[0] if early else None, chain=chain)
    return n_sites


# ---------------------------------------------------------------------------------------------
def r_family_index_ranges(ctx, f: FunctionInfo, rule="R-ENUM", chain=None):
    """A keyed family of optimisation variables (`sigma[a, x] = Variable(..)` in nested loops, held in a dict / defaultdict) has to be
    declared over the same index ranges it is later read over.  With a defaultdict a missing key is not an error: it silently creates a
    fresh (scalar) variable, and the constraints that mention it constrain the wrong object."""
    par = _parents(f.node)

    def loop_range(node, name):
        p = par.get(id(node))
        while p is not None:
            if isinstance(p, (ast.For, ast.comprehension)) and isinstance(p.target, ast.Name) and p.target.id == name:
                it = p.iter
                if isinstance(it, ast.Call) and getattr(it.func, "id", "") == "range" and len(it.args) == 1:
                    return unparse(it.args[0])
                return None
            if isinstance(p, (ast.ListComp, ast.GeneratorExp, ast.SetComp, ast.DictComp)):
                for g in p.generators:
                    if isinstance(g.target, ast.Name) and g.target.id == name and isinstance(g.iter, ast.Call) and getattr(g.iter.func, "id", "") == "range" and len(g.iter.args) == 1:
                        return unparse(g.iter.args[0])
            p = par.get(id(p))
        return None

    fams = {n.targets[0].id for n in walk_no_nested(f.node) if isinstance(n, ast.Assign) and len(n.targets) == 1 and isinstance(n.targets[0], ast.Name)
            and isinstance(n.value, (ast.Call, ast.Dict)) and (isinstance(n.value, ast.Dict) or unparse(n.value.func).split(".")[-1] in ("defaultdict", "dict"))}
    n_sites = 0
    for fam in sorted(fams):
        stores, loads = [], []
        for x in walk_no_nested(f.node):
            if isinstance(x, ast.Subscript) and isinstance(x.value, ast.Name) and x.value.id == fam and isinstance(x.slice, ast.Tuple) and all(isinstance(e, ast.Name) for e in x.slice.elts):
                rg = tuple(loop_range(x, e.id) for e in x.slice.elts)
                (stores if isinstance(x.ctx, ast.Store) else loads).append((x, rg))
        if not stores or not loads:
            continue
        decl = {rg for _, rg in stores if all(rg)}
        if len(decl) != 1:
            continue
        d = next(iter(decl))
        n_sites += 1
        bad = next(((x, rg) for x, rg in loads if all(rg) and len(rg) == len(d) and rg != d), None)
        ctx.ob(rule, f, f"variable family `{fam}` is declared over the index ranges it is read over", bad is None,
               f"declared and read over ({', '.join(d)})" if bad is None else
               f"`{unparse(bad[0])}` (line {bad[0].lineno}) is read for indices in ({', '.join(bad[1])}) but `{fam}` is only declared for ({', '.join(d)}): the missing keys are "
               "either a KeyError or -- with a defaultdict -- silently fresh scalar variables, so the constraints bind the wrong objects", bad[0] if bad else None, chain=chain)
    return n_sites


# ---------------------------------------------------------------------------------------------
def r_default_dim_root(ctx, f: FunctionInfo, rule="R-KIND", chain=None):
    """`dim` omitted means two subsystems of equal size: each is the square root of the number of ROWS (len(X), X.shape[0]) of the operand.
    The square root of the number of ENTRIES (X.size, prod(X.shape), shape[0] * shape[1]) is the full side length -- the operand would then be
    treated as one N-dimensional subsystem next to a trivial one."""
    n_sites = 0
    for n in walk_no_nested(f.node):
        if not (isinstance(n, ast.If) and unparse(n.test).replace(" ", "") in ("dimisNone", "Noneisdim")):
            continue
        for st in ast.walk(ast.Module(body=n.body, type_ignores=[])):
            if not (isinstance(st, ast.Assign) and len(st.targets) == 1 and isinstance(st.targets[0], ast.Name) and st.targets[0].id == "dim"):
                continue
            for c in ast.walk(st.value):
                if isinstance(c, ast.Call) and getattr(c.func, "attr", getattr(c.func, "id", "")) == "sqrt" and c.args:
                    a = c.args[0]
                    txt = unparse(a).replace(" ", "")
                    entries = (isinstance(a, ast.Attribute) and a.attr == "size") or "prod(" in txt or ".size" in txt or \
                        (isinstance(a, ast.BinOp) and isinstance(a.op, ast.Mult) and "shape" in txt)
                    rows = txt.startswith("len(") or (isinstance(a, ast.Subscript) and isinstance(a.value, ast.Attribute) and a.value.attr == "shape") or txt.startswith(("max(", "min("))
                    if not (entries or rows):
                        continue
                    n_sites += 1
                    ctx.ob(rule, f, "omitted dim: each of the two subsystems is the square root of the number of rows", not entries,
                           f"sqrt({txt[:40]})" if not entries else
                           f"`{unparse(st)[:70]}` (line {st.lineno}) takes the root of the number of ENTRIES: an N x N operand gets dim = N, i.e. [N, 1], instead of [sqrt N, sqrt N], "
                           "so the call with dim omitted returns the whole operand (or its full trace)", st, chain=chain)
    return n_sites


# ---------------------------------------------------------------------------------------------
def r_swap_dims_current(ctx, f: FunctionInfo, rule="R-ORDER", chain=None):
    """swap(X, sys, dim) / permute_systems(X, perm, dim) must be told the dimensions X has NOW, i.e. before the exchange.  When the names in
    the `dim` argument were exchanged or reversed (dim = dim[::-1]; a, b = b, a) by an earlier statement of the same block -- with X
    untouched in between -- the call describes the layout X will have afterwards: a 3 x 2 operand is read as 2 x 3 and scrambled."""
    model = ctx.model
    par = _parents(f.node)
    n_sites = 0
    for c in walk_no_nested(f.node):
        if not isinstance(c, ast.Call):
            continue
        k = model.resolve_call(f, c).key or ""
        if not k.endswith(("swap.swap", "permute_systems.permute_systems")):
            continue
        cal = model.resolve_call(f, c)
        try:
            b = model.bind(c, cal.func)
        except Exception:  # noqa: BLE001
            continue
        d = b.get("dim")
        x = b.get("rho") if "rho" in b else b.get("input_mat")
        if not isinstance(d, ast.AST) or not isinstance(x, ast.AST):
            continue
        dnames = {y.id for y in ast.walk(d) if isinstance(y, ast.Name)}
        xnames = {y.id for y in ast.walk(x) if isinstance(y, ast.Name)}
        if not dnames:
            continue
        # the statement holding the call, and its block
        st = c
        while st is not None and not isinstance(st, ast.stmt):
            st = par.get(id(st))
        blk = par.get(id(st)) if st is not None else None
        body = None
        for fld in ("body", "orelse", "finalbody"):
            if isinstance(getattr(blk, fld, None), list) and any(y is st for y in getattr(blk, fld)):
                body = getattr(blk, fld)
        if body is None:
            continue
        n_sites += 1
        bad = None
        for prev in body:
            if prev is st:
                break
            if not isinstance(prev, ast.Assign):
                continue
            tg = prev.targets[0]
            exch = False
            if isinstance(tg, ast.Tuple) and isinstance(prev.value, ast.Tuple) and len(tg.elts) == len(prev.value.elts) == 2 and all(isinstance(e, ast.Name) for e in tg.elts + prev.value.elts):
                exch = [e.id for e in tg.elts] == [e.id for e in prev.value.elts][::-1] and {e.id for e in tg.elts} <= dnames
            elif isinstance(tg, ast.Name) and tg.id in dnames:
                v = unparse(prev.value).replace(" ", "")
                exch = v in (f"{tg.id}[::-1]", f"[{tg.id}[1],{tg.id}[0]]", f"list(reversed({tg.id}))", f"np.flip({tg.id})", f"{tg.id}[[1,0]]")
            if exch:
                bad = prev
            elif bad is not None and any(isinstance(t, ast.Name) and t.id in xnames for t in ast.walk(tg)):
                bad = None  # the operand was re-bound after the exchange: the new dims may describe it
        ctx.ob(rule, f, f"`{unparse(c.func)}` is given the operand's current dimensions", bad is None,
               "no exchange of the dimensions ahead of the call" if bad is None else
               f"`{unparse(bad)[:50]}` (line {bad.lineno}) exchanges the dimensions BEFORE `{unparse(c)[:60]}` (line {c.lineno}): the operand still has the old layout, so it is "
               "re-factorised with the wrong local dimensions whenever they differ (a 3 x 2 operator read as 2 x 3)", c, chain=chain)
    return n_sites


# ---------------------------------------------------------------------------------------------
def r_unpack_alignment(ctx, f: FunctionInfo, rule="R-ENUM", chain=None):
    """a, b, c, d = (g(v) for v in (a, b, c, d)) re-binds each name to its own converted value: targets and sources must be in the same order.
    The same names in a different order silently exchange two arguments."""
    n_sites = 0
    for n in walk_no_nested(f.node):
        if not (isinstance(n, ast.Assign) and len(n.targets) == 1 and isinstance(n.targets[0], ast.Tuple) and all(isinstance(e, ast.Name) for e in n.targets[0].elts)):
            continue
        tg = [e.id for e in n.targets[0].elts]
        src = None
        v = n.value
        if isinstance(v, (ast.GeneratorExp, ast.ListComp)) and len(v.generators) == 1 and not v.generators[0].ifs and isinstance(v.generators[0].iter, (ast.Tuple, ast.List)) \
                and all(isinstance(e, ast.Name) for e in v.generators[0].iter.elts):
            src = [e.id for e in v.generators[0].iter.elts]
        elif isinstance(v, (ast.Tuple, ast.List)) and len(v.elts) == len(tg) and not all(isinstance(e, ast.Name) for e in v.elts):
            per = [sorted({y.id for y in ast.walk(e) if isinstance(y, ast.Name) and y.id in tg}) for e in v.elts]
            if all(len(p) == 1 for p in per):
                src = [p[0] for p in per]
        if src is None or sorted(src) != sorted(tg) or len(set(tg)) != len(tg) or len(tg) < 2:
            continue
        n_sites += 1
        ok = src == tg
        ctx.ob(rule, f, f"re-binding of ({', '.join(sorted(tg))}) keeps every name on its own value", ok,
               "targets and sources in the same order" if ok else
               f"`{unparse(n)[:90]}` (line {n.lineno}): targets ({', '.join(tg)}) against sources ({', '.join(src)}) -- "
               f"{', '.join(a + '<-' + b for a, b in zip(tg, src) if a != b)}: two arguments are silently exchanged", n, chain=chain)
    return n_sites


# ---------------------------------------------------------------------------------------------
def r_all_equality(ctx, f: FunctionInfo, rule="R-PRED", chain=None):
    """`if np.any(T[0] == T[1])` between two rows of one table is true as soon as ONE entry agrees; a branch that then treats the rows as
    interchangeable needs np.all / np.array_equal."""
    def strip(e):
        while True:
            if isinstance(e, ast.Call) and getattr(e.func, "attr", getattr(e.func, "id", "")) in ("asarray", "array", "list", "tuple") and e.args:
                e = e.args[0]
            elif isinstance(e, ast.Subscript) and isinstance(e.slice, ast.Slice) and e.slice.lower is None and e.slice.upper is None and e.slice.step is None:
                e = e.value
            else:
                return e
    n_sites = 0
    for n in walk_no_nested(f.node):
        if not isinstance(n, (ast.If, ast.IfExp)):
            continue
        for c in ast.walk(n.test):
            if isinstance(c, ast.Call) and getattr(c.func, "attr", getattr(c.func, "id", "")) in ("any", "all") and c.args and isinstance(c.args[0], ast.Compare) \
                    and len(c.args[0].ops) == 1 and isinstance(c.args[0].ops[0], ast.Eq):
                l, r = strip(c.args[0].left), strip(c.args[0].comparators[0])
                if isinstance(l, ast.Subscript) and isinstance(r, ast.Subscript) and unparse(l.value) == unparse(r.value) and isinstance(l.slice, ast.Constant) \
                        and isinstance(r.slice, ast.Constant) and l.slice.value != r.slice.value:
                    n_sites += 1
                    ok = getattr(c.func, "attr", getattr(c.func, "id", "")) == "all"
                    ctx.ob(rule, f, f"rows `{unparse(l)}` and `{unparse(r)}` are treated as equal only when ALL entries agree", ok, "np.all" if ok else
                           f"`{unparse(c)[:70]}` (line {c.lineno}) holds as soon as one subsystem has equal row and column dimension: a table that mixes square and "
                           "rectangular subsystems takes the equal-rows shortcut and uses the row data for the columns", c, chain=chain)
    return n_sites


# ---------------------------------------------------------------------------------------------
def r_squeeze_axis(ctx, f: FunctionInfo, rule="R-SHAPE", chain=None):
    """np.squeeze(x) / x.squeeze() without an axis removes EVERY unit axis, not only the one that was just cut: for a single Kraus operator,
    a one-dimensional system or a single vector the result loses a second axis and comes back 1-D (or 0-D)."""
    bad = [c for c in walk_no_nested(f.node) if isinstance(c, ast.Call) and getattr(c.func, "attr", getattr(c.func, "id", "")) == "squeeze"
           and not any(kw.arg == "axis" for kw in c.keywords) and len(c.args) < (2 if isinstance(c.func, ast.Attribute) and unparse(c.func.value) in ("np", "numpy") else 1)]
    if bad:
        ctx.ob(rule, f, "squeeze names the axis it removes", False,
               f"`{unparse(bad[0])[:60]}` (line {bad[0].lineno}) drops all unit axes: whenever another extent is 1 (one Kraus operator, a one-dimensional space, a single state) the "
               "operator comes back with the wrong number of dimensions", bad[0], chain=chain)
    return len(bad)


# ---------------------------------------------------------------------------------------------
def r_overwrite_operand(ctx, f: FunctionInfo, rule="R-EFFECT", chain=None):
    """scipy.linalg routines called with overwrite_a / overwrite_b / overwrite_x = True let LAPACK work in the operand's own memory whenever
    its layout allows it (Fortran-contiguous: X.T views, np.asfortranarray, results of other LAPACK calls).  That is only sound for a
    temporary that is never read again; for a parameter (or an alias of one) it corrupts the caller's array, and for a local that is read
    afterwards it corrupts the rest of the computation -- silently, and only for some memory layouts."""
    bad = None
    for c in walk_no_nested(f.node):
        if not isinstance(c, ast.Call):
            continue
        ow = [kw for kw in c.keywords if kw.arg and kw.arg.startswith("overwrite_") and not (isinstance(kw.value, ast.Constant) and kw.value.value is False)]
        if not ow or not c.args:
            continue
        a = c.args[0]
        if isinstance(a, ast.Name):
            later = any(isinstance(x, ast.Name) and x.id == a.id and isinstance(x.ctx, ast.Load) and (x.lineno, x.col_offset) > (c.end_lineno, c.end_col_offset) for x in walk_no_nested(f.node))
            stores = [x for x in walk_no_nested(f.node) if isinstance(x, ast.Assign) and any(isinstance(t, ast.Name) and t.id == a.id for t in x.targets) and x.lineno < c.lineno]
            fresh = bool(stores) and all(isinstance(x.value, ast.Call) and getattr(x.value.func, "attr", "") in ("copy", "array", "asfortranarray") for x in stores)
            if f.param(a.id) is not None and not fresh or later:
                bad = bad or (c, ow[0], a.id, "is read again afterwards" if later else "is the caller's array")
    if bad is not None:
        c, kw, nm, why = bad
        ctx.ob(rule, f, "no LAPACK routine is allowed to overwrite an operand that is still needed", False,
               f"`{unparse(c)[:70]}` (line {c.lineno}): `{kw.arg}=True` lets the routine destroy `{nm}`, which {why}; it happens only for Fortran-ordered memory (a transposed view, "
               "np.asfortranarray, the output of another LAPACK call), so C-ordered test inputs never see it", c, chain=chain)
    return 1 if bad else 0


# ---------------------------------------------------------------------------------------------
# same-named parameters that mean different things in caller and callee (confirmed by reading)
_SAME_NAME_OTHER_MEANING = {
    ("is_stochastic", "is_nonnegative", "mat_type"): "is_stochastic's mat_type is left / right / doubly; is_nonnegative's is positive / nonnegative",
}


def r_forward_same_named(ctx, f: FunctionInfo, rule="R-THREAD", chain=None, skip=("tol", "rtol", "atol", "self")):
    """Across the library a parameter keeps its name when a function delegates (probs, dim, solver, level, primal_dual, ...): on the
    unchanged tree EVERY call to a library function that has a formal named like one of the caller's own parameters binds it.  A call that
    leaves such a formal at its default silently drops the caller's value (a delegation that forgets the prior solves the uniform problem).
    Tolerances have their own rule (R-TOL) with its confirmed exceptions."""
    model = ctx.model
    fp = {p.name for p in f.params} - set(skip)
    if not fp:
        return 0
    n_sites = 0
    for c in walk_no_nested(f.node):
        if not isinstance(c, ast.Call) or any(kw.arg is None for kw in c.keywords) or any(isinstance(a, ast.Starred) for a in c.args):
            continue
        g = getattr(model.resolve_call(f, c), "func", None)
        if g is None or g is f:
            continue
        try:
            b = model.bind(c, g)
        except Exception:  # noqa: BLE001
            continue
        for p in g.params:
            if p.name in fp and p.kind in ("pos", "kwonly") and (f.name, g.name, p.name) not in _SAME_NAME_OTHER_MEANING:
                n_sites += 1
                ok = isinstance(b.get(p.name), ast.AST)
                ctx.ob(rule, f, f"`{p.name}` is handed on to {g.name}", ok, "bound" if ok else
                       f"`{unparse(c)[:80]}` (line {c.lineno}) leaves {g.name}'s `{p.name}` at its default although {f.name} has its own `{p.name}`: on this path the caller's value is "
                       "dropped (for a prior: the uniform problem is solved instead)", c, chain=chain)
    return n_sites


# ---------------------------------------------------------------------------------------------
def r_einsum_kron(ctx, f: FunctionInfo, rule="R-LAYOUT", chain=None):
    """np.einsum("ab..,cd..->acbd..", A, B).reshape(..) is a Kronecker product axis by axis: the output lists, for every axis k, the k-th index of
    one operand next to the k-th index of the other, and the reshape merges each pair.  The order inside the pairs decides which operand is
    the slow (major) factor: it has to be the same for EVERY axis, otherwise one axis is the product B (x) A while the others are A (x) B."""
    n_sites = 0
    for c in walk_no_nested(f.node):
        if not (isinstance(c, ast.Call) and getattr(c.func, "attr", "") == "einsum" and len(c.args) == 3 and isinstance(c.args[0], ast.Constant) and isinstance(c.args[0].value, str)):
            continue
        spec = c.args[0].value.replace(" ", "")
        if "->" not in spec or spec.count(",") != 1:
            continue
        ins, out = spec.split("->")
        i1, i2 = ins.split(",")
        if len(i1) != len(i2) or len(out) != 2 * len(i1) or set(out) != set(i1 + i2) or len(set(i1 + i2)) != 2 * len(i1):
            continue
        pairs = [out[2 * k:2 * k + 2] for k in range(len(i1))]
        orient, bad = [], None
        for pr in pairs:
            if pr[0] in i1 and pr[1] in i2 and i1.index(pr[0]) == i2.index(pr[1]):
                orient.append(1)
            elif pr[0] in i2 and pr[1] in i1 and i2.index(pr[0]) == i1.index(pr[1]):
                orient.append(2)
            else:
                orient.append(0)
        n_sites += 1
        if 0 in orient:
            ok, why = False, f"output `{out}` does not pair the k-th index of one operand with the k-th index of the other (pairs {pairs})"
        elif len(set(orient)) > 1:
            k = next(i for i, o in enumerate(orient) if o != orient[0])
            ok, why = False, (f"`{spec}`: the pair `{pairs[k]}` lists the operands in the opposite order to `{pairs[0]}` -- after the reshape that axis is the Kronecker product with "
                              "the factors exchanged, so its digits run in the reverse order to the other axes (and to anything built with tensor() / np.kron for the same repetitions)")
        else:
            ok, why = True, f"`{spec}`: every pair lists operand {orient[0]} first"
        ctx.ob(rule, f, "einsum/reshape Kronecker product orders every index pair the same way", ok, why, c, chain=chain)
    return n_sites


# ---------------------------------------------------------------------------------------------
def r_signed_difference(ctx, f: FunctionInfo, rule="R-DTYPE", chain=None):
    """np.sign(x[i] - x[j]) (or a `< 0` test of such a difference) on entries of a caller-supplied integer array computed in the caller's dtype:
    for an unsigned array (uint8 / uint64 / np.uintp index arrays) the difference wraps around instead of going negative, so every sign is
    +1.  The array has to be converted to a signed type first (np.asarray(x, dtype=int), astype(int), int(..))."""
    par = _parents(f.node)
    params = {p.name for p in f.params}
    untyped = set()
    for n in walk_no_nested(f.node):
        if isinstance(n, ast.Assign) and len(n.targets) == 1 and isinstance(n.targets[0], ast.Name) and isinstance(n.value, ast.Call) \
                and unparse(n.value.func) in ("np.asarray", "np.array", "numpy.asarray", "numpy.array", "np.asanyarray") and n.value.args \
                and isinstance(n.value.args[0], ast.Name) and n.value.args[0].id in params and len(n.value.args) == 1 and not any(kw.arg == "dtype" for kw in n.value.keywords):
            untyped.add(n.targets[0].id)
    if not untyped:
        return 0
    bad = None
    for n in walk_no_nested(f.node):
        if isinstance(n, ast.BinOp) and isinstance(n.op, ast.Sub):
            ops = [n.left, n.right]
            if all(isinstance(o, ast.Subscript) and isinstance(o.value, ast.Name) and o.value.id in untyped for o in ops):
                p = par.get(id(n))
                signed_use = False
                while p is not None and not isinstance(p, ast.stmt):
                    if isinstance(p, ast.Call) and getattr(p.func, "attr", "") in ("sign", "signbit"):
                        signed_use = True
                    if isinstance(p, ast.Compare) and any(isinstance(c_, ast.Constant) and c_.value == 0 for c_ in p.comparators):
                        signed_use = True
                    p = par.get(id(p))
                if signed_use:
                    bad = bad or n
    if bad is not None:
        ctx.ob(rule, f, "signs of differences of array entries are taken in a signed type", False,
               f"`{unparse(bad)[:60]}` (line {bad.lineno}) subtracts entries of `{bad.left.value.id}` in the caller's dtype: an unsigned integer array wraps around instead of going negative, "
               "so the sign of every difference is +1 (perm_sign(np.array([2, 1], dtype=np.uint8)) == +1)", bad, chain=chain)
    return 1 if bad else 0



# ---------------------------------------------------------------------------------------------
def r_recursion_empty_base(ctx, f: FunctionInfo, rule="R-BASE", chain=None):
    """A function that calls itself on a tail slice of its argument (f(x[k:])) shortens the argument by k per level -- until it is empty, and
    the tail of an empty sequence is empty again.  Unless some returning branch ahead of the recursive call is taken for the EMPTY argument,
    the call f([]) (and every length that steps over the other base cases) never terminates."""
    rec = None
    for c in walk_no_nested(f.node):
        if isinstance(c, ast.Call) and isinstance(c.func, ast.Name) and c.func.id == f.name and c.args and isinstance(c.args[0], ast.Subscript) \
                and isinstance(c.args[0].slice, ast.Slice) and c.args[0].slice.upper is None and isinstance(c.args[0].value, ast.Name):
            rec = c
    if rec is None:
        return 0
    x = rec.args[0].value.id
    lens = {x_.targets[0].id for x_ in walk_no_nested(f.node) if isinstance(x_, ast.Assign) and len(x_.targets) == 1 and isinstance(x_.targets[0], ast.Name)
            and isinstance(x_.value, ast.Call) and getattr(x_.value.func, "id", "") == "len" and x_.value.args and unparse(x_.value.args[0]) == x}
    lens |= {w.target.id for w in walk_no_nested(f.node) if isinstance(w, ast.NamedExpr) and isinstance(w.value, ast.Call) and getattr(w.value.func, "id", "") == "len"
             and w.value.args and unparse(w.value.args[0]) == x}

    class Z(ast.NodeTransformer):
        def visit_NamedExpr(self, n):
            return self.visit(n.value)

        def visit_Call(self, n):
            if getattr(n.func, "id", "") == "len" and n.args and unparse(n.args[0]) == x:
                return ast.Constant(0)
            return self.generic_visit(n)

        def visit_Name(self, n):
            if n.id in lens:
                return ast.Constant(0)
            if n.id == x:
                return ast.List(elts=[], ctx=ast.Load())
            return n
    has = False
    import copy
    for n in f.node.body:
        if getattr(n, "lineno", 0) >= rec.lineno:
            break
        if isinstance(n, ast.If) and n.body and isinstance(n.body[-1], (ast.Return, ast.Raise)):
            try:
                t = ast.fix_missing_locations(ast.Expression(Z().visit(copy.deepcopy(n.test))))
                if eval(compile(t, "<base>", "eval"), {"__builtins__": {}}, {}):  # noqa: S307 -- constants and comparisons only
                    has = True
            except Exception:  # noqa: BLE001
                continue
    ctx.ob(rule, f, f"the recursion on `{unparse(rec.args[0])}` has a base case for the empty argument", has,
           "a returning branch is taken for length 0" if has else
           f"`{unparse(rec)}` (line {rec.lineno}): no branch ahead of it returns for an empty `{x}`, and `[][{unparse(rec.args[0].slice)}]` is empty again -- {f.name}(0) / {f.name}([]) recurses "
           "until RecursionError", rec, chain=chain)
    return 1
