"""Entry point: python -m engine.main <ID> [--tier quick|thorough] [--replay PATH]"""

from __future__ import annotations

import argparse
import importlib
import json
import os
import sys
import time
import traceback

from .model import AnalysisError, RepoModel
from .report import Ctx, VERIF, finish


def load_floors():
    try:
        with open(os.path.join(VERIF, "floors.json")) as fh:
            return json.load(fh)
    except FileNotFoundError:
        return {}


def lost_confirmed(ctx, floors):
    """Obligations discharged on the confirmed tree (floors.json) that are now `unknown` or absent: the construct the rule was
    confirmed on is no longer recognised, so the rule would pass vacuously -- reported as analysis-broken (exit 2), not as ok."""
    conf = [tuple(k) for k in (floors or {}).get("confirmed", [])]
    if not conf:
        return []
    now = {o.key: o.status for o in ctx.obs}
    unk_pairs = {(o.rule, o.function) for o in ctx.obs if o.status == "unknown"}
    lost = []
    for k in conf:
        st = now.get(k)
        if st == "unknown" or st is None:
            lost.append(k)
    return lost


_OWNERS = None


def _anchor_owners():
    """file -> set of property ids that anchor it (properties.jsonl)"""
    global _OWNERS
    if _OWNERS is None:
        import json as _json

        _OWNERS = {}
        try:
            with open(os.path.join(os.path.dirname(os.path.dirname(os.path.abspath(__file__))), "properties.jsonl")) as fh:
                for line in fh:
                    pr = _json.loads(line)
                    for a in pr["anchors"]["files"]:
                        _OWNERS.setdefault(a, set()).add(pr["id"])
        except (OSError, ValueError, KeyError):
            pass
    return _OWNERS


def common(ctx):
    """Generic rules applied, in both tiers, to every function the property's own check placed an obligation on."""
    from .rules import r_count_after_expansion, r_default_dim_table, r_scalar_dim_bipartite, r_chunk_tail, r_oneshot_iterator, r_fresh_result, r_values_not_rounded, r_dense_into_kron, r_no_npmatrix, r_hermitian_solver_operand, r_roots_rounded, r_scalar_dim_expand, r_subsystem_count, r_guard_not_preempted, r_stale_length, r_option_before_return, r_family_index_ranges, r_default_dim_root, r_swap_dims_current, r_unpack_alignment, r_all_equality, r_squeeze_axis, r_overwrite_operand, r_forward_same_named, r_einsum_kron, r_signed_difference

    ctx.rule("R-SHAPE", "the subsystem count of a two-row dimension table is its number of columns; inferred dimensions (roots of sizes) are rounded")
    ctx.rule("R-EFFECT", "array-returning functions are not memoised: every call returns a fresh object")
    if ctx.prop == "C17":
        ctx.rule("R-SPARSE", "values that may be scipy.sparse never reach np.kron / tensor(), which only multiplies dense operands")
        ctx.rule("R-ROUND", "no named-state / standard-matrix constructor rounds what it returns to a fixed number of decimals")
    ctx.rule("R-ENUM", "generic enumeration hygiene: block-wise enumerations cover their last partial block; one-shot iterators are traversed once")
    ctx.rule("R-KIND", "a scalar `dim` expands to [dim, total/dim]: the scalar names the first local dimension, as the list form does")
    # freshness of results: every function defined in the property's anchor files (not only those the property's own check visits)
    try:
        import json as _json

        anchors = set()
        with open(os.path.join(os.path.dirname(os.path.dirname(os.path.abspath(__file__))), "properties.jsonl")) as fh:
            for line in fh:
                pr = _json.loads(line)
                if pr["id"] == ctx.prop:
                    anchors = set(pr["anchors"]["files"])
        for q, f in sorted(ctx.model.functions.items()):
            in_anchor = f.file in anchors or any(a.endswith("/") and f.file.startswith(a) for a in anchors)
            if in_anchor and q not in ctx.analysed_functions and f.parent is None:
                r_fresh_result(ctx, f)
                r_oneshot_iterator(ctx, f)
                r_chunk_tail(ctx, f)
                r_option_before_return(ctx, f)
                r_guard_not_preempted(ctx, f)
                r_stale_length(ctx, f)
                r_unpack_alignment(ctx, f)
                r_squeeze_axis(ctx, f)
                r_overwrite_operand(ctx, f)
            if in_anchor and f.parent is None and ctx.prop == "C06" and "/channels/" in f.file:
                r_no_npmatrix(ctx, f)
            if in_anchor and f.parent is None and ctx.prop == "C17":
                r_values_not_rounded(ctx, f)
                r_dense_into_kron(ctx, f)
    except (OSError, ValueError, KeyError):
        pass
    pattern_keys = set()
    for q in sorted(ctx.analysed_functions):
        f = ctx.model.functions.get(q)
        if f is not None:
            r_scalar_dim_expand(ctx, f)
            r_scalar_dim_bipartite(ctx, f)
            r_count_after_expansion(ctx, f)
            if not (ctx.prop == "C03" and f.name == "realignment"):  # (C03 has its own, older instance of this rule for realignment)
                r_default_dim_table(ctx, f)
            r_fresh_result(ctx, f)
            r_roots_rounded(ctx, f)
            r_hermitian_solver_operand(ctx, f)
            r_chunk_tail(ctx, f)
            r_oneshot_iterator(ctx, f)
            # round-6 generic rules: each reports the PRESENCE of a hazardous pattern at a site; when the site goes away (the call moved into a
            # helper, the loop was rewritten) there is nothing left to decide, so these keys are not part of the confirmed-obligation list
            _b6 = {o.key for o in ctx.obs}
            r_option_before_return(ctx, f)
            r_guard_not_preempted(ctx, f)
            r_stale_length(ctx, f)
            r_family_index_ranges(ctx, f)
            r_default_dim_root(ctx, f)
            r_swap_dims_current(ctx, f)
            r_unpack_alignment(ctx, f)
            r_all_equality(ctx, f)
            r_squeeze_axis(ctx, f)
            r_overwrite_operand(ctx, f)
            r_forward_same_named(ctx, f)
            r_einsum_kron(ctx, f)
            r_signed_difference(ctx, f)
            pattern_keys |= {o.key for o in ctx.obs} - _b6
            if ctx.prop in ("C01", "C02", "C03"):  # properties that quantify over n-partite operators with separate row / column dimensions
                r_subsystem_count(ctx, f)

    # the same hygiene rules over the transitive callee closure of the functions analysed so far (both tiers; a convention break in a
    # helper three calls down changes what the anchored function computes): reported with the shortest call chain.  These obligations
    # exist only as long as the call exists, so they are not part of the confirmed-obligation list (ctx.closure_keys).
    ctx.closure_keys = set(pattern_keys)
    try:
        from .sweep import _chains

        base = set(ctx.analysed_functions)
        roots = [ctx.model.functions[q] for q in sorted(base) if q in ctx.model.functions]
        chain_of = _chains(ctx.model, roots)
        before = {o.key for o in ctx.obs}
        for g in sorted(ctx.model.callees_closure(list(roots)), key=lambda x: x.qualname):
            if g.qualname in base or ".tests." in g.qualname:
                continue
            ch = chain_of.get(g.qualname, [])
            r_scalar_dim_expand(ctx, g, chain=ch)
            r_scalar_dim_bipartite(ctx, g, chain=ch)
            r_count_after_expansion(ctx, g, chain=ch)
            r_default_dim_table(ctx, g, chain=ch)
            r_chunk_tail(ctx, g, chain=ch)
            r_oneshot_iterator(ctx, g, chain=ch)
            r_roots_rounded(ctx, g, chain=ch)
            r_fresh_result(ctx, g, chain=ch)
            r_hermitian_solver_operand(ctx, g, chain=ch)
            r_default_dim_root(ctx, g, chain=ch)
            r_stale_length(ctx, g, chain=ch)
            r_guard_not_preempted(ctx, g, chain=ch)
            r_swap_dims_current(ctx, g, chain=ch)
            r_unpack_alignment(ctx, g, chain=ch)
            r_all_equality(ctx, g, chain=ch)
            r_squeeze_axis(ctx, g, chain=ch)
            r_overwrite_operand(ctx, g, chain=ch)
            r_forward_same_named(ctx, g, chain=ch)
            r_einsum_kron(ctx, g, chain=ch)
            r_signed_difference(ctx, g, chain=ch)
        # borrowed obligations: a helper in the closure that is anchored by ANOTHER property brings that property's own obligations on
        # it along (C15 relies on partial_transpose: whatever C03 checks on partial_transpose is checked for C15 too).  Only violated or
        # unknown-required ones matter for the verdict; all are marked as closure obligations.
        if not getattr(ctx, "is_sub", False) and not os.environ.get("VERIF_NO_BORROW"):
            raw = _anchor_owners()

            def owners_of(fl):
                out = set(raw.get(fl, ()))
                for a, ps in raw.items():
                    if a.endswith("/") and fl.startswith(a):
                        out |= ps
                return out

            closure_files = {g.file for g in ctx.model.callees_closure(list(roots))} - {f.file for f in roots}
            owners = {fl: owners_of(fl) for fl in closure_files}
            need = sorted({pid for fl in closure_files for pid in owners[fl] if pid != ctx.prop and ctx.prop not in owners[fl]})
            for pid in need:
                sub = Ctx(pid, ctx.model, "quick")
                sub.is_sub = True
                try:
                    importlib.import_module(f"engine.props.{pid}").run(sub)
                except Exception:  # noqa: BLE001
                    continue
                from .report import load_known as _lk

                owner_known = {(k["rule"], k["function"], k["construct"]) for k in _lk().get("findings", []) if k.get("property") == pid and k.get("status") == "known"}
                for o in sub.obs:
                    if o.key in owner_known:
                        continue  # a recorded finding of the owner property: reported there, once
                    if o.file in closure_files and o.file in owners and pid in owners[o.file] and o.status != "unknown":
                        if not any(p_.key == o.key for p_ in ctx.obs):
                            o.chain = list(o.chain or []) + [f"(obligation of {pid} on a helper this property calls)"]
                            ctx.obs.append(o)
        ctx.closure_keys = ({o.key for o in ctx.obs} - before) | pattern_keys
        ctx.analysed_functions = base
    except (KeyError, AttributeError):
        pass


def run_property(pid: str, tier: str, model=None):
    model = model or RepoModel()
    ctx = Ctx(pid, model, tier)
    mod = importlib.import_module(f"engine.props.{pid}")
    ctx.crashed = None
    try:
        mod.run(ctx)
        common(ctx)
        if tier == "thorough":
            from .sweep import sweep

            ctx.rule("SWEEP", "thorough: R-BASE / R-KIND / R-THREAD / R-ORDER swept over the transitive callee closure of the anchored functions")
            sweep(ctx)
            if hasattr(mod, "run_thorough"):
                mod.run_thorough(ctx)
    except AnalysisError:
        raise
    except Exception:  # noqa: BLE001
        # an engine exception on an unexpected code shape: keep what was established so far
        ctx.crashed = traceback.format_exc()
    return ctx


def main(argv=None) -> int:
    ap = argparse.ArgumentParser()
    ap.add_argument("prop")
    ap.add_argument("--tier", default=os.environ.get("VERIF_TIER", "quick"), choices=["quick", "thorough"])
    ap.add_argument("--replay", default=None)
    ap.add_argument("--no-selftest", action="store_true")
    args = ap.parse_args(argv)
    try:
        seed = int(os.environ.get("VERIF_SEED", "0"))
    except ValueError:
        seed = 0
    t0 = time.time()
    pid = args.prop
    try:
        ctx = run_property(pid, args.tier)
        floors = load_floors().get(pid, {})
        if ctx.crashed:
            new_v = [o for o in ctx.obs if o.status == "violated"]
            print(ctx.crashed)
            print(f"ANALYSIS-ERROR property={pid}: engine exception while analysing this tree (the code has a shape the checker does not "
                  f"understand); {len(new_v)} violated obligation(s) were established before it")
            rc = finish(ctx, t0, seed, floors, None)
            return 1 if rc == 1 else 2
        # fail closed: a wholesale loss of analysability is not a pass
        decided = sum(1 for o in ctx.obs if o.status != "unknown" and o.key not in getattr(ctx, "closure_keys", set()))
        if floors and decided < floors.get("min_decided", 0):
            print(f"ANALYSIS-ERROR property={pid}: only {decided} obligations decided, the confirmed floor is "
                  f"{floors['min_decided']}; the analysis no longer applies to this tree and must be re-confirmed")
            return 2
        lost = lost_confirmed(ctx, floors)
        from .report import load_known

        known_keys = {(k["rule"], k["function"], k["construct"]) for k in load_known().get("findings", []) if k.get("property") == pid and k.get("status") == "known"}
        if lost and not any(o.status == "violated" and o.key not in known_keys for o in ctx.obs) and not args.replay:
            finish(ctx, t0, seed, floors, None)
            det = {o.key: o for o in ctx.obs}
            for k in lost[:8]:
                o = det.get(k)
                why = f" -- {o.detail[:260]} [{o.file}:{o.line}]" if o is not None and o.detail else " -- the construct is no longer found"
                print(f"  no longer decidable: {k[0]} {k[1]}: {k[2]}{why}")
            print(f"ANALYSIS-ERROR property={pid}: {len(lost)} obligation(s) confirmed on the reference tree can no longer be decided on this tree "
                  f"(the code is in a shape the checker does not recognise); nothing is claimed about them until they are re-confirmed")
            return 2
        if args.replay:
            with open(args.replay) as fh:
                rp = json.load(fh)
            key = (rp["rule"], rp["function"], rp["construct"])
            hit = [o for o in ctx.obs if o.key == key]
            if not hit:
                print(f"replay: obligation {key} is no longer instantiated on this tree")
                return 0
            o = hit[0]
            print(f"replay: {o.rule} {o.file}:{o.line} {o.function}: {o.construct} -> {o.status} -- {o.detail}")
            if o.status == "violated":
                print(f"VIOLATION property={pid} replay={args.replay}")
                return 1
            return 0
        st = None
        if args.tier == "thorough" and not args.no_selftest:
            from . import selftest

            st = selftest.run_for(pid, seed)
            if st.get("failed"):
                finish(ctx, t0, seed, floors, st)
                print(f"ANALYSIS-ERROR property={pid}: checker self-test failed: {st['failed'][:5]}")
                return 2
            from . import renamefuzz

            rn = renamefuzz.run_for(pid)
            st["rename_robustness"] = rn
            if rn.get("failed"):
                finish(ctx, t0, seed, floors, st)
                print(f"ANALYSIS-ERROR property={pid}: the verdict depends on the spelling of a local variable: {rn['failed'][:5]}")
                return 2
            from . import equivfuzz

            eq = equivfuzz.run_for(pid)
            st["equivalence_robustness"] = eq
            if eq.get("failed"):
                finish(ctx, t0, seed, floors, st)
                print(f"ANALYSIS-ERROR property={pid}: the verdict changes under a behaviour-preserving rewrite: {eq['failed'][:5]}")
                return 2
        return finish(ctx, t0, seed, floors, st)
    except AnalysisError as exc:
        print(f"ANALYSIS-ERROR property={pid}: {exc}")
        return 2
    except Exception:  # noqa: BLE001
        traceback.print_exc()
        print(f"ANALYSIS-ERROR property={pid}: engine exception (see traceback)")
        return 2


if __name__ == "__main__":
    sys.exit(main())
