"""RepoModel: whole-program syntactic model of /repo/toqito, rebuilt from source on every run.

Pure `ast`; nothing from toqito is imported or executed.  Provides
  * module table, function / class / method table (qualified names),
  * name resolution the way Python's import machinery binds names (package __init__ re-exports
    shadow sub-modules),
  * per call site: resolved callee (repo function, library dotted name, unknown) and the
    actual -> formal binding.
"""

from __future__ import annotations

import ast
import os
import sys
from dataclasses import dataclass, field

REPO = os.environ.get("VERIF_REPO", "/repo")
PKG = "toqito"


class AnalysisError(Exception):
    """The analysis cannot be carried out (parse failure, vanished anchor): exit 2, never a verdict."""


# ---------------------------------------------------------------------------------------------
@dataclass
class Param:
    name: str
    default: ast.AST | None  # None = required
    kind: str  # 'pos', 'kwonly', 'vararg', 'kwarg'
    annotation: ast.AST | None = None


@dataclass
class FunctionInfo:
    qualname: str  # toqito.perms.swap.swap / toqito.x.y.Class.method
    name: str
    module: "ModuleInfo"
    node: ast.FunctionDef
    cls: "ClassInfo | None" = None
    parent: "FunctionInfo | None" = None
    params: list[Param] = field(default_factory=list)

    @property
    def file(self):
        return self.module.relpath

    def param_names(self, skip_self=True):
        ps = [p.name for p in self.params if p.kind in ("pos", "kwonly")]
        if skip_self and self.cls is not None and ps and ps[0] in ("self", "cls") and not self.is_static:
            ps = ps[1:]
        return ps

    @property
    def is_static(self):
        for d in self.node.decorator_list:
            if isinstance(d, ast.Name) and d.id == "staticmethod":
                return True
        return False

    @property
    def short(self):
        """Name without the package/module prefix: Class.method or function."""
        if self.cls is not None:
            return f"{self.cls.name}.{self.name}"
        return self.name

    def param(self, name):
        for p in self.params:
            if p.name == name:
                return p
        return None


@dataclass
class ClassInfo:
    qualname: str
    name: str
    module: "ModuleInfo"
    node: ast.ClassDef
    methods: dict[str, FunctionInfo] = field(default_factory=dict)


@dataclass
class ModuleInfo:
    name: str  # dotted
    path: str
    relpath: str
    src: str
    tree: ast.Module
    is_pkg: bool
    # local namespace: name -> ('func', FunctionInfo) | ('class', ClassInfo) | ('import', dotted, attr|None)
    #                         | ('var', ast node)
    ns: dict = field(default_factory=dict)
    functions: dict[str, FunctionInfo] = field(default_factory=dict)
    classes: dict[str, ClassInfo] = field(default_factory=dict)


@dataclass
class Callee:
    kind: str  # 'repo' | 'lib' | 'class' | 'method' | 'unknown'
    func: FunctionInfo | None = None
    lib: str | None = None  # dotted library name e.g. numpy.linalg.norm
    cls: ClassInfo | None = None
    attr: str | None = None  # for 'method': attribute name called on an unresolved receiver

    @property
    def key(self):
        if self.kind == "repo":
            return self.func.qualname
        if self.kind == "lib":
            return self.lib
        if self.kind == "class":
            return self.cls.qualname
        if self.kind == "method":
            return "." + (self.attr or "?")
        return "?"


def _params_of(node: ast.FunctionDef) -> list[Param]:
    a = node.args
    out = []
    pos = list(a.posonlyargs) + list(a.args)
    nd = len(a.defaults)
    for i, arg in enumerate(pos):
        di = i - (len(pos) - nd)
        out.append(Param(arg.arg, a.defaults[di] if di >= 0 else None, "pos", arg.annotation))
    if a.vararg:
        out.append(Param(a.vararg.arg, None, "vararg", a.vararg.annotation))
    for arg, d in zip(a.kwonlyargs, a.kw_defaults):
        out.append(Param(arg.arg, d, "kwonly", arg.annotation))
    if a.kwarg:
        out.append(Param(a.kwarg.arg, None, "kwarg", a.kwarg.annotation))
    return out


class RepoModel:
    def __init__(self, repo: str | None = None, overrides: dict[str, str] | None = None):
        repo = repo or os.environ.get("VERIF_REPO", "/repo")
        self.repo = repo
        self.overrides = overrides or {}
        self.modules: dict[str, ModuleInfo] = {}
        self.functions: dict[str, FunctionInfo] = {}
        self.classes: dict[str, ClassInfo] = {}
        self.stats = {}
        self.renamed: dict[str, dict] = {}  # qualname -> {current local name: reference name} applied by engine/alpha.py
        self._load()
        self._index()
        if not os.environ.get("VERIF_NO_ALPHA"):
            self._canon_calls()

    # -- loading ------------------------------------------------------------------------------
    def _load(self):
        root = os.path.join(self.repo, PKG)
        if not os.path.isdir(root):
            raise AnalysisError(f"{root} is not a directory")
        for dp, dns, fns in os.walk(root):
            dns[:] = sorted(d for d in dns if d not in ("tests", "__pycache__"))
            for fn in sorted(fns):
                if not fn.endswith(".py"):
                    continue
                path = os.path.join(dp, fn)
                rel = os.path.relpath(path, self.repo)
                parts = rel[:-3].split(os.sep)
                is_pkg = parts[-1] == "__init__"
                if is_pkg:
                    parts = parts[:-1]
                name = ".".join(parts)
                try:
                    if rel in self.overrides:
                        src = self.overrides[rel]
                    else:
                        with open(path, encoding="utf-8") as fh:
                            src = fh.read()
                    tree = ast.parse(src, filename=rel)
                except (SyntaxError, UnicodeDecodeError, OSError) as exc:
                    raise AnalysisError(f"cannot parse {rel}: {exc}") from exc
                self.modules[name] = ModuleInfo(name, path, rel, src, tree, is_pkg)
        # directories without __init__ (namespace packages, e.g. toqito itself)
        for name in list(self.modules):
            parts = name.split(".")
            for k in range(1, len(parts)):
                pk = ".".join(parts[:k])
                if pk not in self.modules:
                    self.modules[pk] = ModuleInfo(pk, "", "", "", ast.Module(body=[], type_ignores=[]), True)

    def _canon_calls(self):
        """One spelling for calls of repository functions: every argument that can be written positionally (a contiguous
        prefix of the callee's declared parameters) is, the rest are keywords in declaration order.  `f(a, dim=d)` and
        `f(rho=a, dim=d)` and `f(a, d)` become the same AST, so no verdict depends on how a call spells its arguments."""
        n = 0
        for f in list(self.functions.values()):
            for c in list(walk_no_nested(f.node)):
                if not isinstance(c, ast.Call) or any(isinstance(a, ast.Starred) for a in c.args) or any(kw.arg is None for kw in c.keywords):
                    continue
                try:
                    cal = self.resolve_call(f, c)
                except Exception:  # noqa: BLE001
                    continue
                if cal.kind != "repo" or cal.func is None:
                    continue
                a = cal.func.node.args
                if a.vararg is not None or a.posonlyargs:
                    continue
                names = [x.arg for x in a.args]
                if names and names[0] in ("self", "cls") and cal.func.cls is not None:
                    names = names[1:]
                if len(c.args) > len(names):
                    continue
                supplied = {names[i]: v for i, v in enumerate(c.args)}
                extra = []
                dup = False
                for kw in c.keywords:
                    if kw.arg in supplied:
                        dup = True
                    elif kw.arg in names:
                        supplied[kw.arg] = kw.value
                    else:
                        extra.append(kw)
                if dup:
                    continue
                new_args, rest = [], []
                prefix = True
                for nm in names:
                    if nm in supplied and prefix:
                        new_args.append(supplied[nm])
                    else:
                        prefix = False
                        if nm in supplied:
                            rest.append(ast.keyword(arg=nm, value=supplied[nm]))
                if [id(x) for x in new_args] != [id(x) for x in c.args] or len(rest) + len(extra) != len(c.keywords) or \
                        [k.arg for k in rest + extra] != [k.arg for k in c.keywords]:
                    c.args = new_args
                    c.keywords = rest + extra
                    n += 1
        self.canon_calls = n

    def _index(self):
        for m in self.modules.values():
            self._index_scope(m, m.tree.body, None, None, m.name)
        n_calls = 0
        n_res = 0
        for f in self.functions.values():
            for c in calls_in(f.node):
                n_calls += 1
                if self.resolve_call(f, c).kind != "unknown":
                    n_res += 1
        self.stats = {
            "modules": len([m for m in self.modules.values() if m.path]),
            "functions": len(self.functions),
            "classes": len(self.classes),
            "call_sites": n_calls,
            "call_sites_resolved": n_res,
        }

    def _index_scope(self, m: ModuleInfo, body, cls: ClassInfo | None, parent: FunctionInfo | None, prefix: str):
        for st in body:
            if isinstance(st, (ast.FunctionDef, ast.AsyncFunctionDef)):
                qn = f"{prefix}.{st.name}"
                if parent is None and not os.environ.get("VERIF_NO_ALPHA"):
                    from . import alpha

                    mp = alpha.canonicalise(st, qn)
                    if mp:
                        self.renamed[qn] = mp
                fi = FunctionInfo(qn, st.name, m, st, cls, parent, _params_of(st))
                self.functions[qn] = fi
                if cls is not None:
                    cls.methods[st.name] = fi
                elif parent is None:
                    m.functions[st.name] = fi
                    m.ns[st.name] = ("func", fi)
                # nested defs
                self._index_scope(m, st.body, None, fi, qn + ".<locals>")
            elif isinstance(st, ast.ClassDef):
                qn = f"{prefix}.{st.name}"
                ci = ClassInfo(qn, st.name, m, st)
                self.classes[qn] = ci
                if cls is None and parent is None:
                    m.classes[st.name] = ci
                    m.ns[st.name] = ("class", ci)
                self._index_scope(m, st.body, ci, None, qn)
            elif cls is None and parent is None:
                if isinstance(st, ast.Import):
                    for al in st.names:
                        if al.asname:
                            m.ns[al.asname] = ("import", al.name, None)
                        else:
                            top = al.name.split(".")[0]
                            m.ns[top] = ("import", top, None)
                elif isinstance(st, ast.ImportFrom):
                    base = st.module or ""
                    if st.level:
                        parts = m.name.split(".")
                        if not m.is_pkg:
                            parts = parts[:-1]
                        parts = parts[: len(parts) - (st.level - 1)]
                        base = ".".join(parts + ([st.module] if st.module else []))
                    for al in st.names:
                        m.ns[al.asname or al.name] = ("import", base, al.name)
                elif isinstance(st, (ast.Assign, ast.AnnAssign)):
                    tg = st.targets if isinstance(st, ast.Assign) else [st.target]
                    for t in tg:
                        if isinstance(t, ast.Name):
                            m.ns[t.id] = ("var", st)
                elif isinstance(st, (ast.If, ast.Try)):
                    # conditional imports at module level
                    for sub in ast.walk(st):
                        if isinstance(sub, ast.Import):
                            for al in sub.names:
                                if al.asname:
                                    m.ns.setdefault(al.asname, ("import", al.name, None))
                                else:
                                    m.ns.setdefault(al.name.split(".")[0], ("import", al.name.split(".")[0], None))
                        elif isinstance(sub, ast.ImportFrom) and not sub.level:
                            for al in sub.names:
                                m.ns.setdefault(al.asname or al.name, ("import", sub.module, al.name))

    # -- resolution ---------------------------------------------------------------------------
    def resolve_global(self, modname: str, name: str, _depth=0):
        """Resolve `name` in module `modname`'s namespace to
        ('func', FunctionInfo) | ('class', ClassInfo) | ('mod', dotted) | ('lib', dotted) | ('var', node) | None."""
        if _depth > 12:
            return None
        m = self.modules.get(modname)
        if m is None:
            return ("lib", f"{modname}.{name}")
        ent = m.ns.get(name)
        if ent is None:
            sub = f"{modname}.{name}"
            if sub in self.modules:
                return ("mod", sub)
            return None
        if ent[0] in ("func", "class", "var"):
            return ent
        _, base, attr = ent
        if attr is None:
            if base in self.modules:
                return ("mod", base)
            return ("lib", base)
        # from base import attr
        if base in self.modules:
            r = self.resolve_global(base, attr, _depth + 1)
            if r is not None:
                return r
            sub = f"{base}.{attr}"
            if sub in self.modules:
                return ("mod", sub)
            return None
        return ("lib", f"{base}.{attr}")

    def resolve_expr(self, f: FunctionInfo | ModuleInfo, node: ast.AST):
        """Resolve a Name / Attribute chain used in function f (locals shadow globals: caller must
        check locals first where it matters)."""
        mod = f.module if isinstance(f, FunctionInfo) else f
        if isinstance(node, ast.Name):
            if isinstance(f, FunctionInfo):
                li = self._local_imports(f)
                if node.id in li:
                    base, attr = li[node.id]
                    if attr is None:
                        return ("mod", base) if base in self.modules else ("lib", base)
                    if base in self.modules:
                        r = self.resolve_global(base, attr)
                        if r is not None:
                            return r
                        if f"{base}.{attr}" in self.modules:
                            return ("mod", f"{base}.{attr}")
                        return None
                    return ("lib", f"{base}.{attr}")
            return self.resolve_global(mod.name, node.id)
        if isinstance(node, ast.Attribute):
            base = self.resolve_expr(f, node.value)
            if base is None:
                return None
            if base[0] == "mod":
                return self.resolve_global(base[1], node.attr)
            if base[0] == "lib":
                return ("lib", f"{base[1]}.{node.attr}")
            if base[0] == "class":
                meth = base[1].methods.get(node.attr)
                if meth:
                    return ("func", meth)
            return None
        return None

    def _local_imports(self, f: FunctionInfo):
        cached = getattr(f.node, "_verif_local_imports", None)
        if cached is not None:
            return cached
        out = {}
        g = f
        while g is not None:
            for n in walk_no_nested(g.node):
                if isinstance(n, ast.Import):
                    for al in n.names:
                        out.setdefault(al.asname or al.name.split(".")[0], (al.name if al.asname else al.name.split(".")[0], None))
                elif isinstance(n, ast.ImportFrom) and not n.level:
                    for al in n.names:
                        out.setdefault(al.asname or al.name, (n.module, al.name))
            g = g.parent
        f.node._verif_local_imports = out
        return out

    def resolve_call(self, f: FunctionInfo, call: ast.Call) -> Callee:
        fn = call.func
        # self.method(...) / cls.method(...) / self.__private(...)
        if isinstance(fn, ast.Attribute) and isinstance(fn.value, ast.Name) and fn.value.id in ("self", "cls"):
            ci = f.cls or (f.parent.cls if f.parent else None)
            if ci is not None:
                name = fn.attr
                if name in ci.methods:
                    return Callee("repo", func=ci.methods[name])
                mangled = f"_{ci.name}{name}"
                if mangled in ci.methods:
                    return Callee("repo", func=ci.methods[mangled])
            return Callee("method", attr=fn.attr)
        if isinstance(fn, ast.Name):
            # local nested function?
            g = f
            while g is not None:
                q = f"{g.qualname}.<locals>.{fn.id}"
                if q in self.functions:
                    return Callee("repo", func=self.functions[q])
                g = g.parent
            if fn.id in local_names(f.node) and fn.id not in f.module.ns and fn.id not in self._local_imports(f):
                return Callee("unknown")
        r = self.resolve_expr(f, fn)
        if r is None:
            if isinstance(fn, ast.Attribute):
                return Callee("method", attr=fn.attr)
            if isinstance(fn, ast.Name) and fn.id in BUILTINS:
                return Callee("lib", lib=f"builtins.{fn.id}")
            return Callee("unknown")
        if r[0] == "func":
            return Callee("repo", func=r[1])
        if r[0] == "class":
            return Callee("class", cls=r[1], func=r[1].methods.get("__init__"))
        if r[0] == "lib":
            return Callee("lib", lib=canon_lib(r[1]))
        return Callee("unknown")

    # -- lookup -------------------------------------------------------------------------------
    def func(self, short: str, must=True) -> FunctionInfo | None:
        """Look up by 'module_tail.function' or 'Class.method' or full qualname; an anchor that no
        longer exists is an AnalysisError (fail closed)."""
        if short in self.functions:
            return self.functions[short]
        cands = [f for q, f in self.functions.items() if q.endswith("." + short)]
        if len(cands) == 1:
            return cands[0]
        if len(cands) > 1:
            # prefer the definition in the module named after the function
            best = [f for f in cands if f.module.name.split(".")[-1] == f.name and f.cls is None and f.parent is None]
            if len(best) == 1:
                return best[0]
            best = [f for f in cands if f.parent is None]
            if len(best) == 1:
                return best[0]
            raise AnalysisError(f"ambiguous anchor {short}: {[f.qualname for f in cands]}")
        if must:
            raise AnalysisError(f"anchored function {short} not found in {self.repo}")
        return None

    def bind(self, call: ast.Call, fi: FunctionInfo, bound_method: bool | None = None):
        """actual -> formal binding.  Returns dict formal -> ast expr | DEFAULT, plus key '*opaque' if
        *args/**kwargs were used at the call."""
        out = {}
        params = [p for p in fi.params]
        if bound_method is None:
            bound_method = fi.cls is not None and not fi.is_static
        if bound_method and params and params[0].kind == "pos":
            params = params[1:]
        pos = [p for p in params if p.kind == "pos"]
        i = 0
        for a in call.args:
            if isinstance(a, ast.Starred):
                out["*opaque"] = True
                break
            if i < len(pos):
                out[pos[i].name] = a
                i += 1
            else:
                out.setdefault("*extra", []).append(a)
        names = {p.name for p in params if p.kind in ("pos", "kwonly")}
        for kw in call.keywords:
            if kw.arg is None:
                out["**opaque"] = kw.value
            elif kw.arg in names:
                out[kw.arg] = kw.value
            else:
                out.setdefault("**extra", {})[kw.arg] = kw.value
        for p in params:
            if p.kind in ("pos", "kwonly") and p.name not in out:
                out[p.name] = DEFAULT if p.default is not None else MISSING
        return out

    def callers_of(self, target: FunctionInfo):
        for f in self.functions.values():
            for c in calls_in(f.node):
                cal = self.resolve_call(f, c)
                if cal.kind in ("repo", "class") and cal.func is target:
                    yield f, c

    def callees_closure(self, roots: list[FunctionInfo]) -> list[FunctionInfo]:
        seen = {}
        work = list(roots)
        while work:
            f = work.pop()
            if f.qualname in seen:
                continue
            seen[f.qualname] = f
            for c in calls_in(f.node):
                cal = self.resolve_call(f, c)
                if cal.kind in ("repo", "class") and cal.func is not None:
                    work.append(cal.func)
        return list(seen.values())


class _Marker:
    def __init__(self, n):
        self.n = n

    def __repr__(self):
        return self.n


DEFAULT = _Marker("<default>")
MISSING = _Marker("<missing>")

BUILTINS = set(dir(__builtins__)) if not isinstance(__builtins__, dict) else set(__builtins__)

_LIB_ALIASES = {
    "numpy.core": "numpy",
    "numpy.lib": "numpy",
    "scipy.linalg.sqrtm": "scipy.linalg.sqrtm",
    "cvxpy.expressions.variable.Variable": "cvxpy.Variable",
    "cvxpy.expressions.expression.Expression": "cvxpy.Expression",
    "cvxpy.atoms.affine.bmat.bmat": "cvxpy.bmat",
    "cvxpy.atoms.affine.vstack.vstack": "cvxpy.vstack",
    "cvxpy.atoms.affine.hstack.hstack": "cvxpy.hstack",
    "scipy.sparse.linalg.eigs": "scipy.sparse.linalg.eigs",
}


def canon_lib(name: str) -> str:
    if name in _LIB_ALIASES:
        return _LIB_ALIASES[name]
    if name.startswith("cvxpy.") and name.count(".") > 1:
        # cvxpy.atoms.xyz.foo -> cvxpy.foo
        return "cvxpy." + name.split(".")[-1]
    if name.startswith("sp.") or name == "sp":
        return "scipy" + name[2:]
    return name


# ---------------------------------------------------------------------------------------------
def calls_in(node: ast.AST, include_nested=False):
    """All Call nodes in a function body (not descending into nested defs unless asked)."""
    out = []

    def rec(n, top):
        for ch in ast.iter_child_nodes(n):
            if isinstance(ch, (ast.FunctionDef, ast.AsyncFunctionDef, ast.ClassDef, ast.Lambda)) and not include_nested:
                if isinstance(ch, ast.Lambda):
                    rec(ch, False)
                continue
            if isinstance(ch, ast.Call):
                out.append(ch)
            rec(ch, False)

    rec(node, True)
    return out


def walk_no_nested(node: ast.AST):
    """ast.walk that does not enter nested function/class definitions."""
    stack = [node]
    first = True
    while stack:
        n = stack.pop()
        if not first and isinstance(n, (ast.FunctionDef, ast.AsyncFunctionDef, ast.ClassDef)):
            continue
        first = False
        yield n
        stack.extend(reversed(list(ast.iter_child_nodes(n))))


_local_cache: dict[int, set] = {}


def local_names(fnode: ast.FunctionDef) -> set[str]:
    cached = getattr(fnode, "_verif_locals", None)
    if cached is not None:
        return cached
    names = set()
    a = fnode.args
    for arg in list(a.posonlyargs) + list(a.args) + list(a.kwonlyargs):
        names.add(arg.arg)
    if a.vararg:
        names.add(a.vararg.arg)
    if a.kwarg:
        names.add(a.kwarg.arg)
    for n in walk_no_nested(fnode):
        if isinstance(n, ast.Name) and isinstance(n.ctx, (ast.Store, ast.Del)):
            names.add(n.id)
        elif isinstance(n, ast.ExceptHandler) and n.name:
            names.add(n.name)
    for n in ast.iter_child_nodes(fnode):
        pass
    fnode._verif_locals = names
    return names


def unparse(n) -> str:
    try:
        return ast.unparse(n)
    except Exception:  # pragma: no cover
        return repr(n)
