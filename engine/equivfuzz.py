"""Checker robustness against behaviour-preserving rewrites other than renames.

Mutators (each produces a program with the same behaviour; all are applied through ast + ast.unparse of ONE function, the
rest of the file is kept verbatim):

  kw        f(a, b)            ->  f(x=a, y=b)          positional arguments of a resolved repo callee spelled by keyword
  pos       f(x=a, y=b)        ->  f(a, b)              leading keywords of a resolved repo callee spelled positionally
  hoist     S(.. g(e) ..)      ->  _h = g(e); S(.. _h ..)   the first call argument that is itself a call, when S is a simple statement
                                                        directly in the function body and g(e) is evaluated unconditionally in S
  ret       return E           ->  _r = E; return _r
  flipif    if c: A else: B    ->  if not c: B else: A
  flipcmp   a < b              ->  b > a   (single comparison operators < <= > >=)
  dagger    x.conj().T         ->  x.T.conj()   and back
  swap      S1; S2             ->  S2; S1   two adjacent plain assignments `name = expr` directly in the function body, neither
                                           reading or writing a name the other writes, both without calls that could have effects
                                           (only attribute-free calls of names / numpy functions are accepted)
  dead      (nothing)          ->  _unused_local = 0   inserted as the first statement after the docstring
  inline    t = E; S(.. t ..)  ->  S(.. E ..)   a local bound once directly in the body and read exactly once, in the next statement

A mutant that adds a violated obligation or loses a confirmed one is a defect of the CHECKER."""

from __future__ import annotations

import ast
import copy
import os
from concurrent.futures import ProcessPoolExecutor

from .main import load_floors, lost_confirmed, run_property
from .model import DEFAULT, MISSING, RepoModel

REPO = os.environ.get("VERIF_REPO", "/repo")
MUTATORS = ("kw", "pos", "hoist", "ret", "flipif", "flipcmp", "dagger", "swap", "dead", "inline")


def _simple_stmt(s):
    return isinstance(s, (ast.Assign, ast.AugAssign, ast.AnnAssign, ast.Return, ast.Expr))


def _unconditional_subcalls(stmt):
    """(parent call, index, arg) for call arguments that are themselves calls and are evaluated whenever stmt runs"""
    out = []

    def walk(n, guarded):
        if isinstance(n, (ast.IfExp, ast.BoolOp, ast.Lambda, ast.ListComp, ast.SetComp, ast.DictComp, ast.GeneratorExp, ast.NamedExpr, ast.Await, ast.Yield, ast.YieldFrom)):
            return
        if isinstance(n, ast.Call) and not guarded:
            for i, a in enumerate(n.args):
                if isinstance(a, ast.Call) and not any(isinstance(x, (ast.Starred, ast.NamedExpr, ast.Yield, ast.YieldFrom, ast.Lambda)) for x in ast.walk(a)):
                    out.append((n, i, a))
        for ch in ast.iter_child_nodes(n):
            walk(ch, guarded)

    val = getattr(stmt, "value", None)
    if val is not None:
        walk(val, False)
    return out


def mutants_of(model, f, fn=None):
    """yields (kind, ordinal, new function AST) for the function f (a FunctionInfo); fn = the raw AST of the same function"""
    fn = fn if fn is not None else f.node
    # ---- kw / pos
    calls = [n for n in ast.walk(fn) if isinstance(n, ast.Call)]
    k = 0
    for c in calls:
        cal = model.resolve_call(f, c)
        if cal.kind != "repo" or cal.func is None or any(isinstance(a, ast.Starred) for a in c.args) or any(kw.arg is None for kw in c.keywords):
            continue
        if getattr(cal.func.node.args, "vararg", None) is not None or getattr(cal.func.node.args, "posonlyargs", []):
            continue
        names = [a.arg for a in cal.func.node.args.args if a.arg not in ("self", "cls")]
        if c.args and len(c.args) <= len(names):
            fn2 = copy.deepcopy(fn)
            c2 = _same_node(fn, fn2, c)
            newkw = [ast.keyword(arg=names[i], value=a) for i, a in enumerate(c2.args)]
            c2.keywords = newkw + c2.keywords
            c2.args = []
            yield ("kw", k, fn2)
            k += 1
        if c.keywords:
            # leading keywords in declaration order -> positional
            kwmap = {kw.arg: kw.value for kw in c.keywords}
            take = []
            for nm in names[len(c.args):]:
                if nm in kwmap:
                    take.append(nm)
                else:
                    break
            if take:
                fn2 = copy.deepcopy(fn)
                c2 = _same_node(fn, fn2, c)
                kw2 = {kw.arg: kw.value for kw in c2.keywords}
                c2.args = list(c2.args) + [kw2[nm] for nm in take]
                c2.keywords = [kw for kw in c2.keywords if kw.arg not in take]
                yield ("pos", k, fn2)
                k += 1
    # ---- hoist / ret : statements directly in the body (not nested blocks, so no loop re-evaluation issues)
    for si, s in enumerate(fn.body):
        if not _simple_stmt(s):
            continue
        subs = _unconditional_subcalls(s)
        if subs:
            par, i, a = subs[0]
            # evaluation order: only when the hoisted call is the first argument and the callee expression is a plain name / attribute chain
            if i == 0 and not isinstance(par.func, ast.Call):
                fn2 = copy.deepcopy(fn)
                par2 = _same_node(fn, fn2, par)
                tmp = ast.Name(id="_h_tmp", ctx=ast.Store())
                asg = ast.Assign(targets=[tmp], value=par2.args[0], lineno=0, col_offset=0)
                par2.args[0] = ast.Name(id="_h_tmp", ctx=ast.Load())
                fn2.body.insert(si, asg)
                yield ("hoist", si, fn2)
        if isinstance(s, ast.Return) and s.value is not None and not isinstance(s.value, (ast.Name, ast.Constant)):
            fn2 = copy.deepcopy(fn)
            r2 = fn2.body[si]
            asg = ast.Assign(targets=[ast.Name(id="_r_tmp", ctx=ast.Store())], value=r2.value, lineno=0, col_offset=0)
            fn2.body[si] = ast.Return(value=ast.Name(id="_r_tmp", ctx=ast.Load()))
            fn2.body.insert(si, asg)
            yield ("ret", si, fn2)
    # ---- swap adjacent independent assignments
    def _rw(st):
        w = {n.id for n in ast.walk(st) if isinstance(n, ast.Name) and isinstance(n.ctx, ast.Store)}
        r = {n.id for n in ast.walk(st) if isinstance(n, ast.Name) and isinstance(n.ctx, ast.Load)}
        return r, w

    def _plain(st):
        if not (isinstance(st, ast.Assign) and len(st.targets) == 1 and isinstance(st.targets[0], ast.Name)):
            return False
        for n in ast.walk(st.value):
            if isinstance(n, (ast.Yield, ast.YieldFrom, ast.Await, ast.NamedExpr)):
                return False
            if isinstance(n, ast.Call):
                fn_ = n.func
                # method calls on locals may mutate (append, sort, ...): only np.<f>(...) / name(...) calls
                if isinstance(fn_, ast.Attribute) and not (isinstance(fn_.value, ast.Name) and fn_.value.id in ("np", "numpy", "math", "scipy", "cvxpy", "picos", "itertools")):
                    return False
        return True

    for si in range(len(fn.body) - 1):
        a, b = fn.body[si], fn.body[si + 1]
        if _plain(a) and _plain(b):
            ra, wa = _rw(a)
            rb, wb = _rw(b)
            if not (wa & (rb | wb)) and not (wb & (ra | wa)):
                fn2 = copy.deepcopy(fn)
                fn2.body[si], fn2.body[si + 1] = fn2.body[si + 1], fn2.body[si]
                yield ("swap", si, fn2)
    # ---- inline: a local bound once by a plain assignment and read exactly once, in the next statement of the same block
    def _all_blocks(node):
        out = []
        for n_ in ast.walk(node):
            for fld in ("body", "orelse", "finalbody"):
                b_ = getattr(n_, fld, None)
                if isinstance(b_, list) and b_ and isinstance(b_[0], ast.stmt) and not (isinstance(n_, (ast.FunctionDef, ast.ClassDef)) and n_ is not node):
                    out.append((n_, fld))
        return out

    k_inl = 0
    for owner, fld in _all_blocks(fn):
        blk = getattr(owner, fld)
        for si in range(len(blk) - 1):
            a, b = blk[si], blk[si + 1]
            if not (_plain(a) and isinstance(b, (ast.Assign, ast.Return, ast.Expr, ast.AugAssign))):
                continue
            nm = a.targets[0].id
            occ = [n for n in ast.walk(fn) if isinstance(n, ast.Name) and n.id == nm]
            loads = [n for n in occ if isinstance(n.ctx, ast.Load)]
            stores = [n for n in occ if isinstance(n.ctx, ast.Store)]
            if len(stores) != 1 or len(loads) != 1 or not any(x is loads[0] for x in ast.walk(b)):
                continue
            if any(isinstance(x, (ast.ListComp, ast.GeneratorExp, ast.SetComp, ast.DictComp, ast.Lambda, ast.IfExp, ast.BoolOp)) and any(y is loads[0] for y in ast.walk(x)) for x in ast.walk(b)):
                continue
            fn2 = copy.deepcopy(fn)
            owner2 = _same_node(fn, fn2, owner)
            blk2 = getattr(owner2, fld)
            a2, b2 = blk2[si], blk2[si + 1]
            tgt = next(n for n in ast.walk(b2) if isinstance(n, ast.Name) and n.id == nm and isinstance(n.ctx, ast.Load))
            _replace(b2, tgt, a2.value)
            del blk2[si]
            yield ("inline", k_inl, fn2)
            k_inl += 1
    # ---- dead local
    fn2 = copy.deepcopy(fn)
    at = 1 if (fn2.body and isinstance(fn2.body[0], ast.Expr) and isinstance(fn2.body[0].value, ast.Constant) and isinstance(fn2.body[0].value.value, str)) else 0
    fn2.body.insert(at, ast.Assign(targets=[ast.Name(id="_unused_local", ctx=ast.Store())], value=ast.Constant(value=0), lineno=0, col_offset=0))
    yield ("dead", 0, fn2)
    # ---- flipif
    ifs = [n for n in ast.walk(fn) if isinstance(n, ast.If) and n.orelse and not (len(n.orelse) == 1 and isinstance(n.orelse[0], ast.If))]
    for j, n in enumerate(ifs):
        fn2 = copy.deepcopy(fn)
        n2 = _same_node(fn, fn2, n)
        n2.test = ast.UnaryOp(op=ast.Not(), operand=n2.test)
        n2.body, n2.orelse = n2.orelse, n2.body
        yield ("flipif", j, fn2)
    # ---- flipcmp
    FL = {ast.Lt: ast.Gt, ast.Gt: ast.Lt, ast.LtE: ast.GtE, ast.GtE: ast.LtE}
    cmps = [n for n in ast.walk(fn) if isinstance(n, ast.Compare) and len(n.ops) == 1 and type(n.ops[0]) in FL]
    for j, n in enumerate(cmps):
        fn2 = copy.deepcopy(fn)
        n2 = _same_node(fn, fn2, n)
        n2.left, n2.comparators = n2.comparators[0], [n2.left]
        n2.ops = [FL[type(n2.ops[0])]()]
        yield ("flipcmp", j, fn2)
    # ---- dagger spelling
    dg = []
    for n in ast.walk(fn):
        if isinstance(n, ast.Attribute) and n.attr == "T" and isinstance(n.value, ast.Call) and isinstance(n.value.func, ast.Attribute) and n.value.func.attr == "conj" and not n.value.args:
            dg.append(("ct", n))
        elif isinstance(n, ast.Call) and isinstance(n.func, ast.Attribute) and n.func.attr == "conj" and not n.args and isinstance(n.func.value, ast.Attribute) and n.func.value.attr == "T":
            dg.append(("tc", n))
    for j, (kind, n) in enumerate(dg):
        fn2 = copy.deepcopy(fn)
        n2 = _same_node(fn, fn2, n)
        if kind == "ct":
            x = n2.value.func.value
            new = ast.Call(func=ast.Attribute(value=ast.Attribute(value=x, attr="T", ctx=ast.Load()), attr="conj", ctx=ast.Load()), args=[], keywords=[])
        else:
            x = n2.func.value.value
            new = ast.Attribute(value=ast.Call(func=ast.Attribute(value=x, attr="conj", ctx=ast.Load()), args=[], keywords=[]), attr="T", ctx=ast.Load())
        _replace(fn2, n2, new)
        yield ("dagger", j, fn2)


def _same_node(a_root, b_root, node):
    for x, y in zip(ast.walk(a_root), ast.walk(b_root)):
        if x is node:
            return y
    raise KeyError


def _replace(root, old, new):
    for parent in ast.walk(root):
        for field, val in ast.iter_fields(parent):
            if val is old:
                setattr(parent, field, new)
                return
            if isinstance(val, list):
                for i, v in enumerate(val):
                    if v is old:
                        val[i] = new
                        return


def _splice(full_src, fn_node, new_fn):
    lines = full_src.split("\n")
    lo = min([fn_node.lineno] + [d.lineno for d in fn_node.decorator_list])
    hi = fn_node.end_lineno
    indent = " " * fn_node.col_offset
    ast.fix_missing_locations(new_fn)
    txt = ast.unparse(new_fn)
    txt = "\n".join(indent + ln if ln else ln for ln in txt.split("\n"))
    return "\n".join(lines[: lo - 1] + txt.split("\n") + lines[hi:])


def _one(args):
    pid, rel, qual, kind, ordinal, text, base = args
    try:
        ast.parse(text)
    except SyntaxError as exc:
        return (pid, qual, kind, ordinal, "skipped", str(exc)[:60])
    try:
        model = RepoModel(overrides={rel: text})
        ctx = run_property(pid, "quick", model)
    except Exception as exc:  # noqa: BLE001
        return (pid, qual, kind, ordinal, "error", str(exc)[:120])
    viol = sorted(o.key for o in ctx.obs if o.status == "violated" and o.key not in base)
    lost = lost_confirmed(ctx, load_floors().get(pid, {}))
    if viol:
        return (pid, qual, kind, ordinal, "VIOLATION", viol[:3])
    if lost or ctx.crashed:
        return (pid, qual, kind, ordinal, "lost", (lost[:3] or ctx.crashed[-200:]))
    return (pid, qual, kind, ordinal, "ok", "")


def jobs_for(pid, kinds=MUTATORS):
    m = RepoModel()
    ctx = run_property(pid, "quick", m)
    base = {o.key for o in ctx.obs if o.status == "violated"}
    jobs = []
    for q in sorted(ctx.analysed_functions):
        f = m.functions.get(q)
        if f is None or f.parent is not None:
            continue
        full = open(os.path.join(REPO, f.file), encoding="utf-8").read()
        # re-parse the raw file so that positions / names are those of the file on disk (the model's AST is alpha-canonicalised)
        raw = ast.parse(full)
        fn_raw = next((n for n in ast.walk(raw) if isinstance(n, (ast.FunctionDef, ast.AsyncFunctionDef)) and n.lineno == f.node.lineno and n.name == f.node.name), None)
        if fn_raw is None:
            continue
        try:
            for kind, ordinal, fn2 in mutants_of(m, f, fn_raw):
                if kind not in kinds:
                    continue
                jobs.append((pid, f.file, q, kind, ordinal, _splice(full, fn_raw, fn2), base))
        except Exception:  # noqa: BLE001
            continue
    return jobs


class _Shim:
    """FunctionInfo look-alike whose node is the raw (un-canonicalised) AST; call resolution goes through the model's function"""

    def __init__(self, f, node):
        self._f = f
        self.node = node

    def __getattr__(self, k):
        return getattr(self._f, k)


def run_for(pid, workers=16, kinds=MUTATORS):
    jobs = jobs_for(pid, kinds)
    if not jobs:
        return {"mutants": 0, "ok": 0, "failed": []}
    with ProcessPoolExecutor(max_workers=workers) as ex:
        res = list(ex.map(_one, jobs, chunksize=4))
    bad = [r for r in res if r[4] in ("VIOLATION", "lost", "error")]
    by = {}
    for r in res:
        by.setdefault(r[2], [0, 0])
        by[r[2]][0] += 1
        by[r[2]][1] += r[4] == "ok"
    return {"mutants": len(res), "ok": sum(1 for r in res if r[4] == "ok"), "skipped": sum(1 for r in res if r[4] == "skipped"),
            "by_kind": {k: f"{v[1]}/{v[0]}" for k, v in sorted(by.items())},
            "failed": [f"{r[1]} {r[2]}#{r[3]} -> {r[4]} {r[5]}" for r in bad]}
