"""Thorough tier: the generic rule families swept over the transitive callee closure of the functions a property's quick
check touched.  A convention break three calls down is reported against the property that relies on it, with the call chain."""

from __future__ import annotations

import ast

from .base import FORMAL_BASE, check_call_bases
from .dataflow import origins
from .model import DEFAULT, MISSING, calls_in, unparse
from .rules import _kind_int_handled, r_scalar_dim_expand, calls_from, path_conds, cond_implies_none, r_order, r_tol_forward

THREAD_PARAMS = ("dim", "dims", "rtol", "atol", "tol", "seed", "solver", "level", "reps", "inv_perm", "row_only", "is_real")

# same name, different meaning -- DESIGN Appendix A.1 (caller, callee, parameter): reason
THREAD_EXCEPTIONS = {
    ("is_extremal", "choi_to_kraus", "tol"): "rank tolerance vs eigenvalue cut-off",
    ("is_block_positive", "is_hermitian", "rtol"): "tolerance on the S(k)-bound comparison, not on entries",
    ("is_block_positive", "is_positive_semidefinite", "rtol"): "tolerance on the S(k)-bound comparison, not on entries",
    ("is_pseudo_hermitian", "is_hermitian", "rtol"): "validation of the signature argument, not the verdict",
    ("is_pseudo_hermitian", "is_hermitian", "atol"): "validation of the signature argument, not the verdict",
    ("has_symmetric_extension", "is_ppt", "tol"): "SDP-closeness tolerance 1e-4 vs eigenvalue tolerance",
    ("is_separable", "has_symmetric_extension", "tol"): "SDP-closeness tolerance vs eigenvalue tolerance",
    ("is_separable", "is_ppt", "tol"): "auxiliary matrix of the Hildebrand test (second call site)",
    ("is_separable", "is_positive_semidefinite", "tol"): "state validation uses the predicate's defaults",
    ("choi_to_kraus", "is_hermitian", "tol"): "rank cut-off, not an entrywise tolerance",
    ("choi_to_kraus", "is_positive_semidefinite", "tol"): "rank cut-off, not an entrywise tolerance",
    ("sk_operator_norm", "is_hermitian", "tol"): "internal eps-derived tolerance",
    ("symmetric_extension_hierarchy", "symmetric_projection", "dim"): "projector acts on copies of Y only: receives dim_y",
    ("channel_fidelity", "partial_trace", "dim"): "local dimension derived from the Choi size",
    ("completely_bounded_trace_norm", "is_quantum_channel", "tol"): "n/a",
    ("measure", "is_density", "tol"): "probability threshold, not a matrix tolerance",
    ("XORGame.to_nonlocal_game", "NonlocalGame", "tol"): "n/a",
    ("random_density_matrix", "random_unitary", "dim"): "same meaning, checked by R-RNG",
    ("swap_operator", "swap", "dim"): "checked in C01",
    ("entanglement_of_formation", "concurrence", "dim"): "two-qubit formula",
    ("is_unitary", "choi_to_kraus", "dim"): "channel predicate takes no dim",
}


def sweep(ctx, roots=None):
    m = ctx.model
    if roots is None:
        roots = [m.functions[q] for q in sorted(ctx.analysed_functions) if q in m.functions]
    closure = m.callees_closure(list(roots))
    chain_of = _chains(m, roots)
    n = {"functions": len(closure), "thread_sites": 0, "base_sites": 0, "kind_params": 0, "tol_preds": 0}
    for g in sorted(closure, key=lambda f: f.qualname):
        chain = chain_of.get(g.qualname, [])
        # S-BASE
        for (callee, formal) in FORMAL_BASE:
            n["base_sites"] += _quiet(lambda: check_call_bases(ctx, g, f"{callee}.{callee}", formal, rule="R-BASE")) or 0
        # S-KIND
        for p in g.params:
            if p.annotation is None or p.name not in ("dim", "dims", "sys"):
                continue
            ann = unparse(p.annotation)
            toks = [x.strip() for x in ann.replace("None", "").split("|")]
            if "int" in toks and any(("list" in t or "ndarray" in t) for t in toks) and not g.name.startswith("__"):
                n["kind_params"] += 1
                v = _kind_int_handled(m, g, p.name, set())
                if v[0] is False:
                    ctx.ob("R-KIND", g, f"{p.name}: int alternative handled", False, f"`{p.name}` is declared `{ann}` but {v[1]}", v[2], chain=chain)
                elif v[0] is True:
                    ctx.ob("R-KIND", g, f"{p.name}: int alternative handled", True, v[1], chain=chain)
        n["expand_sites"] = n.get("expand_sites", 0) + (_quiet(lambda: r_scalar_dim_expand(ctx, g, chain=chain)) or 0)
        # S-THREAD: same-named optional parameter not forwarded
        og = origins(g)
        for c in calls_in(g.node):
            cal = m.resolve_call(g, c)
            if cal.kind not in ("repo", "class") or cal.func is None:
                continue
            b = m.bind(c, cal.func)
            if "*opaque" in b or "**opaque" in b:
                continue
            for pn in THREAD_PARAMS:
                if g.param(pn) is None or cal.func.param(pn) is None or cal.func.param(pn).default is None:
                    continue
                callee_name = cal.func.short if cal.kind == "repo" else cal.cls.name
                if (g.short, callee_name.split(".")[-1] if cal.kind == "repo" and cal.func.cls is None else callee_name, pn) in THREAD_EXCEPTIONS or \
                        (g.short, cal.func.name, pn) in THREAD_EXCEPTIONS:
                    continue
                n["thread_sites"] += 1
                a = b.get(pn)
                key = f"{pn}->{cal.func.name}.{pn}"
                if a is DEFAULT or a is MISSING:
                    if cond_implies_none(path_conds(m, g, c), pn):
                        ctx.ob("R-THREAD", g, key, True, f"`{pn}` omitted on a path where it is None", c, chain=chain)
                    else:
                        ctx.ob("R-THREAD", g, key, False, f"`{unparse(c)[:70]}` does not pass `{pn}` although both functions take it: the callee computes with its default", c, chain=chain)
                elif og.derives_from(a, pn):
                    ctx.ob("R-THREAD", g, key, True, f"{pn}={unparse(a)[:30]}", c, chain=chain)
        # S-ORDER
        ps_calls = calls_from(m, g, "permute_systems.permute_systems")
        if ps_calls:
            # a later un-permute with the same perm cancels whatever order the set iteration produced (R-PAIR)
            closes = any(isinstance(m.bind(c, cal.func).get("inv_perm"), ast.Constant) and m.bind(c, cal.func)["inv_perm"].value is True for c, cal in ps_calls)
            if not closes:
                _quiet(lambda: r_order(ctx, g, "permute_systems.permute_systems", "perm"))
    ctx.notes.append(f"thorough sweep over the callee closure: {n}")
    return n


def _quiet(fn):
    try:
        return fn()
    except Exception:  # noqa: BLE001
        return None


def _chains(m, roots):
    """shortest call chain root -> function (names)"""
    chain = {r.qualname: [r.short] for r in roots}
    work = list(roots)
    while work:
        f = work.pop(0)
        for c in calls_in(f.node):
            cal = m.resolve_call(f, c)
            if cal.kind in ("repo", "class") and cal.func is not None and cal.func.qualname not in chain:
                chain[cal.func.qualname] = chain[f.qualname] + [cal.func.short]
                work.append(cal.func)
    return chain
