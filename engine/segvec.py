"""Symbolic 1-D arrays as runs of equal values: [(value term, length term), ...].

Understands np.ones / zeros / full, np.append / concatenate / hstack, np.pad (constant mode), list literals and
repetition, and scalar multiples (the common scalar is carried separately).  Anything else -> None (unknown).  Used to
decide where the non-zero block of a constructed diagonal sits (gen_gell_mann) without running anything."""

from __future__ import annotations

from .norm import Normalizer


def _len1(t):
    """length argument: k or (k,)"""
    if t[0] == "tuple" and len(t) == 2:
        return t[1]
    if t[0] in ("tuple", "list"):
        return None
    return t


def _arg(t, i, name=None):
    args, kws = t[2], dict(t[3])
    if name is not None and name in kws:
        return kws[name]
    return args[i] if len(args) > i else None


class SegEval:
    def __init__(self, norm: Normalizer):
        self.N = norm

    def seg(self, t, depth=0):
        """-> (scalar factors list, [(value, length)]) or None"""
        if depth > 12 or not isinstance(t, tuple) or not t:
            return None
        h = t[0]
        if h == "call":
            k = t[1]
            if k in ("numpy.ones", "numpy.zeros"):
                ln = _len1(_arg(t, 0, "shape"))
                return None if ln is None else ([], [(("c", 1 if k.endswith("ones") else 0), ln)])
            if k == "numpy.full":
                ln = _len1(_arg(t, 0, "shape"))
                v = _arg(t, 1, "fill_value")
                return None if ln is None or v is None else ([], [(v, ln)])
            if k == "numpy.append":
                a, b = self.seg_or_scalar(_arg(t, 0, "arr"), depth), self.seg_or_scalar(_arg(t, 1, "values"), depth)
                return self._cat([a, b])
            if k in ("numpy.concatenate", "numpy.hstack"):
                seq = _arg(t, 0)
                if seq is None or seq[0] not in ("tuple", "list"):
                    return None
                return self._cat([self.seg_or_scalar(x, depth) for x in seq[1:]])
            if k == "numpy.pad":
                a = self.seg(_arg(t, 0, "array"), depth + 1)
                w = _arg(t, 1, "pad_width")
                kws = dict(t[3])
                if a is None or w is None or kws.get("mode", ("c", "constant")) != ("c", "constant") or "constant_values" in kws:
                    return None
                if w[0] in ("tuple", "list") and len(w) == 3:
                    lo, hi = w[1], w[2]
                elif w[0] not in ("tuple", "list"):
                    lo = hi = w
                else:
                    return None
                sc, runs = a
                return (sc, [(("c", 0), lo)] + runs + [(("c", 0), hi)])
            if k in ("numpy.array", "numpy.asarray") and t[2]:
                return self.seg(t[2][0], depth + 1)
            return None
        if h == "list":
            return ([], [(x, ("c", 1)) for x in t[1:]])
        if h == "*":
            vec = [(x, self.seg(x, depth + 1)) for x in t[1]]
            vs = [(x, s) for x, s in vec if s is not None]
            if len(vs) != 1:
                return None
            sc, runs = vs[0][1]
            others = [x for x in t[1] if x is not vs[0][0]]
            # list repetition [v] * k
            if vs[0][0][0] == "list" and len(others) == 1 and len(runs) == 1:
                return (sc, [(runs[0][0], others[0])])
            return (sc + others, runs)
        if h == "neg":
            r = self.seg(t[1], depth + 1)
            return None if r is None else (r[0] + [("c", -1)], r[1])
        return None

    def seg_or_scalar(self, t, depth):
        if t is None:
            return None
        r = self.seg(t, depth + 1)
        if r is not None:
            return r
        # a scalar expression appended as one element
        if t[0] in ("c", "n", "neg", "+", "*", "/", "**", "call", "sub"):
            return ([], [(t, ("c", 1))])
        return None

    def _cat(self, parts):
        if any(p is None for p in parts):
            return None
        # scalar factors must be pushed into the run values before concatenation
        runs = []
        for sc, rs in parts:
            for v, ln in rs:
                vv = self.N._mul(list(sc) + [v]) if sc else v
                runs.append((vv, ln))
        return ([], runs)


def nonzero_runs(runs, norm):
    """drop runs whose value is the constant 0; merge is not attempted"""
    return [(v, ln) for v, ln in runs if v != ("c", 0)]
